import NurbsVerif.Lemmas.UniqueGlobal
import NurbsVerif.Lemmas.RemoveInvSurf

/-! # Tensor-product linear independence: uniqueness of the control net of a B-spline SURFACE

`S(u,v) = Σ_a Nu_a(u) · C_a(v)` (`C_a` = iso-curve with control polygon `rowOf … a`).  For a fixed `v` this is
a curve in `u` whose control values are the points `C_a(v)`; global linear independence of the u-basis
(`basis_global_lin_indep`, from `basisFuns_lin_indep` on a non-empty span per index) gives `C_a(v) = C'_a(v)`
for every row index `a` – for two surfaces that share the u-direction but may have DIFFERENT v-directions
(degree, knots, size).  That is `surface_rows_determined` (and `surface_cols_determined` with the roles of the
directions exchanged); with equal v-directions, uniqueness of curve control points on every row gives
`surface_net_unique`. -/
namespace Geomdl
open Blossom Finset
variable {K : Type} [Field K] [LinearOrder K] [IsStrictOrderedRing K]

/-- the linear span search returns an index in `p .. n-1` (no hypothesis on the knots) -/
theorem findSpanLinear_mem_range (p : ℕ) (U : ℕ → K) (n : ℕ) (u : K) (hpn : p + 1 ≤ n) :
    p ≤ findSpanLinear p U n u ∧ findSpanLinear p U n u < n := by
  obtain ⟨h1, h2, _, _⟩ := findSpanLinearAux_spec U n u (n+1) (p+1) hpn (by omega)
  unfold findSpanLinear
  constructor <;> omega

/-- **Global linear independence of the B-spline basis** (scalar coefficients `c 0 .. c (n-1)`): if the
    combination `Σ_r N_{k-p+r,p}(u) · c (k-p+r)` (`k` = the span the library finds for `u`) vanishes at every
    parameter of the half-open domain, every coefficient vanishes. -/
theorem basis_global_lin_indep (p n : ℕ) (U : ℕ → K) (hm : Monotone U) (hpn : p + 1 ≤ n)
    (hact : AllActive p n U) (c : ℕ → K)
    (h : ∀ u, U p ≤ u → u < U n →
      ∑ r ∈ range (p+1), (basisFuns p U (findSpanLinear p U n u) u).getD r 0 * c (findSpanLinear p U n u - p + r) = 0) :
    ∀ i, i < n → c i = 0 := by
  intro i hi
  obtain ⟨κ, k1, k2, k3, k4, k5⟩ := hact.span hpn i hi
  have := basisFuns_lin_indep p U κ hm k5 k1 (fun r => c (κ - p + r)) (by
    intro u h1 h2
    have hlo : U p ≤ u := le_trans (hm k1) h1
    have hhi : u < U n := lt_of_lt_of_le h2 (hm (by omega))
    have e := h u hlo hhi
    rw [findSpanLinear_unique p U n u hpn hm hlo hhi κ h1 h2] at e
    exact e) (i - (κ - p)) (by omega)
  rw [show κ - p + (i - (κ - p)) = i by omega] at this
  exact this

/-- two coefficient sequences with the same combination on the half-open domain are equal -/
theorem basis_global_coeff_unique (p n : ℕ) (U : ℕ → K) (hm : Monotone U) (hpn : p + 1 ≤ n)
    (hact : AllActive p n U) (c c' : ℕ → K)
    (h : ∀ u, U p ≤ u → u < U n →
      ∑ r ∈ range (p+1), (basisFuns p U (findSpanLinear p U n u) u).getD r 0 * c (findSpanLinear p U n u - p + r)
        = ∑ r ∈ range (p+1), (basisFuns p U (findSpanLinear p U n u) u).getD r 0 * c' (findSpanLinear p U n u - p + r)) :
    ∀ i, i < n → c i = c' i := by
  intro i hi
  have := basis_global_lin_indep p n U hm hpn hact (fun m => c m - c' m) (by
    intro u h1 h2
    have e := h u h1 h2
    simp only [mul_sub, Finset.sum_sub_distrib]
    rw [e, sub_self]) i hi
  exact sub_eq_zero.mp this

/-- **The points of the iso-curves `u = const`-rows are determined by the surface points** (fixed `v`, coordinate
    `j`): two surfaces with the same u-direction – their v-directions (degree, knots, size) may differ – whose
    points agree for every `u` of the half-open u-domain have, row by row, the same iso-curve point at `v`. -/
theorem surface_rows_determined (pu pv pv' : ℕ) (Uu Uv Uv' : ℕ → K) (su sv sv' : ℕ) (P P' : List (List K))
    (d j : ℕ) (v : K) (hmu : Monotone Uu) (hpnu : pu + 1 ≤ su) (hactu : AllActive pu su Uu)
    (hpnv : pv + 1 ≤ sv) (hpnv' : pv' + 1 ≤ sv')
    (hlen : P.length = su * sv) (hlen' : P'.length = su * sv') (hP : NetOk d P) (hP' : NetOk d P')
    (h : ∀ u, Uu pu ≤ u → u < Uu su →
      (surfacePoint pu pv Uu Uv su sv P u v).getD j 0 = (surfacePoint pu pv' Uu Uv' su sv' P' u v).getD j 0) :
    ∀ a, a < su → (curvePoint pv Uv (rowOf sv P a) v).getD j 0 = (curvePoint pv' Uv' (rowOf sv' P' a) v).getD j 0 := by
  obtain ⟨kv1, kv2⟩ := findSpanLinear_mem_range pv Uv sv v hpnv
  obtain ⟨kv1', kv2'⟩ := findSpanLinear_mem_range pv' Uv' sv' v hpnv'
  have key := basis_global_coeff_unique pu su Uu hmu hpnu hactu
    (fun a => (curvePointAt pv Uv (rowOf sv P a) (findSpanLinear pv Uv sv v) v).getD j 0)
    (fun a => (curvePointAt pv' Uv' (rowOf sv' P' a) (findSpanLinear pv' Uv' sv' v) v).getD j 0) (by
      intro u h1 h2
      obtain ⟨ku1, ku2⟩ := findSpanLinear_mem_range pu Uu su u hpnu
      have e := h u h1 h2
      unfold surfacePoint at e
      rw [surfacePointAt_rows pu pv Uu Uv su sv P _ _ u v d j ku1 kv1 ku2 kv2 hlen hP,
        surfacePointAt_rows pu pv' Uu Uv' su sv' P' _ _ u v d j ku1 kv1' ku2 kv2' hlen' hP'] at e
      exact e)
  intro a ha
  have := key a ha
  unfold curvePoint
  rw [RemInv.rowOf_length, RemInv.rowOf_length]
  exact this

/-- **… and the points of the iso-curves `v = const` (columns)**: two surfaces with the same v-direction – their
    u-directions may differ – whose points agree for every `v` of the half-open v-domain (fixed `u`) have, column
    by column, the same iso-curve point at `u`. -/
theorem surface_cols_determined (pu pu' pv : ℕ) (Uu Uu' Uv : ℕ → K) (su su' sv : ℕ) (P P' : List (List K))
    (d j : ℕ) (u : K) (hmv : Monotone Uv) (hpnv : pv + 1 ≤ sv) (hactv : AllActive pv sv Uv)
    (hpnu : pu + 1 ≤ su) (hpnu' : pu' + 1 ≤ su')
    (hlen : P.length = su * sv) (hlen' : P'.length = su' * sv) (hP : NetOk d P) (hP' : NetOk d P')
    (h : ∀ v, Uv pv ≤ v → v < Uv sv →
      (surfacePoint pu pv Uu Uv su sv P u v).getD j 0 = (surfacePoint pu' pv Uu' Uv su' sv P' u v).getD j 0) :
    ∀ b, b < sv → (curvePoint pu Uu (colOf su sv P b) u).getD j 0 = (curvePoint pu' Uu' (colOf su' sv P' b) u).getD j 0 := by
  obtain ⟨ku1, ku2⟩ := findSpanLinear_mem_range pu Uu su u hpnu
  obtain ⟨ku1', ku2'⟩ := findSpanLinear_mem_range pu' Uu' su' u hpnu'
  have key := basis_global_coeff_unique pv sv Uv hmv hpnv hactv
    (fun b => (curvePointAt pu Uu (colOf su sv P b) (findSpanLinear pu Uu su u) u).getD j 0)
    (fun b => (curvePointAt pu' Uu' (colOf su' sv P' b) (findSpanLinear pu' Uu' su' u) u).getD j 0) (by
      intro v h1 h2
      obtain ⟨kv1, kv2⟩ := findSpanLinear_mem_range pv Uv sv v hpnv
      have e := h v h1 h2
      unfold surfacePoint at e
      rw [surfacePointAt_cols pu pv Uu Uv su sv P _ _ u v d j ku1 kv1 ku2 kv2 hlen hP,
        surfacePointAt_cols pu' pv Uu' Uv su' sv P' _ _ u v d j ku1' kv1 ku2' kv2 hlen' hP'] at e
      exact e)
  intro b hb
  have := key b hb
  unfold curvePoint
  rw [RemInv.colOf_length, RemInv.colOf_length]
  exact this

/-- **Uniqueness of the control net of a B-spline surface (knot function form).**  Sorted knots in both
    directions, `su ≥ pu + 1`, `sv ≥ pv + 1`, two `su × sv` nets of `d`-dimensional points, every basis function of
    either direction active on its domain: if the two surfaces have the same point at every parameter pair of the
    half-open domain `[Uu pu, Uu su) × [Uv pv, Uv sv)`, the nets are equal. -/
theorem surface_net_unique (pu pv d : ℕ) (Uu Uv : ℕ → K) (su sv : ℕ) (P P' : List (List K))
    (hmu : Monotone Uu) (hmv : Monotone Uv) (hpnu : pu + 1 ≤ su) (hpnv : pv + 1 ≤ sv)
    (hactu : AllActive pu su Uu) (hactv : AllActive pv sv Uv)
    (hlen : P.length = su * sv) (hlen' : P'.length = su * sv) (hP : NetOk d P) (hP' : NetOk d P')
    (h : ∀ u v, Uu pu ≤ u → u < Uu su → Uv pv ≤ v → v < Uv sv → ∀ j,
      (surfacePoint pu pv Uu Uv su sv P u v).getD j 0 = (surfacePoint pu pv Uu Uv su sv P' u v).getD j 0) :
    P = P' := by
  apply RemInv.net_eq_of_rows su sv P P' hlen hlen'
  intro x hx
  apply net_unique pv d Uv (rowOf sv P x) (rowOf sv P' x) hmv (by rw [RemInv.rowOf_length]; exact hpnv)
    (by rw [RemInv.rowOf_length, RemInv.rowOf_length]) (rowOf_netOk su sv d P hP hlen x hx)
    (rowOf_netOk su sv d P' hP' hlen' x hx) (by rw [RemInv.rowOf_length]; exact hactv)
  intro v h1 h2 j
  rw [RemInv.rowOf_length] at h2
  exact surface_rows_determined pu pv pv Uu Uv Uv su sv sv P P' d j v hmu hpnu hactu hpnv hpnv hlen hlen' hP hP'
    (fun u hu1 hu2 => h u v hu1 hu2 h1 h2 j) x hx

end Geomdl
