import NurbsVerif.Lemmas.RemoveMultiRemovable
import NurbsVerif.Lemmas.UniqueTensorExample

/-!
  C06, several directions in one call: concrete objects over ℚ for the non-vacuity examples.  `exSurfRef2Q` is the
  explicit `3 × 6` surface over the knots `0,0,½,1,1` × `0,0,0,¼,¼,½,1,1,1`; `½` is removable from it once in u (witness
  `exSurfRefQ`), and from the witness `¼` is removable twice in v (witness `exSurfQ`).
-/
namespace Geomdl
namespace Multi
open Blossom

def exSurfRef2Q : Shape ℚ where
  rat := false
  degs := [1, 2]
  kvs := [[0,0,1/2,1,1], [0,0,0,1/4,1/4,1/2,1,1,1]]
  sizes := [3, 6]
  net := [[0,0,0],[0,1/2,1/2],[0,7/8,5/8],[0,5/4,3/4],[0,2,0],[0,3,1],
          [1/2,0,0],[1/2,1/2,3/4],[1/2,7/8,15/16],[1/2,5/4,9/8],[1/2,2,0],[1/2,3,1],
          [1,0,0],[1,1/2,1],[1,7/8,5/4],[1,5/4,3/2],[1,2,0],[1,3,1]]

theorem exSurfRef2Q_wf : SurfWF 3 exSurfRef2Q where
  degs := rfl
  kvs := rfl
  sizes := rfl
  netlen := rfl
  net := by
    intro pt hpt
    simp [exSurfRef2Q] at hpt
    rcases hpt with h | h | h | h | h | h | h | h | h | h | h | h | h | h | h | h | h | h <;> simp [h]
  dir0 := ⟨mono_of_pairwise _ (by decide +kernel), rfl, by decide, by decide +kernel⟩
  dir1 := ⟨mono_of_pairwise _ (by decide +kernel), rfl, by decide, by decide +kernel⟩

/-- inserting `½` once along u into the example surfaces: admissible, true multiplicity found -/
theorem exSurfQ_round0 : RoundOk exSurfQ 0 (1/2) 1 (1/10000000) :=
  roundOk_of_sep exSurfQ 0 (1/2) 1 _ exSurfQ_wf.dir0 (by norm_num) (by decide +kernel) (by decide +kernel)
    (by decide +kernel) (by decide +kernel) (by decide) (by decide +kernel)

theorem exSurfRefQ_round0 : RoundOk exSurfRefQ 0 (1/2) 1 (1/10000000) :=
  roundOk_of_sep exSurfRefQ 0 (1/2) 1 _ exSurfRefQ_wf.dir0 (by norm_num) (by decide +kernel) (by decide +kernel)
    (by decide +kernel) (by decide +kernel) (by decide) (by decide +kernel)

theorem exSurfRef2Q_eq : exSurfRef2Q = insDirOf exSurfRefQ 0 (1/2) 1 (1/10000000) :=
  Shape.ext' rfl rfl (by decide +kernel) (by decide +kernel) (by decide +kernel)

/-- all hypotheses of "`½` is removable once from direction u of `exSurfRef2Q`, witness `exSurfRefQ`" -/
theorem exSurfRef2Q_removable : SurfRemovableObj 3 exSurfRef2Q exSurfRefQ 0 (1/2) 1 (1/10000000) where
  wfS := exSurfRef2Q_wf
  wfT := exSurfRefQ_wf
  dir2 := by decide
  round := exSurfRefQ_round0
  rat := rfl
  degs := rfl
  kvs := by decide +kernel
  sizes := by decide +kernel
  active0 := by decide +kernel
  active1 := by decide +kernel
  same := by
    have hs := (insDirOf_surface 3 exSurfRefQ exSurfRefQ_wf 0 (by decide) (1/2) 1 (1/10000000) (by decide) exSurfRefQ_round0.req).1
    rw [← exSurfRef2Q_eq] at hs
    intro u v a b c e j
    exact hs.eval u v (by rw [← hs.lo0]; exact a) (by rw [← hs.hi0]; exact le_of_lt b) (by rw [← hs.lo1]; exact c)
      (by rw [← hs.hi1]; exact le_of_lt e) j |>.symm

/-- both requests of the call `insert_knot(exSurfQ, [½, ¼], [1, 2])` are admissible -/
theorem exSurfQ_roundCall : RoundCallOk 2 exSurfQ [some (1/2), some (1/4)] [1, 2] (1/10000000) := by
  intro dir hd u hu hn
  rcases (by omega : dir = 0 ∨ dir = 1) with rfl | rfl
  · rw [← Option.some.inj hu]; exact exSurfQ_round0
  · rw [← Option.some.inj hu]; exact exSurfQ_round

/-- the chain: `½` (u, once) then `¼` (v, twice) removable from `exSurfRef2Q`, last witness `exSurfQ` -/
theorem exSurfRef2Q_chain : SurfRemChain 3 (1/10000000) [(0, 1/2, 1), (1, 1/4, 2)] exSurfRef2Q exSurfQ :=
  ⟨exSurfRefQ, exSurfRef2Q_removable, exSurfQ, exSurfRefQ_removable, rfl⟩

/-- the example volume, two of the three directions in one call: `½` once along u, `¼` twice along w -/
theorem exVolQ_roundCall : RoundCallOk 3 exVolQ [some (1/2), none, some (1/4)] [1, 0, 2] (1/10000000) := by
  intro dir hd u hu hn
  rcases (by omega : dir = 0 ∨ dir = 1 ∨ dir = 2) with rfl | rfl | rfl
  · rw [← Option.some.inj hu]
    exact roundOk_of_sep exVolQ 0 (1/2) 1 _ exVolQ_wf.dir0 (by norm_num) (by decide +kernel) (by decide +kernel)
      (by decide +kernel) (by decide +kernel) (by decide) (by decide +kernel)
  · cases hu
  · rw [← Option.some.inj hu]
    exact roundOk_of_sep exVolQ 2 (1/4) 2 _ exVolQ_wf.dir2 (by norm_num) (by decide +kernel) (by decide +kernel)
      (by decide +kernel) (by decide +kernel) (by decide) (by decide +kernel)

end Multi
end Geomdl
