import NurbsVerif.Lemmas.AffineAssembleKinds

/-! Concrete witness for the non-vacuity examples of `Props/C10.lean` (end-to-end statements). -/
namespace Geomdl

/-- a rational surface, degrees 2×1, sizes 3×2, UNCLAMPED in u (domain `[2,3] × [0,1]`; the start point is
    not a control point), 3-D points with weights 1,2,1,3,1,2 -/
def exSurf : Shape ℚ :=
  { rat := true, degs := [2,1], kvs := [[0,1,2,3,4,5],[0,0,1,1]], sizes := [3,2],
    net := [[0,0,0,1],[2,0,2,2],[0,1,0,1],[3,3,6,3],[0,0,1,1],[4,0,2,2]] }

theorem exSurf_wf : ShapeWF 3 exSurf := by
  refine ⟨Or.inr (Or.inl rfl), ?_, rfl, ?_, ?_, ?_, ?_⟩
  · intro i hi
    have hi' : i < 2 := hi
    rcases i with _ | _ | i
    · exact knotsOk_of_sorted 2 _ 3 (by decide +kernel) (by omega) (by decide +kernel)
    · exact knotsOk_of_sorted 1 _ 2 (by decide +kernel) (by omega) (by decide +kernel)
    · omega
  · show NetOk 4 exSurf.net
    intro pt hpt; simp [exSurf] at hpt; rcases hpt with h|h|h|h|h|h <;> simp [h]
  · intro _ pt hpt; simp [exSurf] at hpt; rcases hpt with h|h|h|h|h|h <;> simp [h]
  · intro i hi
    have hi' : i < 2 := hi
    rcases i with _ | _ | i
    · rfl
    · rfl
    · omega
  · intro i hi
    have hi' : i < 2 := hi
    rcases i with _ | _ | i
    · decide
    · decide
    · omega

/-- the parameter pair `(5/2, 1/3)` -/
def exT : ℕ → ℚ := fun i => if i = 0 then 5/2 else 1/3

theorem exT_inDom : exSurf.InDom exT := by
  intro i hi
  have hi' : i < 2 := hi
  rcases i with _ | _ | i
  · exact ⟨by decide +kernel, by decide +kernel⟩
  · exact ⟨by decide +kernel, by decide +kernel⟩
  · omega

end Geomdl
