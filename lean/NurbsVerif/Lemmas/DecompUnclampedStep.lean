import NurbsVerif.Lemmas.DecompUnclamped

/-! One step of `operations.decompose_curve`, unclamped knot vectors allowed: the remainder is admissible
    again, and its intervals / break points are those of the input behind the first interval. -/
set_option linter.unusedSectionVars false
namespace Geomdl
open Blossom
variable {K : Type} [Field K] [LinearOrder K] [IsStrictOrderedRing K]

/-- **the remainder of a decomposition step is again admissible** (clamped at its start; its end is as
    the input's) -/
theorem remainder_wfU (p d : ℕ) (U : List K) (P : List (List K)) (tol : K)
    (h : DecompWFU p d U P tol) (hn : p + 1 < P.length) :
    DecompWFU p d
      (knotNormalize (rightKv p (splitRefined p U P (fnOf U (p + 1)) tol).1 (fnOf U (p + 1))
        (findSpanLinear p (fnOf U) P.length (fnOf U (p + 1)) + (p - findMultiplicity (fnOf U (p + 1)) U tol))))
      ((splitRefined p U P (fnOf U (p + 1)) tol).2.drop
        (findSpanLinear p (fnOf U) P.length (fnOf U (p + 1)) + (p - findMultiplicity (fnOf U (p + 1)) U tol) - p))
      tol := by
  obtain ⟨hlo, hhi, hmx, hks, hs1⟩ := decomp_factsU p d U P tol h hn
  have hcut := splitRefined_cutU p d U P (fnOf U (p + 1)) tol h.wf h.hp hlo hhi hmx
  have hkn := remainder_knotsU p d U P tol h hn
  obtain ⟨_, hszB⟩ := step_sizesU p d U P tol h hn
  obtain ⟨wB, zB, _, lB⟩ := hcut.rightNorm
  obtain ⟨hhead, hlast⟩ := hcut.rightRange
  obtain ⟨hW, hN, _, _⟩ := splitRefined_spec p d U P (fnOf U (p + 1)) tol h.wf hlo hhi hmx
  obtain ⟨_, _, _, hWL⟩ := splitRefined_ends p d U P (fnOf U (p + 1)) tol h.wf hlo hhi hmx
  obtain ⟨k1, k2, k3, k4⟩ := findSpanLinear_spec p (fnOf U) P.length (fnOf U (p + 1)) h.wf.pn h.wf.mono (le_of_lt hlo)
  have hsp := hmx.le
  have hhiL : fnOf U (p + 1) < fnOf U (P.length + p) := lt_of_lt_of_le hhi (h.wf.mono (by omega))
  have hpos : 0 < fnOf U (P.length + p) - fnOf U (p + 1) := sub_pos.mpr hhiL
  have hmem : fnOf U (p + 1) ∈ U := by
    rw [fnOf_getElem U (p + 1) (by have := h.wf.len; omega)]; exact List.getElem_mem _
  set ub := fnOf U (p + 1) with hub
  set k := findSpanLinear p (fnOf U) P.length ub with hk
  set s := findMultiplicity ub U tol with hs
  set st := splitRefined p U P ub tol with hst
  have hlenB : (st.2.drop (k + (p - s) - p)).length = st.2.length - (k + (p - s) - p) := by simp
  have hk2 : ub < fnOf U (k + 1) := by
    rcases k4 with h' | h'
    · exact h'
    · rw [h']; exact hhi
  refine ⟨wB, h.hp, ?_, ?_, ?_, h.tol0, ?_⟩
  · -- the remainder's domain starts with a non-empty span
    rw [zB p (le_refl _), hkn (p + 1) (by omega)]
    apply div_pos _ hpos
    rw [sub_pos]
    exact lt_of_lt_of_le hk2 (h.wf.mono (by omega))
  · -- inner knots repeated at most `p` times
    intro i hi1 hi2
    rw [hkn (i + p) (by omega), hkn i (by omega), div_lt_div_iff_of_pos_right hpos, sub_lt_sub_iff_right]
    have := h.mul (i + s) (by omega) (by omega)
    rw [show i + s + p = i + p + s by omega] at this
    exact this
  · rw [hlenB, lB, zB 0 (by omega)]; norm_num
  · -- separation survives the normalisation because the knot range is not longer than 1
    intro x hx y hy hxy
    simp only [knotNormalize, List.mem_map] at hx hy
    obtain ⟨x', hx', rfl⟩ := hx
    obtain ⟨y', hy', rfl⟩ := hy
    rw [hhead, hlast, hWL] at hxy ⊢
    have inU : ∀ z, z ∈ rightKv p st.1 ub (k + (p - s)) → z ∈ U := by
      intro z hz
      simp only [rightKv, List.mem_append, List.mem_replicate] at hz
      rcases hz with hz | hz
      · rw [hz.2]; exact hmem
      · rcases mem_splitRefined p U P ub tol z (List.mem_of_mem_drop hz) with h' | h'
        · exact h'
        · rw [h']; exact hmem
    have hd : |x' - y'| ≤ tol := by
      have e : (x' - ub) / (fnOf U (P.length + p) - ub) - (y' - ub) / (fnOf U (P.length + p) - ub)
          = (x' - y') / (fnOf U (P.length + p) - ub) := by ring
      rw [e, abs_div, abs_of_pos hpos, div_le_iff₀ hpos] at hxy
      have h1 : fnOf U (P.length + p) - ub ≤ 1 := by
        have := h.unit
        have : fnOf U 0 ≤ ub := le_trans (h.wf.mono (by omega)) (le_of_lt hlo)
        linarith
      have := mul_le_mul_of_nonneg_left h1 h.tol0
      linarith
    rw [h.sep x' (inU x' hx') y' (inU y' hy') hd]

/-- **intervals and break points of the remainder**: the first interval is cut off, the others are
    the remainder's, shifted; the break points map affinely (the map of the remainder's knot range) -/
theorem step_startsU (p d : ℕ) (U : List K) (P : List (List K)) (tol : K)
    (h : DecompWFU p d U P tol) (hn : p + 1 < P.length) :
    spanStarts p (fnOf U) P.length
      = p :: (spanStarts p
          (fnOf (knotNormalize (rightKv p (splitRefined p U P (fnOf U (p + 1)) tol).1 (fnOf U (p + 1))
            (findSpanLinear p (fnOf U) P.length (fnOf U (p + 1)) + (p - findMultiplicity (fnOf U (p + 1)) U tol)))))
          ((splitRefined p U P (fnOf U (p + 1)) tol).2.drop
            (findSpanLinear p (fnOf U) P.length (fnOf U (p + 1)) + (p - findMultiplicity (fnOf U (p + 1)) U tol) - p)).length).map
            (· + findMultiplicity (fnOf U (p + 1)) U tol) ∧
    breaks p (fnOf U) P.length
      = fnOf U p :: (breaks p
          (fnOf (knotNormalize (rightKv p (splitRefined p U P (fnOf U (p + 1)) tol).1 (fnOf U (p + 1))
            (findSpanLinear p (fnOf U) P.length (fnOf U (p + 1)) + (p - findMultiplicity (fnOf U (p + 1)) U tol)))))
          ((splitRefined p U P (fnOf U (p + 1)) tol).2.drop
            (findSpanLinear p (fnOf U) P.length (fnOf U (p + 1)) + (p - findMultiplicity (fnOf U (p + 1)) U tol) - p)).length).map
            (fun x => fnOf U (p + 1) + x * (fnOf U (P.length + p) - fnOf U (p + 1))) := by
  obtain ⟨hlo, hhi, hmx, hks, hs1⟩ := decomp_factsU p d U P tol h hn
  have hkn := remainder_knotsU p d U P tol h hn
  obtain ⟨_, hszB⟩ := step_sizesU p d U P tol h hn
  obtain ⟨k1, k2, k3, k4⟩ := findSpanLinear_spec p (fnOf U) P.length (fnOf U (p + 1)) h.wf.pn h.wf.mono (le_of_lt hlo)
  have hsp := hmx.le
  have hhiL : fnOf U (p + 1) < fnOf U (P.length + p) := lt_of_lt_of_le hhi (h.wf.mono (by omega))
  have hpos : 0 < fnOf U (P.length + p) - fnOf U (p + 1) := sub_pos.mpr hhiL
  set ub := fnOf U (p + 1) with hub
  set k := findSpanLinear p (fnOf U) P.length ub with hk
  set s := findMultiplicity ub U tol with hs
  set st := splitRefined p U P ub tol with hst
  set UB := knotNormalize (rightKv p st.1 ub (k + (p - s))) with hUB
  set PB := st.2.drop (k + (p - s) - p) with hPB
  have hstarts : spanStarts p (fnOf U) P.length = p :: (spanStarts p (fnOf UB) PB.length).map (· + s) := by
    rw [spanStarts_split p k P.length (fnOf U) k1 (by omega)]
    rw [spanStarts_run p k (fnOf U) (by omega) hlo (by
      intro i hi1 hi2
      rw [hmx.eq i (by omega) (by omega), hmx.eq (i + 1) (by omega) (by omega)]
      exact lt_irrefl _)]
    have e : spanStarts k (fnOf U) P.length = spanStarts (p + s) (fnOf U) (PB.length + s) := by
      rw [hks, hszB]
    rw [e, spanStarts_shift p s PB.length (fnOf UB) (fnOf U) (by
      intro i hi
      rw [hkn i hi, hkn (i + 1) (by omega), div_lt_div_iff_of_pos_right hpos, sub_lt_sub_iff_right,
          show i + 1 + s = i + s + 1 by omega])]
    rfl
  refine ⟨hstarts, ?_⟩
  unfold breaks
  rw [hstarts]
  simp only [List.map_cons, List.map_append, List.map_map, List.cons_append, List.map_nil]
  congr 2
  · apply List.map_congr_left
    intro i hi
    rw [mem_spanStarts] at hi
    simp only [Function.comp]
    rw [hkn i hi.1]
    field_simp
    ring
  · have hp' : p ≤ PB.length := by have := h.wf.pn; omega
    rw [hkn PB.length hp', hszB]
    field_simp
    ring_nf

end Geomdl
