import NurbsVerif.Lemmas.Locality
import NurbsVerif.Lemmas.InsertModel
import NurbsVerif.Model.Knots2

/-! Pieces of a split curve: evaluation on a prefix / suffix of the control polygon with the
    correspondingly cut knot vector equals evaluation of the whole curve (window locality). -/
namespace Geomdl
open Blossom
variable {K : Type} [Field K] [LinearOrder K] [IsStrictOrderedRing K]

/-- shifting the knot function and the span together does not change A2.2 -/
theorem basisFuns_shift (U : ℕ → K) (c κ : ℕ) (u : K) : ∀ (p : ℕ), p ≤ κ →
    basisFuns p (fun i => U (i + c)) κ u = basisFuns p U (κ + c) u := by
  intro p
  induction p with
  | zero => intro _; rfl
  | succ p ih =>
    intro hp
    rw [basisFuns_succ, basisFuns_succ, ih (by omega)]
    unfold bfStep
    apply bfInner_congr
    intro a ha
    rw [Blossom.basisFuns_length] at ha
    unfold left right
    constructor
    · show U (κ + (0 + a + 1) + c) - u = U (κ + c + (0 + a + 1)) - u
      have : κ + (0 + a + 1) + c = κ + c + (0 + a + 1) := by omega
      rw [this]
    · show u - U (κ + 1 - (p + 1 - (0 + a)) + c) = u - U (κ + c + 1 - (p + 1 - (0 + a)))
      have : κ + 1 - (p + 1 - (0 + a)) + c = κ + c + 1 - (p + 1 - (0 + a)) := by omega
      rw [this]

theorem ptsGet_take (Q : List (List K)) (c i : ℕ) (hi : i < c) : ptsGet (Q.take c) i = ptsGet Q i := by
  unfold ptsGet
  simp [List.getD_eq_getElem?_getD, List.getElem?_take, hi]

theorem ptsGet_drop (Q : List (List K)) (c i : ℕ) : ptsGet (Q.drop c) i = ptsGet Q (c + i) := by
  unfold ptsGet
  simp [List.getD_eq_getElem?_getD, List.getElem?_drop]

theorem dimOf_take (Q : List (List K)) (c : ℕ) (hc : 0 < c) : dimOf (Q.take c) = dimOf Q := by
  unfold dimOf
  cases Q with
  | nil => simp
  | cons a as =>
    cases c with
    | zero => omega
    | succ c => simp

/-- **left piece**: on every span `κ < c` whose knot window agrees, evaluating the first `c` control
    points with the cut knot function gives the point of the whole curve -/
theorem curvePointAt_take (p : ℕ) (U V : ℕ → K) (Q : List (List K)) (c κ : ℕ) (u : K)
    (hp : p ≤ κ) (hκ : κ < c)
    (hwin : ∀ i, κ + 1 ≤ i + p → i ≤ κ + p → V i = U i) :
    curvePointAt p V (Q.take c) κ u = curvePointAt p U Q κ u := by
  unfold curvePointAt
  rw [dimOf_take Q c (by omega), basisFuns_congr V U κ u p hp hwin]
  congr 1
  apply List.map_congr_left
  intro i hi
  rw [List.mem_range] at hi
  exact ptsGet_take Q c _ (by omega)

/-- **right piece**: dropping the first `c` control points and shifting the knots by `c` -/
theorem curvePointAt_drop (p : ℕ) (U V : ℕ → K) (Q : List (List K)) (c κ : ℕ) (u : K)
    (hp : p ≤ κ) (hd : dimOf (Q.drop c) = dimOf Q)
    (hwin : ∀ i, κ + 1 ≤ i + p → i ≤ κ + p → V i = U (i + c)) :
    curvePointAt p V (Q.drop c) κ u = curvePointAt p U Q (κ + c) u := by
  unfold curvePointAt
  rw [hd, basisFuns_congr V (fun i => U (i + c)) κ u p hp hwin, basisFuns_shift U c κ u p hp]
  congr 1
  apply List.map_congr_left
  intro i hi
  rw [ptsGet_drop]
  congr 1
  omega

/-- the knot vector of the left piece built by `operations.split_curve`: `U'[0 : m+1] ++ [ub]` -/
theorem fnOf_left_kv (Ul : List K) (ub : K) (m i : ℕ) (hm : m < Ul.length) (hi : i ≤ m) :
    fnOf (Ul.take (m + 1) ++ [ub]) i = fnOf Ul i := by
  unfold fnOf
  simp only [List.getD_eq_getElem?_getD]
  rw [List.getElem?_append_left (by simp; omega), List.getElem?_take_of_lt (by omega)]
  rw [List.getElem?_eq_getElem (by omega)]
  simp

/-- the knot vector of the right piece: `[ub]*(p+1) ++ U'[m+1:]`; beyond the first `p+1` entries it
    is the original shifted by `m - p` -/
theorem fnOf_right_kv (Ul : List K) (ub : K) (p m i : ℕ) (hpm : p ≤ m) (hm : m + 1 < Ul.length) (hi : p + 1 ≤ i) :
    fnOf (List.replicate (p + 1) ub ++ Ul.drop (m + 1)) i = fnOf Ul (i + (m - p)) := by
  have hne : Ul.drop (m + 1) ≠ [] := by
    intro h
    have := congrArg List.length h
    simp at this; omega
  have hlast : (List.replicate (p + 1) ub ++ Ul.drop (m + 1)).getLastD 0 = Ul.getLastD 0 := by
    rw [List.getLastD_eq_getLast?, List.getLastD_eq_getLast?, List.getLast?_append_of_ne_nil _ hne, List.getLast?_drop]
    simp [show ¬ (Ul.length ≤ m + 1) by omega]
  unfold fnOf
  rw [hlast]
  simp only [List.getD_eq_getElem?_getD]
  rw [List.getElem?_append_right (by simp; omega)]
  simp only [List.length_replicate, List.getElem?_drop]
  congr 2
  omega

end Geomdl

namespace Geomdl
open Blossom
variable {K : Type} [Field K] [LinearOrder K] [IsStrictOrderedRing K]

/-- **Left piece of `split_curve`** (before the normalisation of its knot vector): with `m` the index
    of the last copy of the split parameter in the refined knot vector, the first `m-p+1` control
    points with the knot vector `U'[0 : m+1] ++ [ub]` evaluate like the refined curve on every span
    `κ ≤ m - p` (i.e. left of the split parameter). -/
theorem left_piece_coincides (p : ℕ) (Ul : List K) (Q : List (List K)) (ub u : K) (m κ : ℕ)
    (hm : m < Ul.length) (hpκ : p ≤ κ) (hκm : κ + p ≤ m) :
    curvePointAt p (fnOf (Ul.take (m + 1) ++ [ub])) (Q.take (m - p + 1)) κ u = curvePointAt p (fnOf Ul) Q κ u := by
  apply curvePointAt_take p (fnOf Ul) _ Q (m - p + 1) κ u hpκ (by omega)
  intro i _ h2
  exact fnOf_left_kv Ul ub m i hm (by omega)

/-- **Right piece of `split_curve`**: the control points from index `m-p` on with the knot vector
    `[ub]*(p+1) ++ U'[m+1:]` evaluate, on span `κ₂` of the piece, like the refined curve on span
    `κ₂ + (m-p)` (right of the split parameter), provided the split parameter has multiplicity `p`
    ending at `m` in the refined knot vector. -/
theorem right_piece_coincides (p d : ℕ) (Ul : List K) (Q : List (List K)) (ub u : K) (m κ₂ : ℕ)
    (hpm : p ≤ m) (hm : m + 1 < Ul.length) (hpκ : p ≤ κ₂) (hQ : NetOk d Q) (hmQ : m - p < Q.length)
    (hmult : ∀ x, m - p < x → x ≤ m → fnOf Ul x = ub) :
    curvePointAt p (fnOf (List.replicate (p + 1) ub ++ Ul.drop (m + 1))) (Q.drop (m - p)) κ₂ u
      = curvePointAt p (fnOf Ul) Q (κ₂ + (m - p)) u := by
  apply curvePointAt_drop p (fnOf Ul) _ Q (m - p) κ₂ u hpκ
  · rw [dimOf_eq hQ (by omega)]
    apply dimOf_eq
    · intro pt hpt; exact hQ pt (List.mem_of_mem_drop hpt)
    · simp; omega
  · intro i h1 h2
    by_cases hi : p + 1 ≤ i
    · exact fnOf_right_kv Ul ub p m i hpm hm hi
    · have hi1 : 1 ≤ i := by omega
      rw [hmult (i + (m - p)) (by omega) (by omega)]
      unfold fnOf
      simp only [List.getD_eq_getElem?_getD]
      rw [List.getElem?_append_left (by simp; omega)]
      have hip : i < p + 1 := by omega
      simp [List.getElem?_replicate, hip]

/-- the knot function of a normalised knot vector is the affine image of the original one -/
theorem fnOf_knotNormalize (V : List K) (i : ℕ) (hne : V ≠ []) :
    fnOf (knotNormalize V) i = (1 / (V.getLastD 0 - V.headD 0)) * fnOf V i + (-(V.headD 0) / (V.getLastD 0 - V.headD 0)) := by
  have hlast : (knotNormalize V).getLastD 0 = (V.getLastD 0 - V.headD 0) / (V.getLastD 0 - V.headD 0) := by
    unfold knotNormalize
    simp only []
    rw [List.getLastD_eq_getLast?, List.getLast?_map, List.getLastD_eq_getLast?]
    cases h : V.getLast? with
    | none => rw [List.getLast?_eq_none_iff] at h; exact absurd h hne
    | some x => simp
  unfold fnOf
  rw [hlast]
  unfold knotNormalize
  simp only [List.getD_eq_getElem?_getD, List.getElem?_map]
  cases h : V[i]? with
  | none => simp; ring
  | some x => simp; ring

/-- **Normalisation of a piece** (the constructor of the piece normalises its knot vector): evaluating
    the normalised piece at the affinely mapped parameter is evaluating the un-normalised piece -/
theorem normalized_piece (p : ℕ) (V : List K) (P : List (List K)) (κ : ℕ) (u : K) (hne : V ≠ [])
    (hrange : V.getLastD 0 - V.headD 0 ≠ 0) :
    curvePointAt p (fnOf (knotNormalize V)) P κ ((u - V.headD 0) / (V.getLastD 0 - V.headD 0))
      = curvePointAt p (fnOf V) P κ u := by
  unfold curvePointAt
  have hfun : fnOf (knotNormalize V) = fun i => (1 / (V.getLastD 0 - V.headD 0)) * fnOf V i + (-(V.headD 0) / (V.getLastD 0 - V.headD 0)) :=
    funext (fun i => fnOf_knotNormalize V i hne)
  have hu : (u - V.headD 0) / (V.getLastD 0 - V.headD 0)
      = (1 / (V.getLastD 0 - V.headD 0)) * u + (-(V.headD 0) / (V.getLastD 0 - V.headD 0)) := by ring
  rw [hfun, hu, basisFuns_affine (fnOf V) κ u _ _ (one_div_ne_zero hrange) p]

end Geomdl
