import NurbsVerif.Lemmas.SplitMult

/-! `operations.split_curve`, end to end through the model `splitDir`. -/
set_option linter.unusedSectionVars false
namespace Geomdl
open Blossom
variable {K : Type} [Field K] [LinearOrder K] [IsStrictOrderedRing K]

/-- a well-formed CLAMPED curve of degree at least one: `CurveWF` plus `U_0 = U_p` and
    `U_{n+p} = U_n` (with sortedness: `p+1` equal knots at both ends) -/
structure ClampedWF (p d : ℕ) (U : List K) (P : List (List K)) : Prop where
  wf : CurveWF p d U P
  hp : 1 ≤ p
  c0 : fnOf U 0 = fnOf U p
  c1 : fnOf U (P.length + p) = fnOf U P.length

/-- `find_multiplicity` is exact for the split parameter when every knot is equal to it or further
    than `tol` away, and no knot other than the two ends is repeated more than `p` times -/
theorem multExact_of_sep (p d : ℕ) (U : List K) (P : List (List K)) (ub tol : K)
    (hwf : CurveWF p d U P) (hp : 1 ≤ p) (hlo : fnOf U p < ub) (hhi : ub < fnOf U P.length)
    (htol : 0 ≤ tol) (hsep : ∀ x ∈ U, |ub - x| ≤ tol → x = ub)
    (hmul : ∀ i, 1 ≤ i → i < P.length → fnOf U i < fnOf U (i + p)) :
    MultExact p (fnOf U) (findSpanLinear p (fnOf U) P.length ub) (findMultiplicity ub U tol) ub := by
  obtain ⟨k1, k2, k3, k4⟩ := findSpanLinear_spec p (fnOf U) P.length ub hwf.pn hwf.mono (le_of_lt hlo)
  set k := findSpanLinear p (fnOf U) P.length ub with hk
  have hk2 : ub < fnOf U (k + 1) := by
    rcases k4 with h | h
    · exact h
    · rw [h]; exact hhi
  have hlen := hwf.len
  obtain ⟨a, ha, hs, hlt, heq⟩ := findMultiplicity_run U ub tol k hwf.mono htol hsep (by omega) k3 hk2
  have hap : p < a := by
    by_contra hc
    have := heq p (by omega) k1
    rw [this] at hlo; exact lt_irrefl _ hlo
  refine ⟨?_, ?_, ?_⟩
  · by_contra hc
    have e1 := heq a (le_refl _) (by omega)
    have e2 := heq (a + p) (by omega) (by omega)
    have := hmul a (by omega) (by omega)
    rw [e1, e2] at this; exact lt_irrefl _ this
  · intro x h1 h2
    exact heq x (by omega) h2
  · rw [hs]
    exact hlt _ (by omega)

variable {p d : ℕ} {Wl : List K} {Q : List (List K)} {ub : K} {m : ℕ}

/-- normalised left piece: clamped with `p+1` zeros and `p+1` ones -/
theorem CutOk.leftClamped (h : CutOk p d Wl Q ub m) :
    ClampedWF p d (knotNormalize (leftKv Wl ub m)) (Q.take (m - p + 1)) ∧
    (∀ i, i ≤ p → fnOf (knotNormalize (leftKv Wl ub m)) i = 0) ∧
    (∀ i, m - p + 1 ≤ i → fnOf (knotNormalize (leftKv Wl ub m)) i = 1) := by
  have hlen := h.len; have hm := h.hm; have hpm := h.hpm; have hp := h.hp
  obtain ⟨hhead, hlast⟩ := h.leftRange
  have hrange : (leftKv Wl ub m).headD 0 < (leftKv Wl ub m).getLastD 0 := by rw [hhead, hlast]; exact h.lo
  have hQlen : (Q.take (m - p + 1)).length = m - p + 1 := by simp; omega
  have z : ∀ i, i ≤ p → fnOf (knotNormalize (leftKv Wl ub m)) i = 0 := by
    intro i hi
    rw [fnOf_knotNormalize' _ _ (leftKv_ne _ _ _), hhead, fnOf_leftKv_le Wl ub m i (by omega) (by omega),
        h.start i hi, h.c0, sub_self, zero_div]
  have o : ∀ i, m - p + 1 ≤ i → fnOf (knotNormalize (leftKv Wl ub m)) i = 1 := by
    intro i hi
    have : fnOf (leftKv Wl ub m) i = ub := by
      by_cases c : i ≤ m
      · rw [fnOf_leftKv_le Wl ub m i (by omega) c]; exact h.mult i (by omega) c
      · exact fnOf_leftKv_gt Wl ub m i (by omega) (by omega)
    rw [fnOf_knotNormalize' _ _ (leftKv_ne _ _ _), hhead, hlast, this]
    exact div_self (ne_of_gt (sub_pos.mpr h.lo))
  refine ⟨⟨h.leftWF.normalize hrange, hp, ?_, ?_⟩, z, o⟩
  · rw [z 0 (by omega), z p (le_refl _)]
  · rw [hQlen, o _ (by omega), o _ (le_refl _)]

/-- normalised right piece: clamped with `p+1` zeros and `p+1` ones -/
theorem CutOk.rightClamped (h : CutOk p d Wl Q ub m) :
    ClampedWF p d (knotNormalize (rightKv p Wl ub m)) (Q.drop (m - p)) ∧
    (∀ i, i ≤ p → fnOf (knotNormalize (rightKv p Wl ub m)) i = 0) ∧
    (∀ i, Q.length - (m - p) ≤ i → fnOf (knotNormalize (rightKv p Wl ub m)) i = 1) := by
  have hlen := h.len; have hm := h.hm; have hpm := h.hpm; have hp := h.hp
  obtain ⟨hhead, hlast⟩ := h.rightRange
  have hrange : (rightKv p Wl ub m).headD 0 < (rightKv p Wl ub m).getLastD 0 := by rw [hhead, hlast]; exact h.hi
  have hQlen : (Q.drop (m - p)).length = Q.length - (m - p) := by simp
  have z : ∀ i, i ≤ p → fnOf (knotNormalize (rightKv p Wl ub m)) i = 0 := by
    intro i hi
    rw [fnOf_knotNormalize' _ _ (rightKv_ne _ _ _ _), hhead, fnOf_rightKv_le p Wl ub m i hi, sub_self, zero_div]
  have o : ∀ i, Q.length - (m - p) ≤ i → fnOf (knotNormalize (rightKv p Wl ub m)) i = 1 := by
    intro i hi
    rw [fnOf_knotNormalize' _ _ (rightKv_ne _ _ _ _), hhead, hlast,
        fnOf_rightKv_gt p Wl ub m i (by omega) (by omega) (by omega), h.fin _ (by omega)]
    exact div_self (ne_of_gt (sub_pos.mpr h.hi))
  refine ⟨⟨h.rightWF.normalize hrange, hp, ?_, ?_⟩, z, o⟩
  · rw [z 0 (by omega), z p (le_refl _)]
  · rw [hQlen, o _ (by omega), o _ (le_refl _)]

/-- left piece at `t ∈ [0,1]` = uncut curve at `U_p + t (ub - U_p)` -/
theorem left_piece_curve_t (h : CutOk p d Wl Q ub m) (t : K) (ht0 : 0 ≤ t) (ht1 : t ≤ 1) (j : ℕ) :
    (curvePoint p (fnOf (knotNormalize (leftKv Wl ub m))) (Q.take (m - p + 1)) t).getD j 0
      = (curvePoint p (fnOf Wl) Q (fnOf Wl p + t * (ub - fnOf Wl p))).getD j 0 := by
  have hpos : 0 < ub - fnOf Wl p := sub_pos.mpr h.lo
  have h1 : fnOf Wl p ≤ fnOf Wl p + t * (ub - fnOf Wl p) := by nlinarith
  have h2 : fnOf Wl p + t * (ub - fnOf Wl p) ≤ ub := by nlinarith
  rw [← left_piece_curve_u h _ h1 h2 j]
  congr 2
  field_simp
  ring

/-- right piece at `t ∈ [0,1]` = uncut curve at `ub + t (U_n - ub)` -/
theorem right_piece_curve_t (h : CutOk p d Wl Q ub m) (t : K) (ht0 : 0 ≤ t) (ht1 : t ≤ 1) (j : ℕ) :
    (curvePoint p (fnOf (knotNormalize (rightKv p Wl ub m))) (Q.drop (m - p)) t).getD j 0
      = (curvePoint p (fnOf Wl) Q (ub + t * (fnOf Wl Q.length - ub))).getD j 0 := by
  have hpos : 0 < fnOf Wl Q.length - ub := sub_pos.mpr h.hi
  have h1 : ub ≤ ub + t * (fnOf Wl Q.length - ub) := by nlinarith
  have h2 : ub + t * (fnOf Wl Q.length - ub) ≤ fnOf Wl Q.length := by nlinarith
  rw [← right_piece_curve_u h _ h1 h2 j]
  congr 2
  field_simp
  ring

/-- the explicit pieces of `splitDir` coincide with the ORIGINAL curve (insertion step composed with
    the cut) -/
theorem split_pieces_explicit (p d : ℕ) (U : List K) (P : List (List K)) (ub tol : K)
    (h : ClampedWF p d U P) (hlo : fnOf U p < ub) (hhi : ub < fnOf U P.length)
    (hmx : MultExact p (fnOf U) (findSpanLinear p (fnOf U) P.length ub) (findMultiplicity ub U tol) ub) :
    (∀ t, 0 ≤ t → t ≤ 1 → ∀ j,
      (curvePoint p (fnOf (knotNormalize (leftKv (splitRefined p U P ub tol).1 ub
            (findSpanLinear p (fnOf U) P.length ub + (p - findMultiplicity ub U tol)))))
          ((splitRefined p U P ub tol).2.take
            (findSpanLinear p (fnOf U) P.length ub + (p - findMultiplicity ub U tol) - p + 1)) t).getD j 0
        = (curvePoint p (fnOf U) P (fnOf U p + t * (ub - fnOf U p))).getD j 0) ∧
    (∀ t, 0 ≤ t → t ≤ 1 → ∀ j,
      (curvePoint p (fnOf (knotNormalize (rightKv p (splitRefined p U P ub tol).1 ub
            (findSpanLinear p (fnOf U) P.length ub + (p - findMultiplicity ub U tol)))))
          ((splitRefined p U P ub tol).2.drop
            (findSpanLinear p (fnOf U) P.length ub + (p - findMultiplicity ub U tol) - p)) t).getD j 0
        = (curvePoint p (fnOf U) P (ub + t * (fnOf U P.length - ub))).getD j 0) := by
  have hcut := splitRefined_cut p d U P ub tol h.wf h.hp h.c0 h.c1 hlo hhi hmx
  obtain ⟨hW, hN, _, hsame⟩ := splitRefined_spec p d U P ub tol h.wf hlo hhi hmx
  obtain ⟨k1, k2, _, _⟩ := findSpanLinear_spec p (fnOf U) P.length ub h.wf.pn h.wf.mono (le_of_lt hlo)
  set k := findSpanLinear p (fnOf U) P.length ub with hk
  set s := findMultiplicity ub U tol with hs
  set st := splitRefined p U P ub tol with hst
  have hWp : fnOf st.1 p = fnOf U p := by rw [hW]; unfold Uh; rw [if_pos k1]
  have hWN : fnOf st.1 st.2.length = fnOf U P.length := by
    rw [hW, hN]; unfold Uh
    rw [if_neg (by omega), if_neg (by omega)]; congr 1; omega
  constructor
  · intro t ht0 ht1 j
    rw [left_piece_curve_t hcut t ht0 ht1 j, hWp]
    have hpos : 0 < ub - fnOf U p := sub_pos.mpr hlo
    apply hsame
    · nlinarith
    · have : ub ≤ fnOf U P.length := le_of_lt hhi
      nlinarith
  · intro t ht0 ht1 j
    rw [right_piece_curve_t hcut t ht0 ht1 j, hWN]
    have hpos : 0 < fnOf U P.length - ub := sub_pos.mpr hhi
    apply hsame
    · have : fnOf U p ≤ ub := le_of_lt hlo
      nlinarith
    · nlinarith

/-- **`split_curve` end to end** (multiplicity hypotheses in the `MultExact` form) -/
theorem split_curve_main (rat : Bool) (p d : ℕ) (U : List K) (P : List (List K)) (ub tol : K)
    (h : ClampedWF p d U P) (hlo : fnOf U p < ub) (hhi : ub < fnOf U P.length)
    (hmx : MultExact p (fnOf U) (findSpanLinear p (fnOf U) P.length ub) (findMultiplicity ub U tol) ub) :
    ∃ UA PA UB PB,
      splitDir (curveShape rat p U P) 0 ub tol = some (curveShape rat p UA PA, curveShape rat p UB PB) ∧
      ClampedWF p d UA PA ∧ ClampedWF p d UB PB ∧
      (∀ i, i ≤ p → fnOf UA i = 0) ∧ (∀ i, PA.length ≤ i → fnOf UA i = 1) ∧
      (∀ i, i ≤ p → fnOf UB i = 0) ∧ (∀ i, PB.length ≤ i → fnOf UB i = 1) ∧
      PA.length + PB.length = P.length + (p - findMultiplicity ub U tol) + 1 ∧
      (∀ t, 0 ≤ t → t ≤ 1 → ∀ j, (curvePoint p (fnOf UA) PA t).getD j 0
          = (curvePoint p (fnOf U) P (fnOf U p + t * (ub - fnOf U p))).getD j 0) ∧
      (∀ t, 0 ≤ t → t ≤ 1 → ∀ j, (curvePoint p (fnOf UB) PB t).getD j 0
          = (curvePoint p (fnOf U) P (ub + t * (fnOf U P.length - ub))).getD j 0) := by
  have hcut := splitRefined_cut p d U P ub tol h.wf h.hp h.c0 h.c1 hlo hhi hmx
  obtain ⟨_, hN, _, _⟩ := splitRefined_spec p d U P ub tol h.wf hlo hhi hmx
  obtain ⟨k1, k2, _, _⟩ := findSpanLinear_spec p (fnOf U) P.length ub h.wf.pn h.wf.mono (le_of_lt hlo)
  have heq := splitDir_curve_eq rat p d U P ub tol h.wf h.hp h.c0 h.c1 hlo hhi hmx
  obtain ⟨cA, cB⟩ := split_pieces_explicit p d U P ub tol h hlo hhi hmx
  set k := findSpanLinear p (fnOf U) P.length ub with hk
  set s := findMultiplicity ub U tol with hs
  set st := splitRefined p U P ub tol with hst
  have hm := hcut.hm
  have hpm := hcut.hpm
  obtain ⟨lA, zA, oA⟩ := hcut.leftClamped
  obtain ⟨lB, zB, oB⟩ := hcut.rightClamped
  have hlenA : (st.2.take (k + (p - s) - p + 1)).length = k + (p - s) - p + 1 := by simp; omega
  have hlenB : (st.2.drop (k + (p - s) - p)).length = st.2.length - (k + (p - s) - p) := by simp
  refine ⟨_, _, _, _, heq, lA, lB, zA, ?_, zB, ?_, ?_, cA, cB⟩
  · intro i hi; rw [hlenA] at hi; exact oA i hi
  · intro i hi; rw [hlenB] at hi; exact oB i hi
  · rw [hlenA, hlenB, hN]; omega

/-- **`split_curve` end to end**, hypotheses on the input only: a well-formed clamped curve whose
    inner knots are repeated at most `p` times, an interior split parameter, and every knot equal to
    the parameter or further than `tol` away from it -/
theorem split_curve_sep (rat : Bool) (p d : ℕ) (U : List K) (P : List (List K)) (ub tol : K)
    (h : ClampedWF p d U P) (hlo : fnOf U p < ub) (hhi : ub < fnOf U P.length)
    (htol : 0 ≤ tol) (hsep : ∀ x ∈ U, |ub - x| ≤ tol → x = ub)
    (hmul : ∀ i, 1 ≤ i → i < P.length → fnOf U i < fnOf U (i + p)) :
    ∃ UA PA UB PB,
      splitDir (curveShape rat p U P) 0 ub tol = some (curveShape rat p UA PA, curveShape rat p UB PB) ∧
      ClampedWF p d UA PA ∧ ClampedWF p d UB PB ∧
      (∀ i, i ≤ p → fnOf UA i = 0) ∧ (∀ i, PA.length ≤ i → fnOf UA i = 1) ∧
      (∀ i, i ≤ p → fnOf UB i = 0) ∧ (∀ i, PB.length ≤ i → fnOf UB i = 1) ∧
      PA.length + PB.length = P.length + (p - findMultiplicity ub U tol) + 1 ∧
      (∀ t, 0 ≤ t → t ≤ 1 → ∀ j, (curvePoint p (fnOf UA) PA t).getD j 0
          = (curvePoint p (fnOf U) P (fnOf U p + t * (ub - fnOf U p))).getD j 0) ∧
      (∀ t, 0 ≤ t → t ≤ 1 → ∀ j, (curvePoint p (fnOf UB) PB t).getD j 0
          = (curvePoint p (fnOf U) P (ub + t * (fnOf U P.length - ub))).getD j 0) :=
  split_curve_main rat p d U P ub tol h hlo hhi
    (multExact_of_sep p d U P ub tol h.wf h.hp hlo hhi htol hsep hmul)

end Geomdl
