import NurbsVerif.Lemmas.DecompE
import NurbsVerif.Lemmas.DecompUnclampedStep

/-! `operations.decompose_curve` for knot vectors that need NOT be clamped, end to end through the model
    with exceptions `decomposeDirE`: the induction over the pieces. -/
set_option linter.unusedSectionVars false
namespace Geomdl
open Blossom
variable {K : Type} [Field K] [LinearOrder K] [IsStrictOrderedRing K]

/-- `q = (knot vector, control points)` is a well-formed single-span segment (`p+1` control points, domain
    `[V_p, V_{p+1}]`, NOT necessarily clamped) that coincides with `F` on `[a, b]` under the affine map of
    its own domain onto `[a, b]` -/
def SegPiece (p d : ℕ) (F : K → ℕ → K) (a b : K) (q : List K × List (List K)) : Prop :=
  CurveWF p d q.1 q.2 ∧ q.2.length = p + 1 ∧
  ∀ t, 0 ≤ t → t ≤ 1 → ∀ j,
    (curvePoint p (fnOf q.1) q.2 (fnOf q.1 p + t * (fnOf q.1 (p + 1) - fnOf q.1 p))).getD j 0
      = F (a + t * (b - a)) j

/-- a Bézier piece is a single-span segment -/
theorem BezPiece.toSeg {p d : ℕ} {F : K → ℕ → K} {a b : K} {q : List K × List (List K)}
    (h : BezPiece p d F a b q) : SegPiece p d F a b q := ⟨h.1.wf, h.2.1, h.2.2⟩

/-- a single-span segment that is clamped at both ends is a Bézier piece -/
theorem SegPiece.toBez {p d : ℕ} {F : K → ℕ → K} {a b : K} {q : List K × List (List K)}
    (h : SegPiece p d F a b q) (hp : 1 ≤ p) (c0 : fnOf q.1 0 = fnOf q.1 p)
    (c1 : fnOf q.1 (q.2.length + p) = fnOf q.1 q.2.length) : BezPiece p d F a b q :=
  ⟨⟨h.1, hp, c0, c1⟩, h.2.1, h.2.2⟩

/-- a piece of the remainder is a piece of the whole: the affine maps compose (`e` is the end of the
    remainder's domain in the remainder's own parameter, `L` the last knot of the input) -/
theorem segPiece_lift (p d : ℕ) (F FB : K → ℕ → K) (ub L e : K)
    (hcB : ∀ x, 0 ≤ x → x ≤ e → ∀ j, FB x j = F (ub + x * (L - ub)) j)
    (a b : K) (ha : 0 ≤ a ∧ a ≤ e) (hb : 0 ≤ b ∧ b ≤ e) (q : List K × List (List K))
    (hq : SegPiece p d FB a b q) : SegPiece p d F (ub + a * (L - ub)) (ub + b * (L - ub)) q := by
  obtain ⟨h1, h2, h3⟩ := hq
  refine ⟨h1, h2, ?_⟩
  intro t ht0 ht1 j
  rw [h3 t ht0 ht1 j]
  have e1 : a + t * (b - a) = (1 - t) * a + t * b := by ring
  have h0 : 0 ≤ a + t * (b - a) := by
    rw [e1]; exact add_nonneg (mul_nonneg (by linarith) ha.1) (mul_nonneg ht0 hb.1)
  have h1' : a + t * (b - a) ≤ e := by
    rw [e1]
    have := mul_le_mul_of_nonneg_left ha.2 (show 0 ≤ 1 - t by linarith)
    have := mul_le_mul_of_nonneg_left hb.2 ht0
    linarith
  rw [hcB _ h0 h1' j]
  congr 1
  ring

/-- **the remainder of a decomposition step as a function of ITS OWN parameter**: at `x` of its domain
    `[0, (U_n - ub)/(U_{n+p} - ub)]` it is the input at `ub + x (U_{n+p} - ub)` (`ub = U_{p+1}`) -/
theorem remainder_curveU (p d : ℕ) (U : List K) (P : List (List K)) (tol : K)
    (h : DecompWFU p d U P tol) (hn : p + 1 < P.length) (x : K) (hx0 : 0 ≤ x)
    (hx1 : x ≤ (fnOf U P.length - fnOf U (p + 1)) / (fnOf U (P.length + p) - fnOf U (p + 1))) (j : ℕ) :
    (curvePoint p
        (fnOf (knotNormalize (rightKv p (splitRefined p U P (fnOf U (p + 1)) tol).1 (fnOf U (p + 1))
          (findSpanLinear p (fnOf U) P.length (fnOf U (p + 1)) + (p - findMultiplicity (fnOf U (p + 1)) U tol)))))
        ((splitRefined p U P (fnOf U (p + 1)) tol).2.drop
          (findSpanLinear p (fnOf U) P.length (fnOf U (p + 1)) + (p - findMultiplicity (fnOf U (p + 1)) U tol) - p))
        x).getD j 0
      = (curvePoint p (fnOf U) P (fnOf U (p + 1) + x * (fnOf U (P.length + p) - fnOf U (p + 1)))).getD j 0 := by
  obtain ⟨hlo, hhi, hmx, hks, hs1⟩ := decomp_factsU p d U P tol h hn
  have hcut := splitRefined_cutU p d U P (fnOf U (p + 1)) tol h.wf h.hp hlo hhi hmx
  obtain ⟨_, _, _, hsame⟩ := splitRefined_spec p d U P (fnOf U (p + 1)) tol h.wf hlo hhi hmx
  obtain ⟨_, _, hWN, hWL⟩ := splitRefined_ends p d U P (fnOf U (p + 1)) tol h.wf hlo hhi hmx
  have hhiL : fnOf U (p + 1) < fnOf U (P.length + p) := lt_of_lt_of_le hhi (h.wf.mono (by omega))
  have hpos : 0 < fnOf U (P.length + p) - fnOf U (p + 1) := sub_pos.mpr hhiL
  set ub := fnOf U (p + 1) with hub
  set L := fnOf U (P.length + p) with hL
  have hu0 : ub ≤ ub + x * (L - ub) := by nlinarith
  have hu1 : ub + x * (L - ub) ≤ fnOf U P.length := by
    rw [le_div_iff₀ hpos] at hx1
    linarith
  have := right_piece_curve_uU hcut (ub + x * (L - ub)) hu0 (by rw [hWN]; exact hu1) j
  rw [hWL] at this
  have e : (ub + x * (L - ub) - ub) / (L - ub) = x := by
    field_simp
    ring
  rw [e] at this
  rw [this]
  exact hsame _ (le_trans (le_of_lt hlo) hu0) hu1 j

/-- what is proved of the list of pieces `decomposeDirE` returns for the curve `(U, P)` -/
def DecompResultU (rat : Bool) (p d : ℕ) (tol : K) (fuel : ℕ) (U : List K) (P : List (List K)) : Prop :=
  ∃ pieces : List (List K × List (List K)),
    decomposeDirE 0 tol fuel (curveShape rat p U P) = some (pieces.map (fun q => curveShape rat p q.1 q.2)) ∧
    pieces.length = (spanStarts p (fnOf U) P.length).length ∧
    (∀ i, i < pieces.length →
      SegPiece p d (curveFn p U P) ((breaks p (fnOf U) P.length).getD i 0)
        ((breaks p (fnOf U) P.length).getD (i + 1) 0) (pieces.getD i ([], []))) ∧
    (∀ i, i < pieces.length → (1 ≤ i ∨ fnOf U 0 = fnOf U p) →
      fnOf (pieces.getD i ([], [])).1 0 = fnOf (pieces.getD i ([], [])).1 p) ∧
    (∀ i, i < pieces.length → (i + 1 < pieces.length ∨ fnOf U (P.length + p) = fnOf U P.length) →
      fnOf (pieces.getD i ([], [])).1 ((pieces.getD i ([], [])).2.length + p)
        = fnOf (pieces.getD i ([], [])).1 (pieces.getD i ([], [])).2.length) ∧
    ((p + 1 < P.length ∨ (fnOf U 0 = 0 ∧ fnOf U (P.length + p) = 1)) → ∀ i, i < pieces.length →
      fnOf (pieces.getD i ([], [])).1 0 = 0 ∧
      fnOf (pieces.getD i ([], [])).1 ((pieces.getD i ([], [])).2.length + p) = 1) ∧
    (p + 1 < P.length →
      fnOf (pieces.getD 0 ([], [])).1 p = (fnOf U p - fnOf U 0) / (fnOf U (p + 1) - fnOf U 0)) ∧
    (p + 1 < P.length →
      fnOf (pieces.getD (pieces.length - 1) ([], [])).1 (p + 1)
        = (fnOf U P.length - (breaks p (fnOf U) P.length).getD (pieces.length - 1) 0)
          / (fnOf U (P.length + p) - (breaks p (fnOf U) P.length).getD (pieces.length - 1) 0))

/-- the decomposition of a curve that already is a single-span segment -/
theorem decompose_segment_caseU (rat : Bool) (p d : ℕ) (tol : K) (fuel : ℕ) (U : List K) (P : List (List K))
    (h : DecompWFU p d U P tol) (hn : P.length = p + 1) : DecompResultU rat p d tol fuel U P := by
  have hb : breaks p (fnOf U) P.length = [fnOf U p, fnOf U (p + 1)] := by
    unfold breaks
    rw [hn, spanStarts_bezier p (fnOf U) h.first]; rfl
  refine ⟨[(U, P)], ?_, ?_, ?_, ?_, ?_, ?_, ?_, ?_⟩
  · rw [decomposeDirE_bezier rat p U P tol fuel h.wf.len hn]; rfl
  · rw [hn, spanStarts_bezier p (fnOf U) h.first]; rfl
  · intro i hi
    simp only [List.length_singleton] at hi
    have hi0 : i = 0 := by omega
    subst hi0
    rw [hb]
    refine ⟨h.wf, hn, ?_⟩
    intro t _ _ j
    rfl
  · intro i hi hc
    simp only [List.length_singleton] at hi
    have hi0 : i = 0 := by omega
    subst hi0
    rcases hc with hc | hc
    · omega
    · exact hc
  · intro i hi hc
    simp only [List.length_singleton] at hi
    have hi0 : i = 0 := by omega
    subst hi0
    rcases hc with hc | hc
    · simp only [List.length_singleton] at hc; omega
    · exact hc
  · intro hc i hi
    simp only [List.length_singleton] at hi
    have hi0 : i = 0 := by omega
    subst hi0
    rcases hc with hc | hc
    · omega
    · exact hc
  · intro hc; omega
  · intro hc; omega

end Geomdl
