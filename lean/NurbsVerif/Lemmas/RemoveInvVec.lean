import NurbsVerif.Model.Knots2
import NurbsVerif.Lemmas.InsertModel

/-! Helper lemmas for "knot removal inverts knot insertion" (C06), part 1: pointwise vector algebra
    (the two solve-back formulas of A5.8 invert the affine combination of A5.1), the squared
    distance of a point to itself, and index-by-index descriptions of the list loops of the model
    (`remCopy`, the final shift). -/
namespace Geomdl
namespace RemInv
variable {K : Type} [Field K] [LinearOrder K] [IsStrictOrderedRing K]

/-- left sweep of A5.8: solving `Q = a•Y + (1-a)•X` for `Y` -/
theorem invL_comb (a : K) (ha : a ≠ 0) : ∀ (X Y : List K), X.length = Y.length →
    List.zipWith (fun cpt x => (cpt - (1 - a) * x) / a)
      (List.zipWith (fun e1 e2 => a * e2 + (1 - a) * e1) X Y) X = Y := by
  intro X
  induction X with
  | nil => intro Y h; cases Y with
    | nil => rfl
    | cons y ys => simp at h
  | cons x xs ih =>
    intro Y h
    cases Y with
    | nil => simp at h
    | cons y ys =>
      simp only [List.length_cons, Nat.add_right_cancel_iff] at h
      simp only [List.zipWith_cons_cons, ih ys h, List.cons.injEq, and_true]
      field_simp
      ring

/-- right sweep of A5.8: solving `Q = a•Y + (1-a)•X` for `X` -/
theorem invR_comb (a : K) (ha : 1 - a ≠ 0) : ∀ (X Y : List K), X.length = Y.length →
    List.zipWith (fun cpt x => (cpt - a * x) / (1 - a))
      (List.zipWith (fun e1 e2 => a * e2 + (1 - a) * e1) X Y) Y = X := by
  intro X
  induction X with
  | nil => intro Y h; cases Y with
    | nil => rfl
    | cons y ys => simp at h
  | cons x xs ih =>
    intro Y h
    cases Y with
    | nil => simp at h
    | cons y ys =>
      simp only [List.length_cons, Nat.add_right_cancel_iff] at h
      simp only [List.zipWith_cons_cons, ih ys h, List.cons.injEq, and_true]
      field_simp
      ring

/-- the point `ptn` of the removability test is the affine combination with swapped arguments -/
theorem comb_swap (a : K) : ∀ (X Y : List K),
    List.zipWith (fun t1 t2 => a * t1 + (1 - a) * t2) Y X
      = List.zipWith (fun e1 e2 => a * e2 + (1 - a) * e1) X Y := by
  intro X
  induction X with
  | nil => intro Y; cases Y <;> rfl
  | cons x xs ih =>
    intro Y
    cases Y with
    | nil => rfl
    | cons y ys => simp only [List.zipWith_cons_cons, ih ys]

theorem comb_length (a : K) (X Y : List K) (d : ℕ) (hX : X.length = d) (hY : Y.length = d) :
    (List.zipWith (fun e1 e2 => a * e2 + (1 - a) * e1) X Y).length = d := by
  simp [hX, hY]

theorem foldl_add_zeros (n : ℕ) : (List.replicate n (0 : K)).foldl (· + ·) 0 = 0 := by
  induction n with
  | zero => rfl
  | succ n ih => simp only [List.replicate_succ, List.foldl_cons, add_zero]; exact ih

/-- squared distance of a point to itself -/
theorem sqDist_self (X : List K) : sqDist X X = 0 := by
  unfold sqDist
  have h : List.zipWith (fun x y => (x - y) * (x - y)) X X = List.replicate X.length (0 : K) := by
    induction X with
    | nil => rfl
    | cons x xs ih => simp only [List.zipWith_cons_cons, ih, sub_self, mul_zero, List.length_cons, List.replicate_succ]
  rw [h]
  exact foldl_add_zeros _

/-! ### list indexing -/

theorem ptsGet_set (l : List (List K)) (i y : ℕ) (a : List K) :
    ptsGet (l.set i a) y = if i = y ∧ i < l.length then a else ptsGet l y := by
  unfold ptsGet
  simp only [List.getD_eq_getElem?_getD, List.getElem?_set]
  by_cases h : i = y
  · subst h
    by_cases h2 : i < l.length
    · simp [h2]
    · simp [h2, List.getElem?_eq_none (not_lt.mp h2)]
  · simp [h]

theorem ptsGet_eq_getElem (l : List (List K)) (i : ℕ) (h : i < l.length) : ptsGet l i = l[i] := by
  unfold ptsGet
  rw [List.getD_eq_getElem?_getD, List.getElem?_eq_getElem h]; rfl

theorem ptsGet_map_range (f : ℕ → List K) (n i : ℕ) (h : i < n) :
    ptsGet ((List.range n).map f) i = f i := by
  unfold ptsGet
  rw [List.getD_eq_getElem?_getD, List.getElem?_map, List.getElem?_range h]; rfl

theorem ptsGet_take (l : List (List K)) (n i : ℕ) (h : i < n) : ptsGet (l.take n) i = ptsGet l i := by
  unfold ptsGet
  rw [List.getD_eq_getElem?_getD, List.getD_eq_getElem?_getD, List.getElem?_take_of_lt h]

/-- two nets of the same length with the same points are equal -/
theorem net_ext (A B : List (List K)) (hl : A.length = B.length)
    (h : ∀ i, i < A.length → ptsGet A i = ptsGet B i) : A = B := by
  apply List.ext_getElem hl
  intro i h1 h2
  have := h i h1
  rw [ptsGet_eq_getElem A i h1, ptsGet_eq_getElem B i h2] at this
  exact this

/-! ### the copy-back loop -/

theorem remCopy_length (temp : List (List K)) (first t : ℕ) : ∀ (fuel i j : ℕ) (cp : List (List K)),
    (remCopy temp first t fuel i j cp).length = cp.length := by
  intro fuel
  induction fuel with
  | zero => intros; rfl
  | succ fuel ih =>
    intro i j cp
    unfold remCopy
    split
    · rw [ih]; simp
    · rfl

/-- which slots the copy-back loop overwrites, and with what -/
theorem remCopy_get (temp : List (List K)) (first t : ℕ) : ∀ (fuel i j : ℕ) (cp : List (List K)) (y : ℕ),
    j ≤ i + t + 2 * fuel → j < cp.length →
    ptsGet (remCopy temp first t fuel i j cp) y
      = if i ≤ y ∧ y ≤ j ∧ (2 * y + t < i + j ∨ i + j + t < 2 * y) then ptsGet temp (y - first + 1)
        else ptsGet cp y := by
  intro fuel
  induction fuel with
  | zero =>
    intro i j cp y h1 h2
    unfold remCopy
    rw [if_neg (by omega)]
  | succ fuel ih =>
    intro i j cp y h1 h2
    unfold remCopy
    by_cases hc : i + t < j
    · rw [if_pos hc]
      simp only []
      rw [ih (i+1) (j-1) _ y (by omega) (by simp; omega)]
      simp only [ptsGet_set, List.length_set]
      split_ifs <;> first | rfl | (exfalso; omega) | (congr 2; omega)
    · rw [if_neg hc, if_neg (by omega)]

/-! ### the final shift -/

theorem shift_length (a b : ℕ) : ∀ (n : ℕ) (c : List (List K)),
    ((List.range n).foldl (fun (c : List (List K)) k => c.set (b + k) (ptsGet c (a + k))) c).length = c.length := by
  intro n
  induction n with
  | zero => intro c; rfl
  | succ n ih =>
    intro c
    rw [List.range_succ, List.foldl_append]
    simp only [List.foldl_cons, List.foldl_nil, List.length_set]
    exact ih c

/-- the shift loop `c[b+k] = c[a+k]`, `k = 0..n-1`, for `b ≤ a` (reads are ahead of writes) -/
theorem shift_get (a b : ℕ) (hab : b ≤ a) : ∀ (n : ℕ) (c : List (List K)) (x : ℕ), b + n ≤ c.length →
    ptsGet ((List.range n).foldl (fun (c : List (List K)) k => c.set (b + k) (ptsGet c (a + k))) c) x
      = if b ≤ x ∧ x < b + n then ptsGet c (x + (a - b)) else ptsGet c x := by
  intro n
  induction n with
  | zero => intro c x _; simp
  | succ n ih =>
    intro c x hn
    rw [List.range_succ, List.foldl_append]
    simp only [List.foldl_cons, List.foldl_nil]
    rw [ptsGet_set, shift_length]
    by_cases hx : b + n = x
    · subst hx
      rw [if_pos ⟨rfl, by omega⟩, if_pos (by omega), ih c (a + n) (by omega), if_neg (by omega)]
      congr 1; omega
    · rw [if_neg (by omega), ih c x (by omega)]
      by_cases hx2 : b ≤ x ∧ x < b + n
      · rw [if_pos hx2, if_pos (by omega)]
      · rw [if_neg hx2, if_neg (by omega)]

end RemInv
end Geomdl
