import NurbsVerif.Lemmas.UniqueVolObj
import NurbsVerif.Lemmas.UniqueVolRemove
import NurbsVerif.Lemmas.InsertObjExamples

/-! Concrete instances (non-vacuity) of the surface / volume forms of "whenever removable at all":
    `exSurfRefQ` – the example surface over the v knots `0,0,0,¼,¼,½,1,1,1` (2 × 6 net, given explicitly), from which `¼`
    is removable twice (witness: `exSurfQ`); `exVolRefQ` – the example volume over the w knots `0,0,0,½,½,1,1,1`
    (2 × 2 × 5 net), from which one copy of `½` is removable (witness: `exVolQ`). -/
namespace Geomdl
open Blossom

def exSurfRefQ : Shape ℚ where
  rat := false
  degs := [1, 2]
  kvs := [[0,0,1,1], [0,0,0,1/4,1/4,1/2,1,1,1]]
  sizes := [2, 6]
  net := [[0,0,0],[0,1/2,1/2],[0,7/8,5/8],[0,5/4,3/4],[0,2,0],[0,3,1],
          [1,0,0],[1,1/2,1],[1,7/8,5/4],[1,5/4,3/2],[1,2,0],[1,3,1]]

def exVolRefQ : Shape ℚ where
  rat := false
  degs := [1, 1, 2]
  kvs := [[0,0,1,1], [0,0,1,1], [0,0,0,1/2,1/2,1,1,1]]
  sizes := [2, 2, 5]
  net := [[0,0,0],[0,1,1],[1,0,0],[1,1,2],
          [0,0,1],[0,1,3],[1,0,2],[1,2,2],
          [0,1/2,3/2],[0,1,7/2],[1,0,5/2],[1,5/2,5/2],
          [0,1,2],[0,1,4],[1,0,3],[1,3,3],
          [0,0,5],[0,2,5],[2,0,4],[1,1,6]]

theorem exSurfRefQ_wf : SurfWF 3 exSurfRefQ where
  degs := rfl
  kvs := rfl
  sizes := rfl
  netlen := rfl
  net := by
    intro pt hpt
    simp [exSurfRefQ] at hpt
    rcases hpt with h | h | h | h | h | h | h | h | h | h | h | h <;> simp [h]
  dir0 := ⟨mono_of_pairwise _ (by decide +kernel), rfl, by decide, by decide +kernel⟩
  dir1 := ⟨mono_of_pairwise _ (by decide +kernel), rfl, by decide, by decide +kernel⟩

theorem exVolRefQ_wf : VolWF 3 exVolRefQ where
  degs := rfl
  kvs := rfl
  sizes := rfl
  netlen := rfl
  net := by
    intro pt hpt
    simp [exVolRefQ] at hpt
    rcases hpt with h | h | h | h | h | h | h | h | h | h | h | h | h | h | h | h | h | h | h | h <;> simp [h]
  dir0 := ⟨mono_of_pairwise _ (by decide +kernel), rfl, by decide, by decide +kernel⟩
  dir1 := ⟨mono_of_pairwise _ (by decide +kernel), rfl, by decide, by decide +kernel⟩
  dir2 := ⟨mono_of_pairwise _ (by decide +kernel), rfl, by decide, by decide +kernel⟩

theorem exSurfQ_round : RoundOk exSurfQ 1 (1/4) 2 (1/10000000) :=
  roundOk_of_sep exSurfQ 1 (1/4) 2 _ exSurfQ_wf.dir1 (by norm_num) (by decide +kernel) (by decide +kernel)
    (by decide +kernel) (by decide +kernel) (by decide) (by decide +kernel)

theorem exVolQ_round : RoundOk exVolQ 2 (1/2) 1 (1/10000000) :=
  roundOk_of_sep exVolQ 2 (1/2) 1 _ exVolQ_wf.dir2 (by norm_num) (by decide +kernel) (by decide +kernel)
    (by decide +kernel) (by decide +kernel) (by decide) (by decide +kernel)

/-- the explicit data are what the model of `insert_knot` computes (this is how the equality of the evaluated
    points – hypothesis `same` – is discharged: C04) -/
theorem exSurfRefQ_eq : exSurfRefQ = insDirOf exSurfQ 1 (1/4) 2 (1/10000000) :=
  Shape.ext' rfl rfl (by decide +kernel) (by decide +kernel) (by decide +kernel)

theorem exVolRefQ_eq : exVolRefQ = insDirOf exVolQ 2 (1/2) 1 (1/10000000) :=
  Shape.ext' rfl rfl (by decide +kernel) (by decide +kernel) (by decide +kernel)

/-- **all hypotheses of the object-level surface theorem hold** on the explicit 2 × 6 surface -/
theorem exSurfRefQ_removable : SurfRemovableObj 3 exSurfRefQ exSurfQ 1 (1/4) 2 (1/10000000) where
  wfS := exSurfRefQ_wf
  wfT := exSurfQ_wf
  dir2 := by decide
  round := exSurfQ_round
  rat := rfl
  degs := rfl
  kvs := by decide +kernel
  sizes := by decide +kernel
  active0 := by decide +kernel
  active1 := by decide +kernel
  same := by
    have hs := (insDirOf_surface 3 exSurfQ exSurfQ_wf 1 (by decide) (1/4) 2 (1/10000000) (by decide) exSurfQ_round.req).1
    rw [← exSurfRefQ_eq] at hs
    intro u v a b c e j
    exact hs.eval u v (by rw [← hs.lo0]; exact a) (by rw [← hs.hi0]; exact le_of_lt b) (by rw [← hs.lo1]; exact c)
      (by rw [← hs.hi1]; exact le_of_lt e) j |>.symm

/-- **… and of the object-level volume theorem** on the explicit 2 × 2 × 5 volume -/
theorem exVolRefQ_removable : VolRemovableObj 3 exVolRefQ exVolQ 2 (1/2) 1 (1/10000000) where
  wfS := exVolRefQ_wf
  wfT := exVolQ_wf
  dir3 := by decide
  round := exVolQ_round
  rat := rfl
  degs := rfl
  kvs := by decide +kernel
  sizes := by decide +kernel
  active0 := by decide +kernel
  active1 := by decide +kernel
  active2 := by decide +kernel
  same := by
    have hs := (insDirOf_volume 3 exVolQ exVolQ_wf 2 (by decide) (1/2) 1 (1/10000000) (by decide) exVolQ_round.req).1
    rw [← exVolRefQ_eq] at hs
    intro u v w a b c e f g j
    exact hs.eval u v w (by rw [← hs.lo0]; exact a) (by rw [← hs.hi0]; exact le_of_lt b) (by rw [← hs.lo1]; exact c)
      (by rw [← hs.hi1]; exact le_of_lt e) (by rw [← hs.lo2]; exact f) (by rw [← hs.hi2]; exact le_of_lt g) j |>.symm

/-- **net level, surfaces**: `¼` (positions 3, 4 of the v knots: `k = 2`, `s = 0`, `r = 2`) is removable from the
    surface as a surface -/
theorem exSurf_removableV : SurfRemovableV 1 2 3 ([0,0,1,1] : List ℚ) [0,0,0,1/4,1/4,1/2,1,1,1] exSurfRefQ.net exSurfQ.net
    (1/4) 2 0 2 2 6 where
  kvu := exSurfRefQ_wf.dir0
  kvv := exSurfRefQ_wf.dir1
  netlen := rfl
  net := exSurfRefQ_wf.net
  activeU := by decide +kernel
  activeV := by decide +kernel
  run := by
    intro x h1 h2
    have : x = 3 ∨ x = 4 := by omega
    rcases this with rfl | rfl <;> decide +kernel
  below := by decide +kernel
  above := by decide +kernel
  r1 := by decide
  rs := by decide
  pk := by decide
  kn := by decide
  redkv := by
    rw [show knotRemovalKv ([0,0,0,1/4,1/4,1/2,1,1,1] : List ℚ) (2 + 2) 2 = [0,0,0,1/2,1,1,1] by decide +kernel]
    exact exSurfQ_wf.dir1
  rednetlen := rfl
  rednet := exSurfQ_wf.net
  same := by
    rw [show knotRemovalKv ([0,0,0,1/4,1/4,1/2,1,1,1] : List ℚ) (2 + 2) 2 = [0,0,0,1/2,1,1,1] by decide +kernel]
    intro u v a b c e j
    exact exSurfRefQ_removable.same u v a b c e j

/-- the `KnotRun` part of it (positions of `¼` in the v knots of `exSurfRefQ`) -/
theorem exSurf_removableV.knotRun : KnotRun (exSurfRefQ.deg 1) (exSurfRefQ.kv 1) (exSurfRefQ.size 1) (1/4) 2 0 2 :=
  ⟨exSurf_removableV.kvv, exSurf_removableV.activeV, exSurf_removableV.run, exSurf_removableV.below,
    exSurf_removableV.above, exSurf_removableV.r1, exSurf_removableV.rs, exSurf_removableV.pk, exSurf_removableV.kn,
    exSurf_removableV.redkv⟩

/-- **net level, volumes**: one copy of `½` (positions 3, 4 of the w knots: `k = 3`, `s = 1`, `r = 1`) is removable
    from the volume as a volume -/
theorem exVol_removableW : VolRemovableW 1 1 2 3 ([0,0,1,1] : List ℚ) [0,0,1,1] [0,0,0,1/2,1/2,1,1,1] exVolRefQ.net exVolQ.net
    (1/2) 1 1 3 2 2 5 where
  knot := {
    kv := exVolRefQ_wf.dir2
    active := by decide +kernel
    run := by
      intro x h1 h2
      have : x = 3 ∨ x = 4 := by omega
      rcases this with rfl | rfl <;> decide +kernel
    below := by decide +kernel
    above := by decide +kernel
    r1 := by decide
    rs := by decide
    pk := by decide
    kn := by decide
    redkv := by
      rw [show knotRemovalKv ([0,0,0,1/2,1/2,1,1,1] : List ℚ) (3 + 1) 1 = [0,0,0,1/2,1,1,1] by decide +kernel]
      exact exVolQ_wf.dir2 }
  kvu := exVolRefQ_wf.dir0
  kvv := exVolRefQ_wf.dir1
  activeU := by decide +kernel
  activeV := by decide +kernel
  netlen := rfl
  net := exVolRefQ_wf.net
  rednetlen := rfl
  rednet := exVolQ_wf.net
  same := by
    rw [show knotRemovalKv ([0,0,0,1/2,1/2,1,1,1] : List ℚ) (3 + 1) 1 = [0,0,0,1/2,1,1,1] by decide +kernel]
    intro u v w a b c e f g j
    exact exVolRefQ_removable.same u v w a b c e f g j

end Geomdl
