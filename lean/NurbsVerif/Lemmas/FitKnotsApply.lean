import NurbsVerif.Lemmas.FitKnotsValid
import NurbsVerif.Lemmas.FitDiag
import NurbsVerif.Lemmas.FitASurfLsqEval
import NurbsVerif.Lemmas.FitGuards
import NurbsVerif.Lemmas.FitApproxDiag

/-! The knot vectors RETURNED by `interpolate_curve / interpolate_surface / approximate_curve / approximate_surface`
    are valid clamped knot vectors (`ClampedKnots`) for data whose consecutive points are distinct. -/
namespace Geomdl
open Finset Lin
variable {K : Type} [Field K] [LinearOrder K] [IsStrictOrderedRing K]

/-- the parameters of data with positive chord lengths: one more than chords, from 0 to 1, strictly increasing -/
theorem computeParams_ok (cds : List K) (hne : 1 ≤ cds.length) (hpos : ∀ x ∈ cds, 0 < x) :
    (computeParams cds).length = cds.length + 1 ∧ (computeParams cds).getD 0 0 = 0 ∧
    (computeParams cds).getD (cds.length + 1 - 1) 0 = 1 ∧
    ∀ i j, i < j → j < cds.length + 1 → (computeParams cds).getD i 0 < (computeParams cds).getD j 0 := by
  have hne' : cds ≠ [] := by intro e; rw [e] at hne; simp at hne
  have hs : 0 < sumL cds := by rw [sumL_eq_sum]; exact List.sum_pos _ hpos hne'
  refine ⟨computeParams_length cds, computeParams_first cds, ?_,
    fun i j hij hj => computeParams_strictMono cds hpos i j hij (by omega)⟩
  rw [Nat.add_sub_cancel]
  exact computeParams_last cds (ne_of_gt hs)

/-- the gap between the last two parameters is the share of the last chord in the total chord length -/
theorem computeParams_gap_last (cds : List K) (hne : cds ≠ []) (hs : sumL cds ≠ 0) :
    1 - (computeParams cds).getD (cds.length - 1) 0 = cds.getLastD 0 / sumL cds := by
  rw [computeParams_getD cds _ (by omega), sumL_eq_sum, sumL_eq_sum]
  rw [sumL_eq_sum] at hs
  have hsplit : cds.sum = (cds.take (cds.length - 1)).sum + cds.getLastD 0 := by
    conv_lhs => rw [← List.dropLast_append_getLast hne]
    rw [List.sum_append, List.dropLast_eq_take, List.getLastD_eq_getLast?,
      List.getLast?_eq_getLast_of_ne_nil hne]
    simp
  rw [eq_div_iff hs, sub_mul, one_mul, div_mul_cancel₀ _ hs]
  linarith

/-- `interpolate_curve` builds a non-decreasing knot vector when `invp` is within `e` of `1/p` from above
    (`invp · p ≤ 1 + e`) and the last chord is at least the share `e` of the total chord length -/
theorem interpolateCurve_knots_mono_near (p : ℕ) (cds : List K) (invp e : K) (hp : 1 ≤ p) (hpn : p ≤ cds.length)
    (hpos : ∀ x ∈ cds, 0 < x) (hinv : 0 ≤ invp) (he : 0 ≤ e) (hinv1 : invp * (p : K) ≤ 1 + e)
    (hlastc : e * sumL cds ≤ cds.getLastD 0) :
    Monotone (fnOf (computeKnotVector p (cds.length + 1) (computeParams cds) invp)) := by
  have hne : cds ≠ [] := by intro h; rw [h] at hpn; simp at hpn; omega
  have hnn : ∀ x ∈ cds, (0:K) ≤ x := fun x hx => le_of_lt (hpos x hx)
  have hs : 0 < sumL cds := by rw [sumL_eq_sum]; exact List.sum_pos _ hpos hne
  apply computeKnotVector_mono_near p (cds.length + 1) _ invp e (by omega) hinv he hinv1
  · rw [show cds.length + 1 - 2 = cds.length - 1 by omega, computeParams_gap_last cds hne (ne_of_gt hs),
      le_div_iff₀ hs]
    exact hlastc
  · intro i
    by_cases hi : i ≤ cds.length
    · exact (computeParams_range cds hnn hs i hi).1
    · rw [List.getD_eq_default _ _ (by rw [computeParams_length]; omega)]
  · intro i j hij hj
    exact computeParams_mono cds hnn hs i j hij (by omega)

/-! ### the returned knot vectors -/

theorem interpolateCurve_kv (p : ℕ) (pts : List (List K)) (cds : List K) (invp : K) (kv : List K) (cp : List (List K))
    (h : interpolateCurve p pts cds invp = some (kv, cp)) :
    kv = computeKnotVector p pts.length (computeParams cds) invp := by
  unfold interpolateCurve at h
  simp only [] at h
  split at h
  · injection h with h'
    injection h' with hkv _
    exact hkv.symm
  · exact absurd h (by simp)

/-- **`interpolate_curve` returns a valid clamped knot vector** (positive chord lengths, `0 < invp`, `invp · p ≤ 1`) -/
theorem interpolateCurve_clampedKnots (p : ℕ) (pts : List (List K)) (cds : List K) (invp : K) (kv : List K)
    (cp : List (List K)) (hp : 1 ≤ p) (hpn : p + 1 ≤ pts.length) (hlen : cds.length + 1 = pts.length)
    (hpos : ∀ x ∈ cds, 0 < x) (hinv : 0 < invp) (hinv1 : invp * (p : K) ≤ 1)
    (h : interpolateCurve p pts cds invp = some (kv, cp)) : ClampedKnots p pts.length kv := by
  rw [interpolateCurve_kv p pts cds invp kv cp h, ← hlen]
  obtain ⟨g1, g2, g3, g4⟩ := computeParams_ok cds (by omega) hpos
  exact computeKnotVector_clampedKnots p _ _ invp hp (by omega) hinv hinv1 g1 g2 g3 g4

/-- … also when `invp` is the double `1.0/p` rounded up: `invp · p ≤ 1 + e` and the last chord is at least the share
    `e` of the total chord length -/
theorem interpolateCurve_clampedKnots_near (p : ℕ) (pts : List (List K)) (cds : List K) (invp e : K) (kv : List K)
    (cp : List (List K)) (hp : 1 ≤ p) (hpn : p + 1 ≤ pts.length) (hlen : cds.length + 1 = pts.length)
    (hpos : ∀ x ∈ cds, 0 < x) (hinv : 0 < invp) (he : 0 ≤ e) (hinv1 : invp * (p : K) ≤ 1 + e)
    (hlastc : e * sumL cds ≤ cds.getLastD 0)
    (h : interpolateCurve p pts cds invp = some (kv, cp)) : ClampedKnots p pts.length kv := by
  rw [interpolateCurve_kv p pts cds invp kv cp h, ← hlen]
  obtain ⟨g1, g2, g3, g4⟩ := computeParams_ok cds (by omega) hpos
  have hne : cds ≠ [] := by intro e'; rw [e'] at hlen; simp at hlen; omega
  have hs : 0 < sumL cds := by rw [sumL_eq_sum]; exact List.sum_pos _ hpos hne
  apply computeKnotVector_clampedKnots_near p _ _ invp e hp (by omega) hinv he hinv1 _ g1 g2 g3 g4
  rw [show cds.length + 1 - 2 = cds.length - 1 by omega, computeParams_gap_last cds hne (ne_of_gt hs),
    le_div_iff₀ hs]
  exact hlastc

/-- … in the form "`invp` is within the relative distance `e < 1` of `1/p`" (`|invp · p − 1| ≤ e`; `e = 2⁻⁵³` for the
    double nearest to `1/p`), the last chord being at least the share `e` of the total chord length -/
theorem interpolateCurve_clampedKnots_double (p : ℕ) (pts : List (List K)) (cds : List K) (invp e : K) (kv : List K)
    (cp : List (List K)) (hp : 1 ≤ p) (hpn : p + 1 ≤ pts.length) (hlen : cds.length + 1 = pts.length)
    (hpos : ∀ x ∈ cds, 0 < x) (habs : |invp * (p : K) - 1| ≤ e) (he1 : e < 1)
    (hlastc : e * sumL cds ≤ cds.getLastD 0)
    (h : interpolateCurve p pts cds invp = some (kv, cp)) : ClampedKnots p pts.length kv := by
  obtain ⟨h1, h2⟩ := abs_le.mp habs
  have he : 0 ≤ e := le_trans (abs_nonneg _) habs
  have hpK : (0 : K) < (p : K) := by exact_mod_cast hp
  have hinv : 0 < invp := by
    by_contra hneg
    have : invp * (p : K) ≤ 0 := mul_nonpos_of_nonpos_of_nonneg (not_lt.mp hneg) (le_of_lt hpK)
    linarith
  exact interpolateCurve_clampedKnots_near p pts cds invp e kv cp hp hpn hlen hpos hinv he (by linarith) hlastc h

/-- **`interpolate_surface` returns two valid clamped knot vectors** -/
theorem interpolateSurface_clampedKnots (pu pv su sv : ℕ) (pts : List (List K)) (cdsU cdsV : List (List K))
    (invpu invpv : K) (kvu kvv : List K) (cp : List (List K))
    (hpu1 : 1 ≤ pu) (hpv1 : 1 ≤ pv) (hpu : pu + 1 ≤ su) (hpv : pv + 1 ≤ sv)
    (hcU : cdsU ≠ [] ∧ ∀ c ∈ cdsU, c.length + 1 = su ∧ ∀ x ∈ c, 0 < x)
    (hcV : cdsV ≠ [] ∧ ∀ c ∈ cdsV, c.length + 1 = sv ∧ ∀ x ∈ c, 0 < x)
    (hiu : 0 < invpu) (hiu1 : invpu * (pu : K) ≤ 1) (hiv : 0 < invpv) (hiv1 : invpv * (pv : K) ≤ 1)
    (h : interpolateSurface pu pv su sv pts cdsU cdsV invpu invpv = some (kvu, kvv, cp)) :
    ClampedKnots pu su kvu ∧ ClampedKnots pv sv kvv := by
  obtain ⟨h1, h2, _⟩ := interpolateSurface_shape pu pv su sv pts cdsU cdsV invpu invpv kvu kvv cp h
  obtain ⟨ul, u0, u1, us⟩ := averageParams_ok cdsU su (by omega) hcU
  obtain ⟨vl, v0, v1, vs⟩ := averageParams_ok cdsV sv (by omega) hcV
  rw [h1, h2]
  exact ⟨computeKnotVector_clampedKnots pu su _ invpu hpu1 hpu hiu hiu1 ul u0 u1 us,
    computeKnotVector_clampedKnots pv sv _ invpv hpv1 hpv hiv hiv1 vl v0 v1 vs⟩

/-- **`approximate_curve` returns a valid clamped knot vector** (positive chord lengths) -/
theorem approximateCurve_clampedKnots (p : ℕ) (pts : List (List K)) (cds : List K) (nc : ℕ) (fl : K → ℕ)
    (kv : List K) (cp : List (List K)) (hfl : IsFloor fl) (hp : 1 ≤ p) (hpn : p + 1 ≤ nc) (hnc : nc ≤ pts.length)
    (hlen : cds.length + 1 = pts.length) (hpos : ∀ x ∈ cds, 0 < x)
    (h : approximateCurve p pts cds nc fl = some (kv, cp)) : ClampedKnots p nc kv := by
  rw [(approximateCurve_normal p pts cds nc fl kv cp hnc h).1, ← hlen]
  obtain ⟨g1, g2, g3, g4⟩ := computeParams_ok cds (by omega) hpos
  exact computeKnotVector2_clampedKnots hfl _ _ g4 p nc hp hpn (by omega) g1 g2 g3

/-- **`approximate_surface` returns two valid clamped knot vectors** -/
theorem approximateSurface_clampedKnots (pu pv su sv : ℕ) (pts : List (List K)) (cdsU cdsV : List (List K))
    (ncu ncv : ℕ) (fl : K → ℕ) (kvu kvv : List K) (cp : List (List K)) (hfl : IsFloor fl)
    (hpu1 : 1 ≤ pu) (hpv1 : 1 ≤ pv) (hpu : pu + 1 ≤ ncu) (hpv : pv + 1 ≤ ncv) (hncu : ncu ≤ su) (hncv : ncv ≤ sv)
    (hcU : cdsU ≠ [] ∧ ∀ c ∈ cdsU, c.length + 1 = su ∧ ∀ x ∈ c, 0 < x)
    (hcV : cdsV ≠ [] ∧ ∀ c ∈ cdsV, c.length + 1 = sv ∧ ∀ x ∈ c, 0 < x)
    (h : approximateSurface pu pv su sv pts cdsU cdsV ncu ncv fl = some (kvu, kvv, cp)) :
    ClampedKnots pu ncu kvu ∧ ClampedKnots pv ncv kvv := by
  obtain ⟨h1, h2, _⟩ := approximateSurface_struct pu pv su sv pts cdsU cdsV ncu ncv fl kvu kvv cp h
  obtain ⟨ul, u0, u1, us⟩ := averageParams_ok cdsU su (by omega) hcU
  obtain ⟨vl, v0, v1, vs⟩ := averageParams_ok cdsV sv (by omega) hcV
  rw [h1, h2]
  exact ⟨computeKnotVector2_clampedKnots hfl _ _ us pu ncu hpu1 hpu hncu ul u0 u1,
    computeKnotVector2_clampedKnots hfl _ _ vs pv ncv hpv1 hpv hncv vl v0 v1⟩

/-! ### the collocation matrix of `interpolate_curve` / `interpolate_surface` has a positive diagonal -/

/-- `interpolate_curve`, `invp · p = 1`, positive chord lengths: `N_{i,p}(ū_i) > 0` for every data point -/
theorem interpolateCurve_diag_pos (p : ℕ) (cds : List K) (invp : K) (hp : 1 ≤ p) (hpn : p ≤ cds.length)
    (hpos : ∀ x ∈ cds, 0 < x) (hinv : invp * (p : K) = 1) (i : ℕ) (hi : i < cds.length + 1) :
    0 < ent (buildCoeffMatrix p (fnOf (computeKnotVector p (cds.length + 1) (computeParams cds) invp))
          (computeParams cds) (cds.length + 1)) i i := by
  obtain ⟨g1, g2, g3, g4⟩ := computeParams_ok cds (by omega) hpos
  exact averaged_collocation_diag_pos p _ _ invp hp (by omega) hinv g1 g2 g3 g4 i hi

/-- the same for a direction of `interpolate_surface` (averaged parameters of `compute_params_surface`) -/
theorem interpolateSurface_diag_pos (p n : ℕ) (cdsList : List (List K)) (invp : K) (hp : 1 ≤ p) (hpn : p + 1 ≤ n)
    (hc : cdsList ≠ [] ∧ ∀ c ∈ cdsList, c.length + 1 = n ∧ ∀ x ∈ c, 0 < x)
    (hinv : invp * (p : K) = 1) (i : ℕ) (hi : i < n) :
    0 < ent (buildCoeffMatrix p (fnOf (computeKnotVector p n (averageParams cdsList n) invp))
          (averageParams cdsList n) n) i i := by
  obtain ⟨g1, g2, g3, g4⟩ := averageParams_ok cdsList n (by omega) hc
  exact averaged_collocation_diag_pos p n _ invp hp hpn hinv g1 g2 g3 g4 i hi

/-! ### every knot span of the approximation knot vectors contains a parameter; `NᵀN` has a positive diagonal -/

/-- `approximate_curve`, positive chord lengths: every knot span `[U_s, U_{s+1})`, `p ≤ s < nc`, contains a parameter -/
theorem approximateCurve_span_has_param (p : ℕ) (cds : List K) (nc : ℕ) (fl : K → ℕ) (hfl : IsFloor fl)
    (hp : 1 ≤ p) (hpn : p + 1 ≤ nc) (hnc : nc ≤ cds.length + 1) (hpos : ∀ x ∈ cds, 0 < x)
    (s : ℕ) (hs1 : p ≤ s) (hs2 : s < nc) :
    ∃ k, k < cds.length + 1 ∧
      fnOf (computeKnotVector2 p (cds.length + 1) nc (computeParams cds) fl) s ≤ (computeParams cds).getD k 0 ∧
      (computeParams cds).getD k 0 < fnOf (computeKnotVector2 p (cds.length + 1) nc (computeParams cds) fl) (s + 1) := by
  obtain ⟨g1, g2, g3, g4⟩ := computeParams_ok cds (by omega) hpos
  exact computeKnotVector2_span_has_param p _ nc _ fl hfl hp hpn hnc g1 g2 g3 g4 s hs1 hs2

/-- `approximate_curve`, positive chord lengths: the diagonal of `NᵀN` is positive -/
theorem approximateCurve_normal_diag_pos (p : ℕ) (cds : List K) (nc : ℕ) (fl : K → ℕ) (hfl : IsFloor fl)
    (hp : 1 ≤ p) (hpn : p + 1 ≤ nc) (hnc3 : 3 ≤ nc) (hnc : nc ≤ cds.length + 1) (hpos : ∀ x ∈ cds, 0 < x)
    (i : ℕ) (hi : i < nc - 2) :
    0 < ent (matrixMultiply
      (matrixTranspose (apxN p (fnOf (computeKnotVector2 p (cds.length + 1) nc (computeParams cds) fl))
        (computeKnotVector2 p (cds.length + 1) nc (computeParams cds) fl).length (computeParams cds) (cds.length + 1) nc))
      (apxN p (fnOf (computeKnotVector2 p (cds.length + 1) nc (computeParams cds) fl))
        (computeKnotVector2 p (cds.length + 1) nc (computeParams cds) fl).length (computeParams cds) (cds.length + 1) nc)) i i := by
  obtain ⟨g1, g2, g3, g4⟩ := computeParams_ok cds (by omega) hpos
  exact kv2_normal_diag_pos p _ nc _ fl hfl hp hpn hnc3 hnc g1 g2 g3 g4 i hi

/-- a direction of `approximate_surface` (averaged parameters): every knot span contains a parameter and the diagonal
    of `NᵀN` is positive -/
theorem approximateSurface_dir_ok (p n nc : ℕ) (cdsList : List (List K)) (fl : K → ℕ) (hfl : IsFloor fl)
    (hp : 1 ≤ p) (hpn : p + 1 ≤ nc) (hnc3 : 3 ≤ nc) (hnc : nc ≤ n)
    (hc : cdsList ≠ [] ∧ ∀ c ∈ cdsList, c.length + 1 = n ∧ ∀ x ∈ c, 0 < x) :
    (∀ s, p ≤ s → s < nc → ∃ k, k < n ∧
      fnOf (computeKnotVector2 p n nc (averageParams cdsList n) fl) s ≤ (averageParams cdsList n).getD k 0 ∧
      (averageParams cdsList n).getD k 0 < fnOf (computeKnotVector2 p n nc (averageParams cdsList n) fl) (s + 1)) ∧
    (∀ i, i < nc - 2 → 0 < ent (matrixMultiply
      (matrixTranspose (apxN p (fnOf (computeKnotVector2 p n nc (averageParams cdsList n) fl))
        (computeKnotVector2 p n nc (averageParams cdsList n) fl).length (averageParams cdsList n) n nc))
      (apxN p (fnOf (computeKnotVector2 p n nc (averageParams cdsList n) fl))
        (computeKnotVector2 p n nc (averageParams cdsList n) fl).length (averageParams cdsList n) n nc)) i i) := by
  obtain ⟨g1, g2, g3, g4⟩ := averageParams_ok cdsList n (by omega) hc
  exact ⟨fun s hs1 hs2 => computeKnotVector2_span_has_param p n nc _ fl hfl hp hpn hnc g1 g2 g3 g4 s hs1 hs2,
    fun i hi => kv2_normal_diag_pos p n nc _ fl hfl hp hpn hnc3 hnc g1 g2 g3 g4 i hi⟩

/-! ### the chord hypotheses in the form the lemmas use, from the guard bundles -/

theorem ApproxSurfOk.chords {pu pv su sv : ℕ} {pts : List (List K)} {cdsU cdsV : List (List K)} {ncu ncv : ℕ}
    (hg : ApproxSurfOk pu pv su sv pts cdsU cdsV ncu ncv)
    (hcU : ∀ c ∈ cdsU, ∀ x ∈ c, 0 < x) (hcV : ∀ c ∈ cdsV, ∀ x ∈ c, 0 < x) :
    (cdsU ≠ [] ∧ ∀ c ∈ cdsU, c.length + 1 = su ∧ ∀ x ∈ c, 0 < x) ∧
    (cdsV ≠ [] ∧ ∀ c ∈ cdsV, c.length + 1 = sv ∧ ∀ x ∈ c, 0 < x) := by
  refine ⟨⟨?_, fun c hc => ⟨(hg.cu.2 c hc).1, hcU c hc⟩⟩, ⟨?_, fun c hc => ⟨(hg.cv.2 c hc).1, hcV c hc⟩⟩⟩
  · intro e; have := hg.cu.1; rw [e] at this; have := hg.ncv3; have := hg.ndv; simp at *; omega
  · intro e; have := hg.cv.1; rw [e] at this; have := hg.ncu3; have := hg.ndu; simp at *; omega

theorem InterpSurfOk.chords {pu pv su sv : ℕ} {pts : List (List K)} {cdsU cdsV : List (List K)}
    (hg : InterpSurfOk pu pv su sv pts cdsU cdsV)
    (hcU : ∀ c ∈ cdsU, ∀ x ∈ c, 0 < x) (hcV : ∀ c ∈ cdsV, ∀ x ∈ c, 0 < x) :
    (cdsU ≠ [] ∧ ∀ c ∈ cdsU, c.length + 1 = su ∧ ∀ x ∈ c, 0 < x) ∧
    (cdsV ≠ [] ∧ ∀ c ∈ cdsV, c.length + 1 = sv ∧ ∀ x ∈ c, 0 < x) := by
  refine ⟨⟨?_, fun c hc => ⟨(hg.cu.2 c hc).1, hcU c hc⟩⟩, ⟨?_, fun c hc => ⟨(hg.cv.2 c hc).1, hcV c hc⟩⟩⟩
  · intro e; have := hg.cu.1; rw [e] at this; have := hg.pvn; have := hg.pv1; simp at *; omega
  · intro e; have := hg.cv.1; rw [e] at this; have := hg.pun; have := hg.pu1; simp at *; omega

end Geomdl
