import NurbsVerif.Model.Degree
import NurbsVerif.Lemmas.Elevate
import Mathlib.Data.Nat.Choose.Basic
import Mathlib.Data.Nat.Factorial.Basic
import Mathlib.Algebra.BigOperators.Intervals
import Mathlib.Tactic.Ring
import Mathlib.Tactic.FieldSimp

/-!
# Degree elevation: the list model of `helpers.degree_elevation` meets the Finset statement

`Lemmas/Elevate.lean` proves `elev_preserves` for functions `ℕ → K` and Finset sums.  Here the
executable list model (`Model/Degree.lean`) is connected to it, coordinate by coordinate.
-/
namespace Geomdl
open Finset

/-! ### binomial coefficient -/

theorem factorial_eq (n : ℕ) : factorial n = n.factorial := by
  induction n with
  | zero => rfl
  | succ n ih => simp [factorial, Nat.factorial_succ, ih]

/-- `linalg.binomial_coefficient` is the binomial coefficient (the integer quotient is exact) -/
theorem binomialCoefficient_eq_choose (k i : ℕ) : binomialCoefficient k i = Nat.choose k i := by
  unfold binomialCoefficient
  split
  · next h => exact (Nat.choose_eq_zero_of_lt h).symm
  · next h =>
    rw [factorial_eq, factorial_eq, factorial_eq, Nat.choose_eq_factorial_div_factorial (by omega),
      Nat.mul_comm]

/-- the division in `k! / ((k-i)! * i!)` leaves no remainder -/
theorem binomialCoefficient_exact (k i : ℕ) (h : i ≤ k) :
    binomialCoefficient k i * (factorial (k - i) * factorial i) = factorial k := by
  rw [binomialCoefficient_eq_choose, factorial_eq, factorial_eq, factorial_eq,
    Nat.mul_comm (k - i).factorial, ← Nat.mul_assoc]
  exact Nat.choose_mul_factorial_mul_factorial h

/-! ### lists of coordinates -/

theorem getD_lt {α : Type} (l : List α) (d : α) (k : ℕ) (h : k < l.length) : l.getD k d = l[k] := by
  rw [List.getD_eq_getElem?_getD, List.getElem?_eq_getElem h, Option.getD_some]

theorem getD_ge {α : Type} (l : List α) (d : α) (k : ℕ) (h : l.length ≤ k) : l.getD k d = d := by
  rw [List.getD_eq_getElem?_getD, List.getElem?_eq_none h, Option.getD_none]

section lists
variable {K : Type} [Field K]

/-- all points of the polygon have `d` coordinates -/
def Rect (d : ℕ) (P : List (List K)) : Prop := ∀ pt ∈ P, pt.length = d

theorem Rect.getD_length {d : ℕ} {P : List (List K)} (h : Rect d P) {j : ℕ} (hj : j < P.length) :
    (P.getD j []).length = d := by
  rw [getD_lt _ _ _ hj]
  exact h _ (List.getElem_mem hj)

theorem ext_getD {l₁ l₂ : List K} (hl : l₁.length = l₂.length) (h : ∀ k, l₁.getD k 0 = l₂.getD k 0) :
    l₁ = l₂ := by
  apply List.ext_getElem hl
  intro k h1 h2
  have := h k
  rwa [getD_lt _ _ _ h1, getD_lt _ _ _ h2] at this

theorem getD_zipWith (f : K → K → K) (hf : f 0 0 = 0) (a b : List K) (h : a.length = b.length) (k : ℕ) :
    (List.zipWith f a b).getD k 0 = f (a.getD k 0) (b.getD k 0) := by
  by_cases hk : k < a.length
  · have hk' : k < b.length := h ▸ hk
    have hz : k < (List.zipWith f a b).length := by simp [hk, hk']
    rw [getD_lt _ _ _ hz, getD_lt _ _ _ hk, getD_lt _ _ _ hk']
    simp
  · have hk' : ¬ k < b.length := h ▸ hk
    have hz : ¬ k < (List.zipWith f a b).length := by simp [hk]
    rw [getD_ge _ _ _ (not_lt.mp hz), getD_ge _ _ _ (not_lt.mp hk),
      getD_ge _ _ _ (not_lt.mp hk'), hf]

theorem axpy_length (c : K) (acc pt : List K) (h : acc.length = pt.length) :
    (axpy c acc pt).length = acc.length := by
  simp [axpy, h]

theorem axpy_getD (c : K) (acc pt : List K) (h : acc.length = pt.length) (k : ℕ) :
    (axpy c acc pt).getD k 0 = acc.getD k 0 + c * pt.getD k 0 := by
  unfold axpy
  rw [getD_zipWith (fun p1 p2 => p1 + c * p2) (by simp) _ _ h]

/-- the accumulation loop `acc = [a + c_j * x for a, x in zip(acc, pt_j)]` adds, in every
    coordinate, the sum of the scaled coordinates -/
theorem foldl_axpy {ι : Type} (c : ι → K) (pt : ι → List K) (d : ℕ) (js : List ι) (acc : List K)
    (hacc : acc.length = d) (hpt : ∀ j ∈ js, (pt j).length = d) :
    (js.foldl (fun acc j => axpy (c j) acc (pt j)) acc).length = d ∧
    ∀ k, (js.foldl (fun acc j => axpy (c j) acc (pt j)) acc).getD k 0
      = acc.getD k 0 + (js.map (fun j => c j * (pt j).getD k 0)).sum := by
  induction js generalizing acc with
  | nil => simp [hacc]
  | cons j js ih =>
    have hj : (pt j).length = d := hpt j (by simp)
    have h1 : acc.length = (pt j).length := by rw [hacc, hj]
    have h2 : (axpy (c j) acc (pt j)).length = d := by rw [axpy_length _ _ _ h1, hacc]
    obtain ⟨ihl, ihk⟩ := ih (axpy (c j) acc (pt j)) h2 (fun j' hj' => hpt j' (by simp [hj']))
    refine ⟨by simpa using ihl, ?_⟩
    intro k
    simp only [List.foldl_cons, List.map_cons, List.sum_cons]
    rw [ihk k, axpy_getD _ _ _ h1]
    ring

theorem list_sum_range' (f : ℕ → K) (s n : ℕ) :
    ((List.range' s n).map f).sum = ∑ j ∈ Ico s (s + n), f j := by
  induction n generalizing s with
  | zero => simp
  | succ n ih =>
    rw [List.range'_succ, List.map_cons, List.sum_cons, ih (s + 1),
      Finset.sum_eq_sum_Ico_succ_bot (by omega : s < s + (n + 1))]
    have : s + 1 + n = s + (n + 1) := by omega
    rw [this]

theorem list_sum_range (f : ℕ → K) (n : ℕ) :
    ((List.range n).map f).sum = ∑ j ∈ range n, f j := by
  rw [List.range_eq_range', list_sum_range', Nat.zero_add, Finset.range_eq_Ico]

theorem getD_replicate_zero (d k : ℕ) : (List.replicate d (0 : K)).getD k 0 = 0 := by
  by_cases hk : k < d
  · rw [getD_lt _ _ _ (by simpa using hk)]; simp
  · rw [getD_ge _ _ _ (by simpa using hk)]

end lists

/-! ### elevation -/

section elevation
variable {K : Type} [Field K] [CharZero K]

theorem powNat_eq (x : K) (n : ℕ) : powNat x n = x ^ n := by
  induction n with
  | zero => simp [powNat]
  | succ n ih => rw [powNat, ih, pow_succ]

theorem bernstein_eq_bern (n i : ℕ) (u : K) : bernstein n i u = bern n i u := by
  unfold bernstein bern
  rw [binomialCoefficient_eq_choose, powNat_eq, powNat_eq]

/-- the coefficient the code computes is the guarded coefficient of the Finset statement -/
theorem elevCoeff_eq (p t i j : ℕ) (h : i ≤ j + t ∧ j ≤ i ∧ j ≤ p) :
    (elevCoeff p t i j : K) = elevCoef p t i j := by
  unfold elevCoeff elevCoef
  rw [if_pos h, binomialCoefficient_eq_choose, binomialCoefficient_eq_choose, binomialCoefficient_eq_choose]

/-- every coordinate of an elevated control point is the Finset expression `elev` of that
    coordinate of the input polygon -/
theorem elevPoint_spec (p t : ℕ) (P : List (List K)) (d : ℕ) (hlen : P.length = p + 1) (hr : Rect d P)
    (i : ℕ) (hi : i ≤ p + t) :
    (elevPoint p t P i).length = d ∧
    ∀ k, (elevPoint p t P i).getD k 0 = elev p t (fun j => (P.getD j []).getD k 0) i := by
  have hd : (P.getD 0 []).length = d := hr.getD_length (by omega)
  have hmem : ∀ j ∈ List.range' (max 0 (i - t)) (min p i + 1 - max 0 (i - t)), (P.getD j []).length = d := by
    intro j hj
    rw [List.mem_range'_1] at hj
    exact hr.getD_length (by omega)
  obtain ⟨hl, hk⟩ := foldl_axpy (fun j => (elevCoeff p t i j : K)) (fun j => P.getD j []) d
    (List.range' (max 0 (i - t)) (min p i + 1 - max 0 (i - t))) (List.replicate (P.getD 0 []).length 0)
    (by rw [List.length_replicate, hd]) hmem
  refine ⟨hl, ?_⟩
  intro k
  unfold elevPoint
  simp only []
  rw [hk k, getD_replicate_zero, zero_add, list_sum_range']
  unfold elev
  have hsub : Ico (max 0 (i - t)) (max 0 (i - t) + (min p i + 1 - max 0 (i - t))) ⊆ range (p + 1) := by
    intro x hx; simp only [mem_Ico, mem_range] at hx ⊢; omega
  rw [← sum_subset hsub (by
    intro j _ hj
    simp only [mem_Ico, not_and_or, not_le, not_lt] at hj
    unfold elevCoef
    rw [if_neg (by omega), zero_mul])]
  apply sum_congr rfl
  intro j hj
  simp only [mem_Ico] at hj
  rw [elevCoeff_eq p t i j (by omega)]

theorem degreeElevation_length (p t : ℕ) (P : List (List K)) :
    (degreeElevation p t P).length = p + 1 + t := by
  simp [degreeElevation]

theorem degreeElevation_getD (p t : ℕ) (P : List (List K)) (i : ℕ) (hi : i < p + 1 + t) :
    (degreeElevation p t P).getD i [] = elevPoint p t P i := by
  unfold degreeElevation
  rw [getD_lt _ _ _ (by simpa using hi)]
  simp

/-- the elevated polygon is rectangular again -/
theorem degreeElevation_rect (p t : ℕ) (P : List (List K)) (d : ℕ) (hlen : P.length = p + 1) (hr : Rect d P) :
    Rect d (degreeElevation p t P) := by
  intro pt hpt
  unfold degreeElevation at hpt
  rw [List.mem_map] at hpt
  obtain ⟨i, hi, rfl⟩ := hpt
  rw [List.mem_range] at hi
  exact (elevPoint_spec p t P d hlen hr i (by omega)).1

theorem elev_last (p t : ℕ) (f : ℕ → K) : elev p t f (p + t) = f p := by
  unfold elev
  rw [sum_eq_single p]
  · unfold elevCoef
    rw [if_pos (by omega)]
    simp
  · intro j hj hne
    have := mem_range.mp hj
    unfold elevCoef; rw [if_neg (by omega), zero_mul]
  · intro h; simp at h

/-- coordinatewise Bernstein evaluation as a Finset sum -/
theorem bernsteinEval_getD (P : List (List K)) (n d : ℕ) (hlen : P.length = n + 1) (hr : Rect d P) (u : K) :
    bernsteinEval P u = (List.range d).map (fun c => ∑ i ∈ range (n + 1), bern n i u * (P.getD i []).getD c 0) := by
  unfold bernsteinEval
  rw [hr.getD_length (by omega : 0 < P.length)]
  apply List.map_congr_left
  intro c _
  rw [list_sum_range, hlen]
  apply sum_congr rfl
  intro i _
  rw [Nat.add_sub_cancel, bernstein_eq_bern]

/-- **Degree elevation preserves the Bernstein form** (list model, every degree, every count,
    every parameter, every dimension). -/
theorem bernsteinEval_degreeElevation (p t : ℕ) (P : List (List K)) (d : ℕ) (hlen : P.length = p + 1)
    (hr : Rect d P) (u : K) :
    bernsteinEval (degreeElevation p t P) u = bernsteinEval P u := by
  rw [bernsteinEval_getD P p d hlen hr u,
    bernsteinEval_getD (degreeElevation p t P) (p + t) d (by rw [degreeElevation_length]; omega)
      (degreeElevation_rect p t P d hlen hr) u]
  apply List.map_congr_left
  intro c _
  rw [← elev_preserves p t (fun j => (P.getD j []).getD c 0) u]
  apply sum_congr rfl
  intro i hi
  have hi' := mem_range.mp hi
  rw [degreeElevation_getD p t P i (by omega), (elevPoint_spec p t P d hlen hr i (by omega)).2 c]

/-- first control point unchanged -/
theorem degreeElevation_first (p t : ℕ) (P : List (List K)) (d : ℕ) (hlen : P.length = p + 1) (hr : Rect d P) :
    (degreeElevation p t P).getD 0 [] = P.getD 0 [] := by
  rw [degreeElevation_getD p t P 0 (by omega)]
  obtain ⟨hl, hk⟩ := elevPoint_spec p t P d hlen hr 0 (by omega)
  apply ext_getD (by rw [hl, hr.getD_length (by omega)])
  intro k
  rw [hk k, elev_first]

/-- last control point unchanged -/
theorem degreeElevation_last (p t : ℕ) (P : List (List K)) (d : ℕ) (hlen : P.length = p + 1) (hr : Rect d P) :
    (degreeElevation p t P).getD (p + t) [] = P.getD p [] := by
  rw [degreeElevation_getD p t P (p + t) (by omega)]
  obtain ⟨hl, hk⟩ := elevPoint_spec p t P d hlen hr (p + t) (by omega)
  apply ext_getD (by rw [hl, hr.getD_length (by omega)])
  intro k
  rw [hk k, elev_last]

end elevation
end Geomdl
