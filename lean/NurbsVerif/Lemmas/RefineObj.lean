import NurbsVerif.Lemmas.RefineShape

/-! `operations.refine_knotvector` at object level: unselected directions are untouched; a surface
    refined in any subset of its two directions keeps every point; a curve object goes through the
    helper-level refinement. -/
namespace Geomdl
open Blossom Finset
variable {K : Type} [Field K] [LinearOrder K] [IsStrictOrderedRing K]

/-! ### unselected directions -/

/-- one direction of `refine_knotvector` changes only that direction's knot vector and size (and the net) -/
theorem refineDir_other (S : Shape K) (dir density : ℕ) (tol : K) (S' : Shape K)
    (h : refineDir S dir density tol = some S') :
    S'.degs = S.degs ∧ S'.rat = S.rat ∧ ∀ d', d' ≠ dir → S'.kv d' = S.kv d' ∧ S'.size d' = S.size d' := by
  obtain ⟨_, hS'⟩ := refineDir_some S dir density tol S' h
  refine ⟨by rw [hS'], by rw [hS'], ?_⟩
  intro d' hd
  constructor
  · rw [hS']; exact getD_set_ne _ dir d' _ _ (fun e => hd e.symm)
  · rw [hS']; exact getD_set_ne _ dir d' _ _ (fun e => hd e.symm)

/-- the loop body of `refine_knotvector` -/
abbrev refStep (dens : List ℕ) (tol : K) (acc : Shape K × Bool) (d : ℕ) : Shape K × Bool :=
  if acc.2 = false then acc
  else if dens.getD d 0 = 0 then acc
  else match refineDir acc.1 d (dens.getD d 0) tol with
    | some S' => (S', true)
    | none => (acc.1, false)

theorem refineKnotvector_eq (S : Shape K) (dens : List ℕ) (tol : K) :
    refineKnotvector S dens tol = (List.range S.pdim).foldl (refStep dens tol) (S, true) := rfl

theorem refStep_unselected (dens : List ℕ) (tol : K) (d' : ℕ) (h : dens.getD d' 0 = 0) (acc : Shape K × Bool) (dir : ℕ) :
    (refStep dens tol acc dir).1.degs = acc.1.degs ∧ (refStep dens tol acc dir).1.rat = acc.1.rat ∧
    (refStep dens tol acc dir).1.kv d' = acc.1.kv d' ∧ (refStep dens tol acc dir).1.size d' = acc.1.size d' := by
  unfold refStep
  split_ifs with h1 h2
  · exact ⟨rfl, rfl, rfl, rfl⟩
  · exact ⟨rfl, rfl, rfl, rfl⟩
  · cases hr : refineDir acc.1 dir (dens.getD dir 0) tol with
    | none => exact ⟨rfl, rfl, rfl, rfl⟩
    | some S' =>
      obtain ⟨a, b, c⟩ := refineDir_other acc.1 dir _ tol S' hr
      have hne : d' ≠ dir := by intro e; rw [e] at h; exact h2 h
      exact ⟨a, b, (c d' hne).1, (c d' hne).2⟩

theorem refFold_unselected (dens : List ℕ) (tol : K) (d' : ℕ) (h : dens.getD d' 0 = 0) :
    ∀ (ds : List ℕ) (acc : Shape K × Bool),
      (ds.foldl (refStep dens tol) acc).1.degs = acc.1.degs ∧ (ds.foldl (refStep dens tol) acc).1.rat = acc.1.rat ∧
      (ds.foldl (refStep dens tol) acc).1.kv d' = acc.1.kv d' ∧ (ds.foldl (refStep dens tol) acc).1.size d' = acc.1.size d' := by
  intro ds
  induction ds with
  | nil => intro acc; exact ⟨rfl, rfl, rfl, rfl⟩
  | cons a ds ih =>
    intro acc
    simp only [List.foldl_cons]
    obtain ⟨a1, a2, a3, a4⟩ := ih (refStep dens tol acc a)
    obtain ⟨b1, b2, b3, b4⟩ := refStep_unselected dens tol d' h acc a
    exact ⟨a1.trans b1, a2.trans b2, a3.trans b3, a4.trans b4⟩

/-- **directions with density 0 are untouched** (knot vector and size; degrees never change) -/
theorem refineKnotvector_unselected' (S : Shape K) (dens : List ℕ) (tol : K) (d' : ℕ) (h : dens.getD d' 0 = 0) :
    (refineKnotvector S dens tol).1.degs = S.degs ∧ (refineKnotvector S dens tol).1.rat = S.rat ∧
    (refineKnotvector S dens tol).1.kv d' = S.kv d' ∧ (refineKnotvector S dens tol).1.size d' = S.size d' :=
  refFold_unselected dens tol d' h _ (S, true)

theorem refFold_none (dens : List ℕ) (tol : K) : ∀ (ds : List ℕ) (S : Shape K), (∀ d ∈ ds, dens.getD d 0 = 0) →
    ds.foldl (refStep dens tol) (S, true) = (S, true) := by
  intro ds
  induction ds with
  | nil => intro S _; rfl
  | cons a ds ih =>
    intro S h
    simp only [List.foldl_cons]
    have : refStep dens tol (S, true) a = (S, true) := by
      unfold refStep
      rw [if_neg (by simp), if_pos (h a (by simp))]
    rw [this]
    exact ih S (fun d hd => h d (by simp [hd]))

/-- **no direction selected ⇒ the object is returned unchanged** -/
theorem refineKnotvector_none' (S : Shape K) (dens : List ℕ) (tol : K) (h : ∀ d, d < S.pdim → dens.getD d 0 = 0) :
    refineKnotvector S dens tol = (S, true) :=
  refFold_none dens tol _ S (fun d hd => h d (List.mem_range.mp hd))

/-! ### curve objects -/

/-- on a curve object `refine_knotvector`'s direction step IS the helper-level refinement -/
theorem refineDir_curve (S : Shape K) (h1 : S.degs.length = 1) (hsize : S.size 0 = S.net.length)
    (density : ℕ) (tol : K) :
    refineDir S 0 density tol = (knotRefinement (S.deg 0) (S.kv 0) S.net density tol).map
      (fun r => { S with kvs := S.kvs.set 0 r.1, sizes := S.sizes.set 0 r.2.length, net := r.2 }) := by
  unfold refineDir knotRefinement
  simp only []
  split_ifs with hX
  · rfl
  · simp only [Option.map_some]
    have hmap : ∀ f : List (List K) → List (List K), S.mapDir 0 f = (f S.net, (f S.net).length) := by
      intro f; unfold Shape.mapDir Shape.pdim; rw [h1]; simp
    rw [hmap]
    have := insert_fold_kv_indep (S.deg 0) tol (refineX (S.deg 0) (S.kv 0) density tol) (S.kv 0)
      (List.replicate (S.size 0) []) S.net (by simp [hsize])
    rw [this]

/-! ### surfaces: any subset of the two directions -/

/-- `T` is a well-formed surface with the same domain and the same points as `S` -/
structure SurfSame (d : ℕ) (S T : Shape K) : Prop where
  wf : SurfWF d T
  lo0 : fnOf (T.kv 0) (T.deg 0) = fnOf (S.kv 0) (S.deg 0)
  hi0 : fnOf (T.kv 0) (T.size 0) = fnOf (S.kv 0) (S.size 0)
  lo1 : fnOf (T.kv 1) (T.deg 1) = fnOf (S.kv 1) (S.deg 1)
  hi1 : fnOf (T.kv 1) (T.size 1) = fnOf (S.kv 1) (S.size 1)
  eval : ∀ (u v : K), fnOf (S.kv 0) (S.deg 0) ≤ u → u ≤ fnOf (S.kv 0) (S.size 0) →
    fnOf (S.kv 1) (S.deg 1) ≤ v → v ≤ fnOf (S.kv 1) (S.size 1) → ∀ j,
    (surfEval T u v).getD j 0 = (surfEval S u v).getD j 0

theorem SurfSame.refl {d : ℕ} {S : Shape K} (h : SurfWF d S) : SurfSame d S S :=
  ⟨h, rfl, rfl, rfl, rfl, fun _ _ _ _ _ _ _ => rfl⟩

/-- the hypotheses on one direction of a surface: clamped end, tolerance separation of all knots involved -/
def DirHyp (S : Shape K) (dir density : ℕ) (tol : K) : Prop :=
  (∀ i, S.size dir ≤ i → fnOf (S.kv dir) i = fnOf (S.kv dir) (S.size dir)) ∧
  SepBy tol (S.kv dir ++ refineKnots (S.deg dir) (S.kv dir) density)

theorem refStep0_surface (d : ℕ) (S : Shape K) (hS : SurfWF d S) (dens : List ℕ) (tol : K) (h0 : 0 ≤ tol)
    (hd0 : dens.getD 0 0 ≠ 0 → DirHyp S 0 (dens.getD 0 0) tol) :
    SurfSame d S (refStep dens tol (S, true) 0).1 ∧ (refStep dens tol (S, true) 0).1.degs = S.degs ∧
    (refStep dens tol (S, true) 0).1.kv 1 = S.kv 1 ∧ (refStep dens tol (S, true) 0).1.size 1 = S.size 1 := by
  unfold refStep
  rw [if_neg (by simp)]
  split_ifs with h2
  · exact ⟨SurfSame.refl hS, rfl, rfl, rfl⟩
  · cases hr : refineDir S 0 (dens.getD 0 0) tol with
    | none => exact ⟨SurfSame.refl hS, rfl, rfl, rfl⟩
    | some S' =>
      obtain ⟨hend, hsep⟩ := hd0 h2
      obtain ⟨a1, a2, a3, a4, a5, a6, a7, a8⟩ := refineDir_u_surface d S hS (dens.getD 0 0) tol hend h0 hsep S' hr
      have e_deg : ∀ i, S'.deg i = S.deg i := by intro i; unfold Shape.deg; rw [a2]
      refine ⟨⟨a1, a6, a7, by rw [e_deg, a3], by rw [a3, a4], ?_⟩, a2, a3, a4⟩
      intro u v hu1 hu2 hv1 _ j
      exact a8 u v hu1 hu2 hv1 j

theorem refStep1_surface (d : ℕ) (S T : Shape K) (b : Bool) (hT : SurfSame d S T) (dens : List ℕ) (tol : K) (h0 : 0 ≤ tol)
    (hd1 : dens.getD 1 0 ≠ 0 → DirHyp T 1 (dens.getD 1 0) tol) :
    SurfSame d S (refStep dens tol (T, b) 1).1 := by
  unfold refStep
  split_ifs with h1 h2
  · exact hT
  · exact hT
  · cases hr : refineDir T 1 (dens.getD 1 0) tol with
    | none => exact hT
    | some S' =>
      obtain ⟨hend, hsep⟩ := hd1 h2
      obtain ⟨a1, a2, a3, a4, a5, a6, a7, a8⟩ := refineDir_v_surface d T hT.wf (dens.getD 1 0) tol hend h0 hsep S' hr
      have e_deg : ∀ i, S'.deg i = T.deg i := by intro i; unfold Shape.deg; rw [a2]
      refine ⟨a1, by rw [e_deg, a3]; exact hT.lo0, by rw [a3, a4]; exact hT.hi0, a6.trans hT.lo1, a7.trans hT.hi1, ?_⟩
      intro u v hu1 hu2 hv1 hv2 j
      rw [a8 u v (by rw [hT.lo0]; exact hu1) (by rw [hT.lo1]; exact hv1) (by rw [hT.hi1]; exact hv2) j]
      exact hT.eval u v hu1 hu2 hv1 hv2 j

/-- **`refine_knotvector` on a surface, any subset of directions, any densities, keeps every surface
    point** (and returns a well-formed surface with the same domain) – whether or not the call
    completed. -/
theorem refineKnotvector_surface' (d : ℕ) (S : Shape K) (hS : SurfWF d S) (dens : List ℕ) (tol : K) (h0 : 0 ≤ tol)
    (hd0 : dens.getD 0 0 ≠ 0 → DirHyp S 0 (dens.getD 0 0) tol)
    (hd1 : dens.getD 1 0 ≠ 0 → DirHyp S 1 (dens.getD 1 0) tol) :
    SurfSame d S (refineKnotvector S dens tol).1 := by
  rw [refineKnotvector_eq]
  unfold Shape.pdim
  rw [hS.degs]
  have hr : List.range 2 = [0, 1] := rfl
  rw [hr]
  simp only [List.foldl_cons, List.foldl_nil]
  obtain ⟨s1, s2, s3, s4⟩ := refStep0_surface d S hS dens tol h0 hd0
  apply refStep1_surface d S _ _ s1 dens tol h0
  intro hne
  obtain ⟨hend, hsep⟩ := hd1 hne
  have e_deg : (refStep dens tol (S, true) 0).1.deg 1 = S.deg 1 := by unfold Shape.deg; rw [s2]
  unfold DirHyp
  rw [s3, s4, e_deg]
  exact ⟨hend, hsep⟩

end Geomdl
