import NurbsVerif.Lemmas.LayoutVol
import NurbsVerif.Lemmas.VolLift
import NurbsVerif.Lemmas.AssemblePoint

/-!
  Assembly, part 7 (C13): volume evaluation is tied to the layout used by `extract_surfaces`.
  Evaluating the volume at `(u, v, w)` is evaluating, in the remaining direction, the curve whose
  control points are the points of the extracted iso-surfaces:
  `V(u,v,w) = Σ_c N_c(w) · S^{uv}_c(u,v) = Σ_b N_b(v) · S^{uw}_b(u,w) = Σ_a N_a(u) · S^{vw}_a(v,w)`,
  with the surfaces exactly as `extract_surfaces` builds them (flat index `v + sv·(u + su·w)`).
-/
namespace Geomdl
open Blossom Finset
set_option linter.unusedSectionVars false
variable {K : Type} [Field K] [LinearOrder K] [IsStrictOrderedRing K]

/-- a curve whose control points are given by a table -/
theorem curvePointAt_of_sections (p : ℕ) (U : ℕ → K) (n k : ℕ) (u : K) (d j : ℕ) (hp : p ≤ k) (hk : k < n)
    (sec : ℕ → List K) (hsec : ∀ i, i < n → (sec i).length = d) :
    (curvePointAt p U ((List.range n).map sec) k u).getD j 0
      = ∑ r ∈ range (p+1), (basisFuns p U k u).getD r 0 * (sec (k - p + r)).getD j 0 := by
  have hP : NetOk d ((List.range n).map sec) := by
    intro pt hpt
    simp only [List.mem_map, List.mem_range] at hpt
    obtain ⟨i, hi, rfl⟩ := hpt
    exact hsec i hi
  rw [curvePointAt_sum p U _ k u d j hp (by simpa using hk) hP]
  apply Finset.sum_congr rfl
  intro r hr
  rw [Finset.mem_range] at hr
  have : ptsGet ((List.range n).map sec) (k - p + r) = sec (k - p + r) := by
    unfold ptsGet
    rw [List.getD_eq_getElem?_getD, List.getElem?_map, List.getElem?_range (by omega)]
    rfl
  rw [this]

/-- a surface whose net is given by a table in the library's layout -/
theorem surfacePointAt_of_table (pu pv : ℕ) (Uu Uv : ℕ → K) (A B : ℕ) (f : ℕ → ℕ → List K) (ku kv : ℕ) (u v : K)
    (d j : ℕ) (hpu : pu ≤ ku) (hpv : pv ≤ kv) (hku : ku < A) (hkv : kv < B)
    (hf : ∀ a b, a < A → b < B → (f a b).length = d) :
    (surfacePointAt pu pv Uu Uv B (tab2 A B f) ku kv u v).length = d ∧
    (surfacePointAt pu pv Uu Uv B (tab2 A B f) ku kv u v).getD j 0
      = ∑ a ∈ range (pu+1), (basisFuns pu Uu ku u).getD a 0 *
          ∑ b ∈ range (pv+1), (basisFuns pv Uv kv v).getD b 0 * (f (ku - pu + a) (kv - pv + b)).getD j 0 := by
  have hP : NetOk d (tab2 A B f) := by
    intro pt hpt
    simp only [tab2, List.mem_flatMap, List.mem_map, List.mem_range] at hpt
    obtain ⟨a, ha, b, hb, rfl⟩ := hpt
    exact hf a b ha hb
  have hlen := length_tab2 A B f
  refine ⟨surfacePointAt_length pu pv Uu Uv A B _ ku kv u v d hpu hpv hku hkv hlen hP, ?_⟩
  rw [surfacePointAt_sum pu pv Uu Uv A B _ ku kv u v d j hpu hpv hku hkv hlen hP]
  apply Finset.sum_congr rfl
  intro a ha
  rw [Finset.mem_range] at ha
  congr 1
  apply Finset.sum_congr rfl
  intro b hb
  rw [Finset.mem_range] at hb
  unfold ptsGet
  rw [getD_tab2 f (by omega) (by omega)]

theorem sum3_rot_c (n m q : ℕ) (x y z : ℕ → K) (F : ℕ → ℕ → ℕ → K) :
    ∑ c ∈ range q, z c * ∑ a ∈ range n, x a * ∑ b ∈ range m, y b * F a b c
      = ∑ a ∈ range n, x a * ∑ b ∈ range m, y b * ∑ c ∈ range q, z c * F a b c := by
  simp only [Finset.mul_sum]
  rw [Finset.sum_comm]
  apply Finset.sum_congr rfl; intro a _
  rw [Finset.sum_comm]
  apply Finset.sum_congr rfl; intro b _
  apply Finset.sum_congr rfl; intro c _
  ring

theorem sum3_rot_b (n m q : ℕ) (x y z : ℕ → K) (F : ℕ → ℕ → ℕ → K) :
    ∑ b ∈ range m, y b * ∑ a ∈ range n, x a * ∑ c ∈ range q, z c * F a b c
      = ∑ a ∈ range n, x a * ∑ b ∈ range m, y b * ∑ c ∈ range q, z c * F a b c := by
  simp only [Finset.mul_sum]
  rw [Finset.sum_comm]
  apply Finset.sum_congr rfl; intro a _
  apply Finset.sum_congr rfl; intro b _
  apply Finset.sum_congr rfl; intro c _
  ring

section
variable (V : Vol (List K) (ℕ → K)) (d : ℕ)

theorem vol_pt_length (h : V.WF) (hd : ∀ p ∈ V.pts, p.length = d) (a b c : ℕ) (ha : a < V.su) (hb : b < V.sv) (hc : c < V.sw) :
    (V.pts.getD (b + V.sv * (a + V.su * c)) default).length = d := by
  have hlt : b + V.sv * (a + V.su * c) < V.pts.length := by
    rw [h.1]; exact flatIdx3_lt ha hb hc
  rw [List.getD_eq_getElem?_getD, List.getElem?_eq_getElem hlt]
  exact hd _ (List.getElem_mem hlt)

/-- **`'uv'` family**: the volume point on spans `(ku, kv, kw)` is the degree-`dw` curve point (span `kw`)
    of the polygon formed by the points of the extracted `uv`-surfaces at `(u, v)` -/
theorem volumePointAt_extractUV (h : V.WF) (hd : ∀ p ∈ V.pts, p.length = d) (ku kv kw : ℕ)
    (hpu : V.du ≤ ku) (hpv : V.dv ≤ kv) (hpw : V.dw ≤ kw) (hku : ku < V.su) (hkv : kv < V.sv) (hkw : kw < V.sw)
    (u v w : K) (j : ℕ) :
    (volumePointAt V.du V.dv V.dw V.ku V.kv V.kw V.su V.sv V.pts ku kv kw u v w).getD j 0
      = (curvePointAt V.dw V.kw ((extractSurfacesUV V).map fun S =>
            surfacePointAt S.du S.dv S.ku S.kv S.sv S.pts ku kv u v) kw w).getD j 0 := by
  rw [extractSurfacesUV_eq V (by omega), List.map_map]
  have hsec := fun (i : ℕ) (hi : i < V.sw) =>
    surfacePointAt_of_table V.du V.dv V.ku V.kv V.su V.sv
      (fun a b => V.pts.getD (b + V.sv * (a + V.su * i)) default) ku kv u v d j hpu hpv hku hkv
      (fun a b ha hb => vol_pt_length V d h hd a b i ha hb hi)
  have e := curvePointAt_of_sections V.dw V.kw V.sw kw w d j hpw hkw
    (fun i => surfacePointAt V.du V.dv V.ku V.kv V.sv
      (tab2 V.su V.sv fun a b => V.pts.getD (b + V.sv * (a + V.su * i)) default) ku kv u v)
    (fun i hi => (hsec i hi).1)
  simp only [Function.comp_def] at e ⊢
  rw [e, volumePointAt_sum V.du V.dv V.dw V.ku V.kv V.kw V.su V.sv V.sw V.pts ku kv kw u v w d j
    hpu hpv hpw hku hkv hkw h.1 hd]
  have e2 : ∀ r ∈ range (V.dw + 1), (basisFuns V.dw V.kw kw w).getD r 0 *
      (surfacePointAt V.du V.dv V.ku V.kv V.sv
        (tab2 V.su V.sv fun a b => V.pts.getD (b + V.sv * (a + V.su * (kw - V.dw + r))) default) ku kv u v).getD j 0
      = (basisFuns V.dw V.kw kw w).getD r 0 *
        ∑ a ∈ range (V.du+1), (basisFuns V.du V.ku ku u).getD a 0 *
          ∑ b ∈ range (V.dv+1), (basisFuns V.dv V.kv kv v).getD b 0 *
            (ptsGet V.pts (kv - V.dv + b + V.sv * (ku - V.du + a + V.su * (kw - V.dw + r)))).getD j 0 := by
    intro r hr
    rw [Finset.mem_range] at hr
    rw [(hsec (kw - V.dw + r) (by omega)).2]
    rfl
  rw [Finset.sum_congr rfl e2]
  exact (sum3_rot_c (V.du+1) (V.dv+1) (V.dw+1) _ _ _
    (fun a b c => (ptsGet V.pts (kv - V.dv + b + V.sv * (ku - V.du + a + V.su * (kw - V.dw + c)))).getD j 0)).symm

/-- **`'uw'` family**: one surface per `v`; the volume point is the degree-`dv` curve point (span `kv`)
    of the points of the extracted `uw`-surfaces at `(u, w)` -/
theorem volumePointAt_extractUW (h : V.WF) (hd : ∀ p ∈ V.pts, p.length = d) (ku kv kw : ℕ)
    (hpu : V.du ≤ ku) (hpv : V.dv ≤ kv) (hpw : V.dw ≤ kw) (hku : ku < V.su) (hkv : kv < V.sv) (hkw : kw < V.sw)
    (u v w : K) (j : ℕ) :
    (volumePointAt V.du V.dv V.dw V.ku V.kv V.kw V.su V.sv V.pts ku kv kw u v w).getD j 0
      = (curvePointAt V.dv V.kv ((extractSurfacesUW V).map fun S =>
            surfacePointAt S.du S.dv S.ku S.kv S.sv S.pts ku kw u w) kv v).getD j 0 := by
  rw [extractSurfacesUW_eq V (by omega), List.map_map]
  have hsec := fun (i : ℕ) (hi : i < V.sv) =>
    surfacePointAt_of_table V.du V.dw V.ku V.kw V.su V.sw
      (fun a c => V.pts.getD (i + V.sv * (a + V.su * c)) default) ku kw u w d j hpu hpw hku hkw
      (fun a c ha hc => vol_pt_length V d h hd a i c ha hi hc)
  have e := curvePointAt_of_sections V.dv V.kv V.sv kv v d j hpv hkv
    (fun i => surfacePointAt V.du V.dw V.ku V.kw V.sw
      (tab2 V.su V.sw fun a c => V.pts.getD (i + V.sv * (a + V.su * c)) default) ku kw u w)
    (fun i hi => (hsec i hi).1)
  simp only [Function.comp_def] at e ⊢
  rw [e, volumePointAt_sum V.du V.dv V.dw V.ku V.kv V.kw V.su V.sv V.sw V.pts ku kv kw u v w d j
    hpu hpv hpw hku hkv hkw h.1 hd]
  have e2 : ∀ r ∈ range (V.dv + 1), (basisFuns V.dv V.kv kv v).getD r 0 *
      (surfacePointAt V.du V.dw V.ku V.kw V.sw
        (tab2 V.su V.sw fun a c => V.pts.getD (kv - V.dv + r + V.sv * (a + V.su * c)) default) ku kw u w).getD j 0
      = (basisFuns V.dv V.kv kv v).getD r 0 *
        ∑ a ∈ range (V.du+1), (basisFuns V.du V.ku ku u).getD a 0 *
          ∑ c ∈ range (V.dw+1), (basisFuns V.dw V.kw kw w).getD c 0 *
            (ptsGet V.pts (kv - V.dv + r + V.sv * (ku - V.du + a + V.su * (kw - V.dw + c)))).getD j 0 := by
    intro r hr
    rw [Finset.mem_range] at hr
    rw [(hsec (kv - V.dv + r) (by omega)).2]
    rfl
  rw [Finset.sum_congr rfl e2]
  exact (sum3_rot_b (V.du+1) (V.dv+1) (V.dw+1) _ _ _
    (fun a b c => (ptsGet V.pts (kv - V.dv + b + V.sv * (ku - V.du + a + V.su * (kw - V.dw + c)))).getD j 0)).symm

/-- **`'vw'` family**: one surface per `u`; the volume point is the degree-`du` curve point (span `ku`)
    of the points of the extracted `vw`-surfaces at `(v, w)` -/
theorem volumePointAt_extractVW (h : V.WF) (hd : ∀ p ∈ V.pts, p.length = d) (ku kv kw : ℕ)
    (hpu : V.du ≤ ku) (hpv : V.dv ≤ kv) (hpw : V.dw ≤ kw) (hku : ku < V.su) (hkv : kv < V.sv) (hkw : kw < V.sw)
    (u v w : K) (j : ℕ) :
    (volumePointAt V.du V.dv V.dw V.ku V.kv V.kw V.su V.sv V.pts ku kv kw u v w).getD j 0
      = (curvePointAt V.du V.ku ((extractSurfacesVW V).map fun S =>
            surfacePointAt S.du S.dv S.ku S.kv S.sv S.pts kv kw v w) ku u).getD j 0 := by
  rw [extractSurfacesVW_eq V (by have := h.2.2.1; omega), List.map_map]
  have hsec := fun (i : ℕ) (hi : i < V.su) =>
    surfacePointAt_of_table V.dv V.dw V.kv V.kw V.sv V.sw
      (fun b c => V.pts.getD (b + V.sv * (i + V.su * c)) default) kv kw v w d j hpv hpw hkv hkw
      (fun b c hb hc => vol_pt_length V d h hd i b c hi hb hc)
  have e := curvePointAt_of_sections V.du V.ku V.su ku u d j hpu hku
    (fun i => surfacePointAt V.dv V.dw V.kv V.kw V.sw
      (tab2 V.sv V.sw fun b c => V.pts.getD (b + V.sv * (i + V.su * c)) default) kv kw v w)
    (fun i hi => (hsec i hi).1)
  simp only [Function.comp_def] at e ⊢
  rw [e, volumePointAt_sum V.du V.dv V.dw V.ku V.kv V.kw V.su V.sv V.sw V.pts ku kv kw u v w d j
    hpu hpv hpw hku hkv hkw h.1 hd]
  apply Finset.sum_congr rfl
  intro r hr
  rw [Finset.mem_range] at hr
  rw [(hsec (ku - V.du + r) (by omega)).2]
  rfl

/-! ### the same for the points `evaluate_single` computes (spans by the library's search) -/

/-- `'uv'` family, point level -/
theorem volumePoint_extractUV (h : V.WF) (hd : ∀ p ∈ V.pts, p.length = d)
    (hdu : V.du + 1 ≤ V.su) (hdv : V.dv + 1 ≤ V.sv) (hdw : V.dw + 1 ≤ V.sw) (u v w : K) (j : ℕ) :
    (volumePoint V.du V.dv V.dw V.ku V.kv V.kw V.su V.sv V.sw V.pts u v w).getD j 0
      = (curvePoint V.dw V.kw ((extractSurfacesUV V).map fun S =>
            surfacePoint S.du S.dv S.ku S.kv S.su S.sv S.pts u v) w).getD j 0 := by
  have key := volumePointAt_extractUV V d h hd _ _ _ (asm_span_ge V.du V.ku V.su u hdu) (asm_span_ge V.dv V.kv V.sv v hdv)
    (asm_span_ge V.dw V.kw V.sw w hdw) (asm_span_lt V.du V.ku V.su u hdu) (asm_span_lt V.dv V.kv V.sv v hdv)
    (asm_span_lt V.dw V.kw V.sw w hdw) u v w j
  have hl : ((extractSurfacesUV V).map fun S => surfacePoint S.du S.dv S.ku S.kv S.su S.sv S.pts u v).length = V.sw := by
    simp [extractSurfacesUV]
  have hm : ((extractSurfacesUV V).map fun S => surfacePoint S.du S.dv S.ku S.kv S.su S.sv S.pts u v)
      = (extractSurfacesUV V).map fun S => surfacePointAt S.du S.dv S.ku S.kv S.sv S.pts
          (findSpanLinear V.du V.ku V.su u) (findSpanLinear V.dv V.kv V.sv v) u v := by
    apply List.map_congr_left
    intro S hS
    rw [extractSurfacesUV_eq V (by omega)] at hS
    simp only [List.mem_map, List.mem_range] at hS
    obtain ⟨i, _, rfl⟩ := hS
    rfl
  unfold volumePoint curvePoint
  rw [hl, hm]
  exact key

/-- `'uw'` family, point level -/
theorem volumePoint_extractUW (h : V.WF) (hd : ∀ p ∈ V.pts, p.length = d)
    (hdu : V.du + 1 ≤ V.su) (hdv : V.dv + 1 ≤ V.sv) (hdw : V.dw + 1 ≤ V.sw) (u v w : K) (j : ℕ) :
    (volumePoint V.du V.dv V.dw V.ku V.kv V.kw V.su V.sv V.sw V.pts u v w).getD j 0
      = (curvePoint V.dv V.kv ((extractSurfacesUW V).map fun S =>
            surfacePoint S.du S.dv S.ku S.kv S.su S.sv S.pts u w) v).getD j 0 := by
  have key := volumePointAt_extractUW V d h hd _ _ _ (asm_span_ge V.du V.ku V.su u hdu) (asm_span_ge V.dv V.kv V.sv v hdv)
    (asm_span_ge V.dw V.kw V.sw w hdw) (asm_span_lt V.du V.ku V.su u hdu) (asm_span_lt V.dv V.kv V.sv v hdv)
    (asm_span_lt V.dw V.kw V.sw w hdw) u v w j
  have hl : ((extractSurfacesUW V).map fun S => surfacePoint S.du S.dv S.ku S.kv S.su S.sv S.pts u w).length = V.sv := by
    simp [extractSurfacesUW]
  have hm : ((extractSurfacesUW V).map fun S => surfacePoint S.du S.dv S.ku S.kv S.su S.sv S.pts u w)
      = (extractSurfacesUW V).map fun S => surfacePointAt S.du S.dv S.ku S.kv S.sv S.pts
          (findSpanLinear V.du V.ku V.su u) (findSpanLinear V.dw V.kw V.sw w) u w := by
    apply List.map_congr_left
    intro S hS
    rw [extractSurfacesUW_eq V (by omega)] at hS
    simp only [List.mem_map, List.mem_range] at hS
    obtain ⟨i, _, rfl⟩ := hS
    rfl
  unfold volumePoint curvePoint
  rw [hl, hm]
  exact key

/-- `'vw'` family, point level -/
theorem volumePoint_extractVW (h : V.WF) (hd : ∀ p ∈ V.pts, p.length = d)
    (hdu : V.du + 1 ≤ V.su) (hdv : V.dv + 1 ≤ V.sv) (hdw : V.dw + 1 ≤ V.sw) (u v w : K) (j : ℕ) :
    (volumePoint V.du V.dv V.dw V.ku V.kv V.kw V.su V.sv V.sw V.pts u v w).getD j 0
      = (curvePoint V.du V.ku ((extractSurfacesVW V).map fun S =>
            surfacePoint S.du S.dv S.ku S.kv S.su S.sv S.pts v w) u).getD j 0 := by
  have key := volumePointAt_extractVW V d h hd _ _ _ (asm_span_ge V.du V.ku V.su u hdu) (asm_span_ge V.dv V.kv V.sv v hdv)
    (asm_span_ge V.dw V.kw V.sw w hdw) (asm_span_lt V.du V.ku V.su u hdu) (asm_span_lt V.dv V.kv V.sv v hdv)
    (asm_span_lt V.dw V.kw V.sw w hdw) u v w j
  have hl : ((extractSurfacesVW V).map fun S => surfacePoint S.du S.dv S.ku S.kv S.su S.sv S.pts v w).length = V.su := by
    simp [extractSurfacesVW]
  have hm : ((extractSurfacesVW V).map fun S => surfacePoint S.du S.dv S.ku S.kv S.su S.sv S.pts v w)
      = (extractSurfacesVW V).map fun S => surfacePointAt S.du S.dv S.ku S.kv S.sv S.pts
          (findSpanLinear V.dv V.kv V.sv v) (findSpanLinear V.dw V.kw V.sw w) v w := by
    apply List.map_congr_left
    intro S hS
    rw [extractSurfacesVW_eq V (by have := h.2.2.1; omega)] at hS
    simp only [List.mem_map, List.mem_range] at hS
    obtain ⟨i, _, rfl⟩ := hS
    rfl
  unfold volumePoint curvePoint
  rw [hl, hm]
  exact key

end
end Geomdl
