import NurbsVerif.Lemmas.SurfDerivBasis
import Mathlib.Algebra.Polynomial.Bivariate

/-! Bivariate polynomials `F[X][Y]` (Mathlib's `Polynomial (Polynomial F)`: the inner indeterminate is
    the `u` direction, the outer one the `v` direction), their two partial derivatives, tensor
    products `f(u)·g(v)`, and the bivariate span polynomial of a surface. -/
namespace Geomdl
open Polynomial Finset
open scoped Polynomial.Bivariate
variable {F : Type} [Field F]

/-- `∂/∂v`: Mathlib's derivative in the outer indeterminate -/
noncomputable def pderivV (S : F[X][Y]) : F[X][Y] := derivative S

/-- `∂/∂u`: the derivative in the inner indeterminate (exchange the indeterminates, differentiate,
    exchange back); `coeff_pderivU` shows that this is the coefficientwise derivative -/
noncomputable def pderivU (S : F[X][Y]) : F[X][Y] := Bivariate.swap (derivative (Bivariate.swap S))

/-- the product `f(u) · g(v)` -/
noncomputable def tens (f g : F[X]) : F[X][Y] := C f * g.map C

theorem swap_tens (f g : F[X]) : Bivariate.swap (tens f g) = tens g f := by
  unfold tens
  rw [map_mul, Bivariate.swap_C, Bivariate.swap_map_C, mul_comm]

theorem pderivV_tens (f g : F[X]) : pderivV (tens f g) = tens f (derivative g) := by
  unfold pderivV tens
  rw [derivative_C_mul, derivative_map]

theorem pderivU_tens (f g : F[X]) : pderivU (tens f g) = tens (derivative f) g := by
  unfold pderivU
  rw [swap_tens]
  have := pderivV_tens g f
  unfold pderivV at this
  rw [this, swap_tens]

theorem pderivV_add (S T : F[X][Y]) : pderivV (S + T) = pderivV S + pderivV T := by
  unfold pderivV; rw [derivative_add]

theorem pderivU_add (S T : F[X][Y]) : pderivU (S + T) = pderivU S + pderivU T := by
  unfold pderivU; rw [map_add, derivative_add, map_add]

theorem pderivV_zero : pderivV (0 : F[X][Y]) = 0 := by unfold pderivV; rw [derivative_zero]
theorem pderivU_zero : pderivU (0 : F[X][Y]) = 0 := by
  unfold pderivU; rw [map_zero, derivative_zero, map_zero]

theorem pderivV_CC_mul (a : F) (S : F[X][Y]) : pderivV (CC a * S) = CC a * pderivV S := by
  unfold pderivV CC; rw [derivative_C_mul]

theorem pderivU_CC_mul (a : F) (S : F[X][Y]) : pderivU (CC a * S) = CC a * pderivU S := by
  unfold pderivU CC
  rw [map_mul, Bivariate.swap_C_C, derivative_C_mul, map_mul, Bivariate.swap_C_C]

theorem pderivV_sum {ι : Type} (s : Finset ι) (f : ι → F[X][Y]) :
    pderivV (∑ i ∈ s, f i) = ∑ i ∈ s, pderivV (f i) := by
  unfold pderivV; rw [derivative_sum]

theorem pderivU_sum {ι : Type} (s : Finset ι) (f : ι → F[X][Y]) :
    pderivU (∑ i ∈ s, f i) = ∑ i ∈ s, pderivU (f i) := by
  unfold pderivU; rw [map_sum, derivative_sum, map_sum]

/-- `∂/∂u` is the coefficientwise derivative: the coefficient of `vⁿ` of `∂S/∂u` is the derivative
    of the coefficient (a polynomial in `u`) of `vⁿ` of `S` -/
theorem coeff_pderivU (S : F[X][Y]) (n : ℕ) : (pderivU S).coeff n = derivative (S.coeff n) := by
  induction S using Polynomial.induction_on' with
  | add p q hp hq => rw [pderivU_add, coeff_add, coeff_add, derivative_add, hp, hq]
  | monomial m a =>
    have h : ∀ b : F[X], (monomial m b : F[X][Y]) = tens b (X ^ m) := by
      intro b
      unfold tens
      rw [Polynomial.map_pow, map_X, C_mul_X_pow_eq_monomial]
    rw [h a, pderivU_tens, ← h, ← h, coeff_monomial, coeff_monomial]
    split <;> simp

/-- `∂/∂v` on coefficients: the usual `(n+1) · a_{n+1}` -/
theorem coeff_pderivV (S : F[X][Y]) (n : ℕ) : (pderivV S).coeff n = S.coeff (n+1) * ((n : F[X]) + 1) := by
  unfold pderivV; rw [coeff_derivative]

theorem pderivV_iterate_tens (f g : F[X]) : ∀ l, pderivV^[l] (tens f g) = tens f (derivative^[l] g)
  | 0 => rfl
  | l+1 => by rw [Function.iterate_succ_apply', pderivV_iterate_tens f g l, pderivV_tens,
      Function.iterate_succ_apply']

theorem pderivU_iterate_tens (f g : F[X]) : ∀ k, pderivU^[k] (tens f g) = tens (derivative^[k] f) g
  | 0 => rfl
  | k+1 => by rw [Function.iterate_succ_apply', pderivU_iterate_tens f g k, pderivU_tens,
      Function.iterate_succ_apply']

theorem pderivV_iterate_sum {ι : Type} (s : Finset ι) (f : ι → F[X][Y]) : ∀ l,
    pderivV^[l] (∑ i ∈ s, f i) = ∑ i ∈ s, pderivV^[l] (f i)
  | 0 => rfl
  | l+1 => by
    rw [Function.iterate_succ_apply', pderivV_iterate_sum s f l, pderivV_sum]
    simp only [Function.iterate_succ_apply']

theorem pderivU_iterate_sum {ι : Type} (s : Finset ι) (f : ι → F[X][Y]) : ∀ k,
    pderivU^[k] (∑ i ∈ s, f i) = ∑ i ∈ s, pderivU^[k] (f i)
  | 0 => rfl
  | k+1 => by
    rw [Function.iterate_succ_apply', pderivU_iterate_sum s f k, pderivU_sum]
    simp only [Function.iterate_succ_apply']

theorem pderivV_iterate_CC_mul (a : F) (S : F[X][Y]) : ∀ l, pderivV^[l] (CC a * S) = CC a * pderivV^[l] S
  | 0 => rfl
  | l+1 => by rw [Function.iterate_succ_apply', pderivV_iterate_CC_mul a S l, pderivV_CC_mul,
      Function.iterate_succ_apply']

theorem pderivU_iterate_CC_mul (a : F) (S : F[X][Y]) : ∀ k, pderivU^[k] (CC a * S) = CC a * pderivU^[k] S
  | 0 => rfl
  | k+1 => by rw [Function.iterate_succ_apply', pderivU_iterate_CC_mul a S k, pderivU_CC_mul,
      Function.iterate_succ_apply']

theorem evalEval_tens (u v : F) (f g : F[X]) : (tens f g).evalEval u v = eval u f * eval v g := by
  unfold tens
  rw [evalEval_mul, evalEval_C, evalEval_map_C]

/-- the two partial derivatives commute on sums of products -/
theorem pderiv_comm_tens (f g : F[X]) : pderivU (pderivV (tens f g)) = pderivV (pderivU (tens f g)) := by
  rw [pderivV_tens, pderivU_tens, pderivU_tens, pderivV_tens]

/-! ### the bivariate span polynomial of a surface -/

/-- the coordinate `j` of the surface on the span rectangle `[Uu κu, Uu (κu+1)) × [Uv κv, Uv (κv+1))`
    as a polynomial in `u` (inner) and `v` (outer): `Σ_r Σ_s P[r][s] · N_r(u) · M_s(v)` with the
    basis polynomials of the two spans; flat control net layout `v + sv * u` -/
noncomputable def surfSpanPoly (pu pv : ℕ) (Uu Uv : ℕ → F) (sv : ℕ) (P : List (List F)) (κu κv j : ℕ) : F[X][Y] :=
  ∑ r ∈ range (pu+1), ∑ s ∈ range (pv+1),
    CC ((ptsGet P (κv - pv + s + sv * (κu - pu + r))).getD j 0)
      * tens (basisSpanPoly pu Uu κu r) (basisSpanPoly pv Uv κv s)

/-- mixed partial derivatives of the span polynomial, term by term -/
theorem surfSpanPoly_pderiv (pu pv : ℕ) (Uu Uv : ℕ → F) (sv : ℕ) (P : List (List F)) (κu κv j k l : ℕ) :
    pderivU^[k] (pderivV^[l] (surfSpanPoly pu pv Uu Uv sv P κu κv j))
      = ∑ r ∈ range (pu+1), ∑ s ∈ range (pv+1),
          CC ((ptsGet P (κv - pv + s + sv * (κu - pu + r))).getD j 0)
            * tens (derivative^[k] (basisSpanPoly pu Uu κu r)) (derivative^[l] (basisSpanPoly pv Uv κv s)) := by
  unfold surfSpanPoly
  rw [pderivV_iterate_sum, pderivU_iterate_sum]
  apply Finset.sum_congr rfl
  intro r _
  rw [pderivV_iterate_sum, pderivU_iterate_sum]
  apply Finset.sum_congr rfl
  intro s _
  rw [pderivV_iterate_CC_mul, pderivU_iterate_CC_mul, pderivV_iterate_tens, pderivU_iterate_tens]

/-- … and their values -/
theorem evalEval_surfSpanPoly_pderiv (pu pv : ℕ) (Uu Uv : ℕ → F) (sv : ℕ) (P : List (List F)) (κu κv j k l : ℕ)
    (u v : F) :
    (pderivU^[k] (pderivV^[l] (surfSpanPoly pu pv Uu Uv sv P κu κv j))).evalEval u v
      = ∑ r ∈ range (pu+1), ∑ s ∈ range (pv+1),
          (ptsGet P (κv - pv + s + sv * (κu - pu + r))).getD j 0
            * (eval u (derivative^[k] (basisSpanPoly pu Uu κu r)) * eval v (derivative^[l] (basisSpanPoly pv Uv κv s))) := by
  rw [surfSpanPoly_pderiv, evalEval_finsetSum]
  apply Finset.sum_congr rfl
  intro r _
  rw [evalEval_finsetSum]
  apply Finset.sum_congr rfl
  intro s _
  rw [evalEval_mul, evalEval_CC, evalEval_tens]

/-- the order of differentiation does not matter -/
theorem surfSpanPoly_pderiv_comm (pu pv : ℕ) (Uu Uv : ℕ → F) (sv : ℕ) (P : List (List F)) (κu κv j k l : ℕ) :
    pderivV^[l] (pderivU^[k] (surfSpanPoly pu pv Uu Uv sv P κu κv j))
      = pderivU^[k] (pderivV^[l] (surfSpanPoly pu pv Uu Uv sv P κu κv j)) := by
  rw [surfSpanPoly_pderiv]
  unfold surfSpanPoly
  rw [pderivU_iterate_sum, pderivV_iterate_sum]
  apply Finset.sum_congr rfl
  intro r _
  rw [pderivU_iterate_sum, pderivV_iterate_sum]
  apply Finset.sum_congr rfl
  intro s _
  rw [pderivU_iterate_CC_mul, pderivV_iterate_CC_mul, pderivU_iterate_tens, pderivV_iterate_tens]

end Geomdl
