import NurbsVerif.Lemmas.KnotRowsRemVol

/-! List-of-rows branches, part 10: volumes, insertion through the rows followed by removal through the
    rows – the result is exactly the net of `r - t` insertions, in each of the three directions. -/
namespace Geomdl
namespace Rows
open RemInv Blossom
variable {K : Type} [Field K] [LinearOrder K] [IsStrictOrderedRing K]

section vol
variable (Ul : List K) (P : List (List K)) (ub : K) (p r t s k d su sv sw : ℕ) (tol2 : K)
  (hP : NetOk d P) (hlenP : P.length = su * sv * sw) (hsu : 0 < su) (hsv : 0 < sv) (hsw : 0 < sw)
  (hm : Monotone (fnOf Ul)) (hlen : k + 1 < Ul.length)
  (hk2 : ub < fnOf Ul (k + 1)) (hs : fnOf Ul (k - s) < ub)
  (ht1 : 1 ≤ t) (htr : t ≤ r) (hrs : r + s ≤ p) (hpk : p ≤ k) (htol : 0 ≤ tol2)
include hP hlenP hsu hsv hsw hm hlen hk2 hs ht1 htr hrs hpk htol

theorem volU_rows_remove_t_of_r (hk : k < su) :
    mapVolRows 0 (su + r) sv sw
        (mapVolRows 0 su sv sw P (fun R => knotInsertionRows p (fnOf Ul) R ub r s k)).1
        (fun R => knotRemovalRows p (fnOf (knotInsertionKv Ul ub k r)) R ub t (s + r) (k + r) tol2)
      = mapVol 0 su sv sw P (fun c => knotInsertion p (fnOf Ul) c ub (r - t) s k) := by
  rw [mapVolRows_insert 0 su sv sw p (fnOf Ul) P ub r s k hsu hsv hsw (by omega) hpk (by simpa using hk) hrs]
  rw [← volU_remove_t_of_r Ul P ub p r t s k d su sv sw tol2 hP hlenP hsu hsv hsw hm hlen hk2 hs ht1 htr hrs hpk htol hk]
  apply mapVolRows_remove 0 _ _ _ _ _ _ _ _ _ _ _ (by omega) hsv hsw (by omega) (by omega) (by omega) (by omega)
    (by simp; omega)
  intro c hc
  rw [volRows_headD_length 0 _ _ _ (by omega) (by omega) hsv hsw] at hc
  have hc' : c < sw * sv := by simpa [Nat.mul_comm] using hc
  obtain ⟨h1, h2, h3⟩ := flatIdx2_divmod hc'
  unfold flatIdx2 at h3
  rw [← h3, isoCol_volRows0 _ _ _ _ _ _ h2 h1,
    lineU_mapVol0 su sv sw (su + r) P _ hsv hsw (by intro v w _ _; rw [knotInsertion_length]; simp [lineU]) _ _ h2 h1]
  exact allRemovable_inserted p Ul _ ub r t s k d tol2 (lineU_netOk su sv sw d P hP hlenP _ _ h2 h1) hm hlen hk2 hs
    htr hrs hpk (by simp [lineU]; exact hk) htol

theorem volV_rows_remove_t_of_r (hk : k < sv) :
    mapVolRows 1 su (sv + r) sw
        (mapVolRows 1 su sv sw P (fun R => knotInsertionRows p (fnOf Ul) R ub r s k)).1
        (fun R => knotRemovalRows p (fnOf (knotInsertionKv Ul ub k r)) R ub t (s + r) (k + r) tol2)
      = mapVol 1 su sv sw P (fun c => knotInsertion p (fnOf Ul) c ub (r - t) s k) := by
  rw [mapVolRows_insert 1 su sv sw p (fnOf Ul) P ub r s k hsu hsv hsw (by omega) hpk (by simpa using hk) hrs]
  rw [← volV_remove_t_of_r Ul P ub p r t s k d su sv sw tol2 hP hlenP hsu hsv hsw hm hlen hk2 hs ht1 htr hrs hpk htol hk]
  apply mapVolRows_remove 1 _ _ _ _ _ _ _ _ _ _ _ hsu (by omega) hsw (by omega) (by omega) (by omega) (by omega)
    (by simp; omega)
  intro c hc
  rw [volRows_headD_length 1 _ _ _ (by omega) hsu (by omega) hsw] at hc
  have hc' : c < sw * su := by simpa [Nat.mul_comm] using hc
  obtain ⟨h1, h2, h3⟩ := flatIdx2_divmod hc'
  unfold flatIdx2 at h3
  rw [← h3, isoCol_volRows1 _ _ _ _ _ _ h2 h1,
    lineV_mapVol1 su sv sw (sv + r) P _ hsu hsw (by intro a w _ _; rw [knotInsertion_length]; simp [lineV]) _ _ h2 h1]
  exact allRemovable_inserted p Ul _ ub r t s k d tol2 (lineV_netOk su sv sw d P hP hlenP _ _ h2 h1) hm hlen hk2 hs
    htr hrs hpk (by simp [lineV]; exact hk) htol

theorem volW_rows_remove_t_of_r (hk : k < sw) :
    mapVolRows 2 su sv (sw + r)
        (mapVolRows 2 su sv sw P (fun R => knotInsertionRows p (fnOf Ul) R ub r s k)).1
        (fun R => knotRemovalRows p (fnOf (knotInsertionKv Ul ub k r)) R ub t (s + r) (k + r) tol2)
      = mapVol 2 su sv sw P (fun c => knotInsertion p (fnOf Ul) c ub (r - t) s k) := by
  rw [mapVolRows_insert 2 su sv sw p (fnOf Ul) P ub r s k hsu hsv hsw (by omega) hpk (by simpa using hk) hrs]
  rw [← volW_remove_t_of_r Ul P ub p r t s k d su sv sw tol2 hP hlenP hsu hsv hsw hm hlen hk2 hs ht1 htr hrs hpk htol
    2 (le_refl _) hk]
  apply mapVolRows_remove 2 _ _ _ _ _ _ _ _ _ _ _ hsu hsv (by omega) (by omega) (by omega) (by omega) (by omega)
    (by simp; omega)
  intro c hc
  rw [volRows_headD_length 2 _ _ _ (by omega) hsu hsv (by omega)] at hc
  have hc' : c < su * sv := by simpa using hc
  obtain ⟨h1, h2, h3⟩ := flatIdx2_divmod hc'
  unfold flatIdx2 at h3
  rw [← h3, isoCol_volRows2 _ _ _ _ (le_refl _) _ _ _ h1 h2,
    lineW_mapVol2 2 su sv sw (sw + r) (le_refl _) P _ hsu hsv
      (by intro a v _ _; rw [knotInsertion_length]; simp [lineW]) _ _ h1 h2]
  exact allRemovable_inserted p Ul _ ub r t s k d tol2 (lineW_netOk su sv sw d P hP hlenP _ _ h1 h2) hm hlen hk2 hs
    htr hrs hpk (by simp [lineW]; exact hk) htol

end vol
end Rows
end Geomdl
