import NurbsVerif.Lemmas.VolLift
import NurbsVerif.Lemmas.Hull
import Mathlib.Algebra.Order.BigOperators.Ring.Finset
import Mathlib.Algebra.BigOperators.Field
import Mathlib.Algebra.Order.Field.Basic
import Mathlib.Tactic.Linarith
import Mathlib.Tactic.FieldSimp

/-! Convex hull and bounding box for volumes (and, uniformly, curves and surfaces): every evaluated
    point is a convex combination – over the product index set of the active control points, with the
    tensor-product coefficients `Nu_a · Nv_b · Nw_c ≥ 0`, `Σ = 1` – of the active control points; the
    `utilities.evaluate_bounding_box` scan bounds every control point. -/
namespace Geomdl
open Blossom Finset
variable {K : Type} [Field K] [LinearOrder K] [IsStrictOrderedRing K]

/-! ### convex combinations over an arbitrary finite index set -/
section Generic
variable {ι : Type}

theorem convex_bounds_fin (s : Finset ι) (c f : ι → K) (lo hi : K) (hc1 : ∑ i ∈ s, c i = 1)
    (hc0 : ∀ i ∈ s, 0 ≤ c i) (hlo : ∀ i ∈ s, lo ≤ f i) (hhi : ∀ i ∈ s, f i ≤ hi) :
    lo ≤ ∑ i ∈ s, c i * f i ∧ ∑ i ∈ s, c i * f i ≤ hi := by
  constructor
  · have h1 : ∑ i ∈ s, c i * lo ≤ ∑ i ∈ s, c i * f i :=
      sum_le_sum (fun i hi' => mul_le_mul_of_nonneg_left (hlo i hi') (hc0 i hi'))
    have h2 : ∑ i ∈ s, c i * lo = lo := by rw [← sum_mul, hc1, one_mul]
    linarith
  · have h1 : ∑ i ∈ s, c i * f i ≤ ∑ i ∈ s, c i * hi :=
      sum_le_sum (fun i hi' => mul_le_mul_of_nonneg_left (hhi i hi') (hc0 i hi'))
    have h2 : ∑ i ∈ s, c i * hi = hi := by rw [← sum_mul, hc1, one_mul]
    linarith

/-- a convex combination of positive numbers is positive -/
theorem convex_pos_fin (s : Finset ι) (c w : ι → K) (hc1 : ∑ i ∈ s, c i = 1)
    (hc0 : ∀ i ∈ s, 0 ≤ c i) (hw : ∀ i ∈ s, 0 < w i) : 0 < ∑ i ∈ s, c i * w i := by
  have hnn : ∀ i ∈ s, 0 ≤ c i * w i := fun i hi => mul_nonneg (hc0 i hi) (le_of_lt (hw i hi))
  by_contra h
  have hz : ∑ i ∈ s, c i * w i = 0 := le_antisymm (not_lt.mp h) (sum_nonneg hnn)
  have hall := (sum_eq_zero_iff_of_nonneg hnn).mp hz
  have : ∑ i ∈ s, c i = 0 := by
    apply sum_eq_zero; intro i hi
    rcases mul_eq_zero.mp (hall i hi) with h0 | h0
    · exact h0
    · exact absurd h0 (ne_of_gt (hw i hi))
  rw [hc1] at this; exact one_ne_zero this

theorem linear_comb_fin (s : Finset ι) (m : ℕ) (c : ι → K) (H : ι → ℕ → K) (A : ℕ → K) :
    ∑ l ∈ range m, A l * (∑ i ∈ s, c i * H i l) = ∑ i ∈ s, c i * ∑ l ∈ range m, A l * H i l := by
  simp only [Finset.mul_sum]
  rw [Finset.sum_comm]
  apply Finset.sum_congr rfl; intro i _
  apply Finset.sum_congr rfl; intro l _
  ring

/-- **hull, every separating direction** for a point given as a convex combination -/
theorem hull_of_repr (s : Finset ι) (c : ι → K) (hc1 : ∑ i ∈ s, c i = 1) (hc0 : ∀ i ∈ s, 0 ≤ c i)
    (d : ℕ) (X : ℕ → K) (H : ι → ℕ → K) (hX : ∀ l, l < d → X l = ∑ i ∈ s, c i * H i l)
    (A : ℕ → K) (lo hi : K)
    (hlo : ∀ i ∈ s, lo ≤ ∑ l ∈ range d, A l * H i l) (hhi : ∀ i ∈ s, ∑ l ∈ range d, A l * H i l ≤ hi) :
    lo ≤ ∑ l ∈ range d, A l * X l ∧ ∑ l ∈ range d, A l * X l ≤ hi := by
  have e : ∑ l ∈ range d, A l * X l = ∑ i ∈ s, c i * ∑ l ∈ range d, A l * H i l := by
    rw [← linear_comb_fin]
    apply Finset.sum_congr rfl; intro l hl
    rw [hX l (Finset.mem_range.mp hl)]
  rw [e]
  exact convex_bounds_fin s c _ lo hi hc1 hc0 hlo hhi

/-- **rational hull**: homogeneous combination `X = Σ c_i H_i` with positive weights `H_i d`;
    the projected point `X_l / X_d` lies between any bounds of the functional on the projected
    control points `H_i l / H_i d` (its coefficients are `c_i w_i / Σ c_j w_j`) -/
theorem rat_hull_of_repr (s : Finset ι) (c : ι → K) (hc1 : ∑ i ∈ s, c i = 1) (hc0 : ∀ i ∈ s, 0 ≤ c i)
    (d : ℕ) (X : ℕ → K) (H : ι → ℕ → K) (hX : ∀ l, l ≤ d → X l = ∑ i ∈ s, c i * H i l)
    (hw : ∀ i ∈ s, 0 < H i d) (A : ℕ → K) (lo hi : K)
    (hlo : ∀ i ∈ s, lo ≤ ∑ l ∈ range d, A l * (H i l / H i d))
    (hhi : ∀ i ∈ s, ∑ l ∈ range d, A l * (H i l / H i d) ≤ hi) :
    0 < X d ∧ lo ≤ ∑ l ∈ range d, A l * (X l / X d) ∧ ∑ l ∈ range d, A l * (X l / X d) ≤ hi := by
  have hpos : 0 < X d := by
    rw [hX d le_rfl]; exact convex_pos_fin s c (fun i => H i d) hc1 hc0 hw
  have e1 : ∑ l ∈ range d, A l * (X l / X d) = (∑ l ∈ range d, A l * X l) / X d := by
    rw [Finset.sum_div]
    apply Finset.sum_congr rfl; intro l _
    rw [mul_div_assoc]
  have e2 : ∑ l ∈ range d, A l * X l = ∑ i ∈ s, c i * ∑ l ∈ range d, A l * H i l := by
    rw [← linear_comb_fin]
    apply Finset.sum_congr rfl; intro l hl
    rw [hX l (le_of_lt (Finset.mem_range.mp hl))]
  have e3 : ∀ i ∈ s, ∑ l ∈ range d, A l * H i l = H i d * ∑ l ∈ range d, A l * (H i l / H i d) := by
    intro i hmem
    rw [Finset.mul_sum]
    apply Finset.sum_congr rfl; intro l _
    have hne : H i d ≠ 0 := ne_of_gt (hw i hmem)
    field_simp
  refine ⟨hpos, ?_, ?_⟩
  · rw [e1, le_div_iff₀ hpos, e2, hX d le_rfl, Finset.mul_sum]
    apply Finset.sum_le_sum
    intro i hmem
    rw [e3 i hmem]
    have h := mul_le_mul_of_nonneg_left (hlo i hmem) (mul_nonneg (hc0 i hmem) (le_of_lt (hw i hmem)))
    calc lo * (c i * H i d) = c i * H i d * lo := by ring
      _ ≤ c i * H i d * ∑ l ∈ range d, A l * (H i l / H i d) := h
      _ = c i * (H i d * ∑ l ∈ range d, A l * (H i l / H i d)) := by ring
  · rw [e1, div_le_iff₀ hpos, e2, hX d le_rfl, Finset.mul_sum]
    apply Finset.sum_le_sum
    intro i hmem
    rw [e3 i hmem]
    have h := mul_le_mul_of_nonneg_left (hhi i hmem) (mul_nonneg (hc0 i hmem) (le_of_lt (hw i hmem)))
    calc c i * (H i d * ∑ l ∈ range d, A l * (H i l / H i d))
        = c i * H i d * ∑ l ∈ range d, A l * (H i l / H i d) := by ring
      _ ≤ c i * H i d * hi := h
      _ = hi * (c i * H i d) := by ring

end Generic

/-! ### nested sums over ranges as sums over product index sets; tensor coefficients -/

theorem nested2_eq_prod (n m : ℕ) (x y : ℕ → K) (F : ℕ → ℕ → K) :
    ∑ a ∈ range n, x a * ∑ b ∈ range m, y b * F a b
      = ∑ i ∈ range n ×ˢ range m, (x i.1 * y i.2) * F i.1 i.2 := by
  rw [Finset.sum_product]
  apply Finset.sum_congr rfl; intro a _
  rw [Finset.mul_sum]
  apply Finset.sum_congr rfl; intro b _
  ring

theorem nested3_eq_prod (n m q : ℕ) (x y z : ℕ → K) (F : ℕ → ℕ → ℕ → K) :
    ∑ a ∈ range n, x a * ∑ b ∈ range m, y b * ∑ c ∈ range q, z c * F a b c
      = ∑ i ∈ range n ×ˢ (range m ×ˢ range q), (x i.1 * y i.2.1 * z i.2.2) * F i.1 i.2.1 i.2.2 := by
  rw [Finset.sum_product]
  apply Finset.sum_congr rfl; intro a _
  rw [Finset.sum_product, Finset.mul_sum]
  apply Finset.sum_congr rfl; intro b _
  rw [Finset.mul_sum, Finset.mul_sum]
  apply Finset.sum_congr rfl; intro c _
  ring

/-- the tensor-product coefficients of two convex coefficient families sum to one -/
theorem prod2_coeff_sum (n m : ℕ) (x y : ℕ → K) (hx : ∑ a ∈ range n, x a = 1) (hy : ∑ b ∈ range m, y b = 1) :
    ∑ i ∈ range n ×ˢ range m, x i.1 * y i.2 = 1 := by
  have h := nested2_eq_prod n m x y (fun _ _ => 1)
  simp only [mul_one] at h
  rw [← h, hy]
  simp only [mul_one]
  exact hx

/-- the triple tensor-product coefficients sum to one -/
theorem prod3_coeff_sum (n m q : ℕ) (x y z : ℕ → K) (hx : ∑ a ∈ range n, x a = 1) (hy : ∑ b ∈ range m, y b = 1)
    (hz : ∑ c ∈ range q, z c = 1) :
    ∑ i ∈ range n ×ˢ (range m ×ˢ range q), x i.1 * y i.2.1 * z i.2.2 = 1 := by
  have h := nested3_eq_prod n m q x y z (fun _ _ _ => 1)
  simp only [mul_one] at h
  rw [← h, hz]
  simp only [mul_one]
  rw [hy]
  simp only [mul_one]
  exact hx

/-! ### the evaluated points as convex combinations of the active control points -/

/-- **curve point = convex combination** of the `p+1` active control points -/
theorem curvePointAt_convex (p : ℕ) (U : ℕ → K) (P : List (List K)) (k : ℕ) (u : K) (d : ℕ)
    (h : SpanOk U k u) (hp : p ≤ k) (hk : k < P.length) (hP : NetOk d P) :
    (∑ r ∈ range (p+1), (basisFuns p U k u).getD r 0 = 1) ∧
    (∀ r ∈ range (p+1), 0 ≤ (basisFuns p U k u).getD r 0) ∧
    ∀ l, (curvePointAt p U P k u).getD l 0
      = ∑ r ∈ range (p+1), (basisFuns p U k u).getD r 0 * (ptsGet P (k - p + r)).getD l 0 :=
  ⟨basisFuns_sum_range p h, fun r hr => basisFuns_getD_nonneg p h r (Finset.mem_range.mp hr),
   fun l => curvePointAt_sum p U P k u d l hp hk hP⟩

/-- **surface point = convex combination** of the `(pu+1)(pv+1)` active control points with the
    tensor-product coefficients `Nu_a · Nv_b` -/
theorem surfacePointAt_convex (pu pv : ℕ) (Uu Uv : ℕ → K) (su sv : ℕ) (P : List (List K)) (ku kv : ℕ) (u v : K) (d : ℕ)
    (hu : SpanOk Uu ku u) (hv : SpanOk Uv kv v)
    (hpu : pu ≤ ku) (hpv : pv ≤ kv) (hku : ku < su) (hkv : kv < sv) (hlen : P.length = su * sv) (hP : NetOk d P) :
    (∑ i ∈ range (pu+1) ×ˢ range (pv+1), (basisFuns pu Uu ku u).getD i.1 0 * (basisFuns pv Uv kv v).getD i.2 0 = 1) ∧
    (∀ i ∈ range (pu+1) ×ˢ range (pv+1), 0 ≤ (basisFuns pu Uu ku u).getD i.1 0 * (basisFuns pv Uv kv v).getD i.2 0) ∧
    ∀ l, (surfacePointAt pu pv Uu Uv sv P ku kv u v).getD l 0
      = ∑ i ∈ range (pu+1) ×ˢ range (pv+1), ((basisFuns pu Uu ku u).getD i.1 0 * (basisFuns pv Uv kv v).getD i.2 0) *
          (ptsGet P (kv - pv + i.2 + sv * (ku - pu + i.1))).getD l 0 := by
  refine ⟨prod2_coeff_sum _ _ _ _ (basisFuns_sum_range pu hu) (basisFuns_sum_range pv hv), ?_, ?_⟩
  · intro i hi
    simp only [Finset.mem_product, Finset.mem_range] at hi
    exact mul_nonneg (basisFuns_getD_nonneg pu hu _ hi.1) (basisFuns_getD_nonneg pv hv _ hi.2)
  · intro l
    rw [surfacePointAt_sum pu pv Uu Uv su sv P ku kv u v d l hpu hpv hku hkv hlen hP]
    exact nested2_eq_prod (pu+1) (pv+1) _ _ (fun a b => (ptsGet P (kv - pv + b + sv * (ku - pu + a))).getD l 0)

/-- **volume point = convex combination** of the `(pu+1)(pv+1)(pw+1)` active control points with
    the triple tensor-product coefficients `Nu_a · Nv_b · Nw_c` (non-negative, summing to one) -/
theorem volumePointAt_convex (pu pv pw : ℕ) (Uu Uv Uw : ℕ → K) (su sv sw : ℕ) (P : List (List K))
    (ku kv kw : ℕ) (u v w : K) (d : ℕ)
    (hu : SpanOk Uu ku u) (hv : SpanOk Uv kv v) (hw : SpanOk Uw kw w)
    (hpu : pu ≤ ku) (hpv : pv ≤ kv) (hpw : pw ≤ kw) (hku : ku < su) (hkv : kv < sv) (hkw : kw < sw)
    (hlen : P.length = su * sv * sw) (hP : NetOk d P) :
    (∑ i ∈ range (pu+1) ×ˢ (range (pv+1) ×ˢ range (pw+1)),
        (basisFuns pu Uu ku u).getD i.1 0 * (basisFuns pv Uv kv v).getD i.2.1 0 * (basisFuns pw Uw kw w).getD i.2.2 0 = 1) ∧
    (∀ i ∈ range (pu+1) ×ˢ (range (pv+1) ×ˢ range (pw+1)),
        0 ≤ (basisFuns pu Uu ku u).getD i.1 0 * (basisFuns pv Uv kv v).getD i.2.1 0 * (basisFuns pw Uw kw w).getD i.2.2 0) ∧
    ∀ l, (volumePointAt pu pv pw Uu Uv Uw su sv P ku kv kw u v w).getD l 0
      = ∑ i ∈ range (pu+1) ×ˢ (range (pv+1) ×ˢ range (pw+1)),
          ((basisFuns pu Uu ku u).getD i.1 0 * (basisFuns pv Uv kv v).getD i.2.1 0 * (basisFuns pw Uw kw w).getD i.2.2 0) *
            (ptsGet P (kv - pv + i.2.1 + sv * (ku - pu + i.1 + su * (kw - pw + i.2.2)))).getD l 0 := by
  refine ⟨prod3_coeff_sum _ _ _ _ _ _ (basisFuns_sum_range pu hu) (basisFuns_sum_range pv hv) (basisFuns_sum_range pw hw), ?_, ?_⟩
  · intro i hi
    simp only [Finset.mem_product, Finset.mem_range] at hi
    exact mul_nonneg (mul_nonneg (basisFuns_getD_nonneg pu hu _ hi.1) (basisFuns_getD_nonneg pv hv _ hi.2.1))
      (basisFuns_getD_nonneg pw hw _ hi.2.2)
  · intro l
    rw [volumePointAt_sum pu pv pw Uu Uv Uw su sv sw P ku kv kw u v w d l hpu hpv hpw hku hkv hkw hlen hP]
    exact nested3_eq_prod (pu+1) (pv+1) (pw+1) _ _ _
      (fun a b c => (ptsGet P (kv - pv + b + sv * (ku - pu + a + su * (kw - pw + c)))).getD l 0)

/-! ### hull and box for volumes (non-rational) -/

/-- **Convex hull for volumes, every separating direction** -/
theorem volumePointAt_in_hull (pu pv pw : ℕ) (Uu Uv Uw : ℕ → K) (su sv sw : ℕ) (P : List (List K))
    (ku kv kw : ℕ) (u v w : K) (d : ℕ)
    (hu : SpanOk Uu ku u) (hv : SpanOk Uv kv v) (hw : SpanOk Uw kw w)
    (hpu : pu ≤ ku) (hpv : pv ≤ kv) (hpw : pw ≤ kw) (hku : ku < su) (hkv : kv < sv) (hkw : kw < sw)
    (hlen : P.length = su * sv * sw) (hP : NetOk d P) (A : ℕ → K) (lo hi : K)
    (hlo : ∀ a b c, a ≤ pu → b ≤ pv → c ≤ pw →
      lo ≤ ∑ l ∈ range d, A l * (ptsGet P (kv - pv + b + sv * (ku - pu + a + su * (kw - pw + c)))).getD l 0)
    (hhi : ∀ a b c, a ≤ pu → b ≤ pv → c ≤ pw →
      ∑ l ∈ range d, A l * (ptsGet P (kv - pv + b + sv * (ku - pu + a + su * (kw - pw + c)))).getD l 0 ≤ hi) :
    lo ≤ ∑ l ∈ range d, A l * (volumePointAt pu pv pw Uu Uv Uw su sv P ku kv kw u v w).getD l 0 ∧
      ∑ l ∈ range d, A l * (volumePointAt pu pv pw Uu Uv Uw su sv P ku kv kw u v w).getD l 0 ≤ hi := by
  obtain ⟨h1, h0, hX⟩ := volumePointAt_convex pu pv pw Uu Uv Uw su sv sw P ku kv kw u v w d hu hv hw hpu hpv hpw hku hkv hkw hlen hP
  apply hull_of_repr _ _ h1 h0 d (fun l => (volumePointAt pu pv pw Uu Uv Uw su sv P ku kv kw u v w).getD l 0)
    (fun i l => (ptsGet P (kv - pv + i.2.1 + sv * (ku - pu + i.1 + su * (kw - pw + i.2.2)))).getD l 0)
    (fun l _ => hX l) A lo hi
  · intro i hi'
    simp only [Finset.mem_product, Finset.mem_range] at hi'
    exact hlo i.1 i.2.1 i.2.2 (by omega) (by omega) (by omega)
  · intro i hi'
    simp only [Finset.mem_product, Finset.mem_range] at hi'
    exact hhi i.1 i.2.1 i.2.2 (by omega) (by omega) (by omega)

/-- every coordinate of the volume point lies between any bounds of that coordinate on the net -/
theorem volumePointAt_in_box (pu pv pw : ℕ) (Uu Uv Uw : ℕ → K) (su sv sw : ℕ) (P : List (List K))
    (ku kv kw : ℕ) (u v w : K) (d j : ℕ)
    (hu : SpanOk Uu ku u) (hv : SpanOk Uv kv v) (hw : SpanOk Uw kw w)
    (hpu : pu ≤ ku) (hpv : pv ≤ kv) (hpw : pw ≤ kw) (hku : ku < su) (hkv : kv < sv) (hkw : kw < sw)
    (hlen : P.length = su * sv * sw) (hP : NetOk d P) (lo hi : K)
    (hlo : ∀ i, i < P.length → lo ≤ (ptsGet P i).getD j 0) (hhi : ∀ i, i < P.length → (ptsGet P i).getD j 0 ≤ hi) :
    lo ≤ (volumePointAt pu pv pw Uu Uv Uw su sv P ku kv kw u v w).getD j 0 ∧
      (volumePointAt pu pv pw Uu Uv Uw su sv P ku kv kw u v w).getD j 0 ≤ hi := by
  obtain ⟨h1, h0, hX⟩ := volumePointAt_convex pu pv pw Uu Uv Uw su sv sw P ku kv kw u v w d hu hv hw hpu hpv hpw hku hkv hkw hlen hP
  rw [hX j]
  apply convex_bounds_fin _ _ _ lo hi h1 h0
  · intro i hi'
    simp only [Finset.mem_product, Finset.mem_range] at hi'
    exact hlo _ (by rw [hlen]; exact vol_idx_lt su sv sw _ _ _ (by omega) (by omega) (by omega))
  · intro i hi'
    simp only [Finset.mem_product, Finset.mem_range] at hi'
    exact hhi _ (by rw [hlen]; exact vol_idx_lt su sv sw _ _ _ (by omega) (by omega) (by omega))

/-- the same for surfaces -/
theorem surfacePointAt_in_box (pu pv : ℕ) (Uu Uv : ℕ → K) (su sv : ℕ) (P : List (List K)) (ku kv : ℕ) (u v : K) (d j : ℕ)
    (hu : SpanOk Uu ku u) (hv : SpanOk Uv kv v)
    (hpu : pu ≤ ku) (hpv : pv ≤ kv) (hku : ku < su) (hkv : kv < sv) (hlen : P.length = su * sv) (hP : NetOk d P)
    (lo hi : K)
    (hlo : ∀ i, i < P.length → lo ≤ (ptsGet P i).getD j 0) (hhi : ∀ i, i < P.length → (ptsGet P i).getD j 0 ≤ hi) :
    lo ≤ (surfacePointAt pu pv Uu Uv sv P ku kv u v).getD j 0 ∧ (surfacePointAt pu pv Uu Uv sv P ku kv u v).getD j 0 ≤ hi := by
  obtain ⟨h1, h0, hX⟩ := surfacePointAt_convex pu pv Uu Uv su sv P ku kv u v d hu hv hpu hpv hku hkv hlen hP
  have hidx : ∀ a c, a < su → c < sv → c + sv * a < P.length := by
    intro a c ha hc
    rw [hlen]
    calc c + sv * a < sv + sv * a := by omega
      _ = sv * (a + 1) := by ring
      _ ≤ sv * su := Nat.mul_le_mul_left _ (by omega)
      _ = su * sv := by ring
  rw [hX j]
  apply convex_bounds_fin _ _ _ lo hi h1 h0
  · intro i hi'
    simp only [Finset.mem_product, Finset.mem_range] at hi'
    exact hlo _ (hidx _ _ (by omega) (by omega))
  · intro i hi'
    simp only [Finset.mem_product, Finset.mem_range] at hi'
    exact hhi _ (hidx _ _ (by omega) (by omega))

end Geomdl
