import NurbsVerif.Lemmas.RefineCount
import Mathlib.Data.List.Nodup

/-! The list `X` that `helpers.knot_refinement` computes: `sorted(set(·))`, the density loop and the
    `p - s` copies.  Strict sortedness, bounds and membership of the bisected knot list; the number
    of copies of every value in `X`. -/
namespace Geomdl
open Blossom
variable {K : Type} [Field K] [LinearOrder K] [IsStrictOrderedRing K]

/-! ### `sorted(set(l))` -/

theorem mem_insertSorted (x y : K) : ∀ (l : List K), y ∈ insertSorted x l ↔ y = x ∨ y ∈ l
  | [] => by simp [insertSorted]
  | a :: l => by
    unfold insertSorted
    split_ifs with h
    · simp
    · rw [List.mem_cons, mem_insertSorted x y l, List.mem_cons]; tauto

theorem insertSorted_sorted (x : K) : ∀ (l : List K), l.Pairwise (· < ·) → x ∉ l →
    (insertSorted x l).Pairwise (· < ·)
  | [], _, _ => by simp [insertSorted]
  | a :: l, hs, hx => by
    unfold insertSorted
    rw [List.pairwise_cons] at hs
    have hxa : x ≠ a := fun e => hx (by simp [e])
    have hxl : x ∉ l := fun e => hx (by simp [e])
    split_ifs with h
    · have hlt : x < a := lt_of_le_of_ne h hxa
      rw [List.pairwise_cons]
      refine ⟨?_, List.pairwise_cons.mpr hs⟩
      intro b hb
      rcases List.mem_cons.mp hb with rfl | hb'
      · exact hlt
      · exact lt_trans hlt (hs.1 b hb')
    · rw [List.pairwise_cons]
      refine ⟨?_, insertSorted_sorted x l hs.2 hxl⟩
      intro b hb
      rcases (mem_insertSorted x b l).mp hb with rfl | hb'
      · exact not_le.mp h
      · exact hs.1 b hb'

theorem sortDedup_fold (l : List K) : ∀ (acc : List K), acc.Pairwise (· < ·) →
    (l.foldl (fun acc x => if acc.contains x then acc else insertSorted x acc) acc).Pairwise (· < ·) ∧
    ∀ y, y ∈ l.foldl (fun acc x => if acc.contains x then acc else insertSorted x acc) acc ↔ y ∈ acc ∨ y ∈ l := by
  induction l with
  | nil => intro acc h; simp [h]
  | cons a l ih =>
    intro acc h
    simp only [List.foldl_cons]
    by_cases ha : a ∈ acc
    · have hc : acc.contains a = true := by simpa using ha
      rw [if_pos hc]
      obtain ⟨h1, h2⟩ := ih acc h
      refine ⟨h1, fun y => ?_⟩
      rw [h2 y, List.mem_cons]
      constructor
      · rintro (h' | h')
        · exact Or.inl h'
        · exact Or.inr (Or.inr h')
      · rintro (h' | rfl | h')
        · exact Or.inl h'
        · exact Or.inl ha
        · exact Or.inr h'
    · have hc : ¬ (acc.contains a = true) := by simpa using ha
      rw [if_neg hc]
      obtain ⟨h1, h2⟩ := ih (insertSorted a acc) (insertSorted_sorted a acc h ha)
      refine ⟨h1, fun y => ?_⟩
      rw [h2 y, mem_insertSorted, List.mem_cons]; tauto

/-- `sorted(set(l))` is strictly increasing … -/
theorem sortDedup_sorted (l : List K) : (sortDedup l).Pairwise (· < ·) :=
  (sortDedup_fold l [] List.Pairwise.nil).1

/-- … and has the same members as `l` -/
theorem mem_sortDedup (l : List K) (y : K) : y ∈ sortDedup l ↔ y ∈ l := by
  have := (sortDedup_fold l [] List.Pairwise.nil).2 y
  simpa [sortDedup] using this

/-- two strictly increasing lists with the same members are equal -/
theorem sorted_ext : ∀ (l l' : List K), l.Pairwise (· < ·) → l'.Pairwise (· < ·) → (∀ y, y ∈ l ↔ y ∈ l') → l = l' := by
  intro l l' h h' hm
  have hp : l.Perm l' := (List.perm_ext_iff_of_nodup (h.imp (fun hab => ne_of_lt hab)) (h'.imp (fun hab => ne_of_lt hab))).mpr hm
  exact hp.eq_of_pairwise (fun a b _ _ hab hba => absurd hab (lt_asymm hba)) h h'

/-! ### the density loop -/

theorem midpoint_between' (a b : K) (h : a < b) : a < a + (b - a) / (1 + 1) ∧ a + (b - a) / (1 + 1) < b := by
  have h2 : (0:K) < 1 + 1 := by norm_num
  constructor
  · have : 0 < (b - a) / (1 + 1) := div_pos (by linarith) h2
    linarith
  · have : (b - a) / (1 + 1) < b - a := by
      rw [div_lt_iff₀ h2]; nlinarith
    linarith

theorem mem_densify_of_mem : ∀ (l : List K) (y : K), y ∈ l → y ∈ densify l
  | [], _, h => by simp at h
  | [a], y, h => by simpa [densify] using h
  | a :: b :: rest, y, h => by
    unfold densify
    rcases List.mem_cons.mp h with rfl | h'
    · simp
    · have := mem_densify_of_mem (b :: rest) y h'
      simp [this]

/-- every value of the bisected list lies between two values of the list -/
theorem densify_mem_between : ∀ (l : List K), l.Pairwise (· < ·) → ∀ y ∈ densify l,
    ∃ a ∈ l, ∃ b ∈ l, a ≤ y ∧ y ≤ b
  | [], _, y, h => by simp [densify] at h
  | [a], _, y, h => by
    have : y = a := by simpa [densify] using h
    exact ⟨a, by simp, a, by simp, by rw [this], by rw [this]⟩
  | a :: b :: rest, hs, y, h => by
    unfold densify at h
    rw [List.pairwise_cons] at hs
    have hab : a < b := hs.1 b (by simp)
    obtain ⟨m1, m2⟩ := midpoint_between' a b hab
    rcases List.mem_cons.mp h with rfl | h'
    · exact ⟨y, by simp, y, by simp, le_refl _, le_refl _⟩
    · rcases List.mem_cons.mp h' with rfl | h''
      · exact ⟨a, by simp, b, by simp, le_of_lt m1, le_of_lt m2⟩
      · obtain ⟨a', ha', b', hb', h1, h2⟩ := densify_mem_between (b :: rest) hs.2 y h''
        exact ⟨a', by simp [ha'], b', by simp [hb'], h1, h2⟩

theorem densify_sorted : ∀ (l : List K), l.Pairwise (· < ·) → (densify l).Pairwise (· < ·)
  | [], _ => by simp [densify]
  | [a], _ => by simp [densify]
  | a :: b :: rest, hs => by
    have ih := densify_sorted (b :: rest) (List.pairwise_cons.mp hs).2
    unfold densify
    have hs' := List.pairwise_cons.mp hs
    have hab : a < b := hs'.1 b (by simp)
    obtain ⟨m1, m2⟩ := midpoint_between' a b hab
    have hge : ∀ y ∈ densify (b :: rest), b ≤ y := by
      intro y hy
      obtain ⟨a', ha', _, _, h1, _⟩ := densify_mem_between (b :: rest) hs'.2 y hy
      rcases List.mem_cons.mp ha' with rfl | h
      · exact h1
      · exact le_trans (le_of_lt ((List.pairwise_cons.mp hs'.2).1 a' h)) h1
    rw [List.pairwise_cons, List.pairwise_cons]
    refine ⟨?_, ?_, ih⟩
    · intro y hy
      rcases List.mem_cons.mp hy with rfl | h
      · exact m1
      · exact lt_of_lt_of_le hab (hge y h)
    · intro y hy
      exact lt_of_lt_of_le m2 (hge y hy)

theorem iterate_densify_sorted : ∀ (n : ℕ) (l : List K), l.Pairwise (· < ·) → (iterate densify n l).Pairwise (· < ·)
  | 0, _, h => h
  | n+1, l, h => iterate_densify_sorted n (densify l) (densify_sorted l h)

theorem mem_iterate_densify_of_mem : ∀ (n : ℕ) (l : List K) (y : K), y ∈ l → y ∈ iterate densify n l
  | 0, _, _, h => h
  | n+1, l, y, h => mem_iterate_densify_of_mem n (densify l) y (mem_densify_of_mem l y h)

theorem iterate_densify_bounds : ∀ (n : ℕ) (l : List K), l.Pairwise (· < ·) → ∀ (lo hi : K),
    (∀ a ∈ l, lo ≤ a ∧ a ≤ hi) → ∀ y ∈ iterate densify n l, lo ≤ y ∧ y ≤ hi
  | 0, _, _, _, _, hb, y, hy => hb y hy
  | n+1, l, hs, lo, hi, hb, y, hy => by
    refine iterate_densify_bounds n (densify l) (densify_sorted l hs) lo hi ?_ y hy
    intro z hz
    obtain ⟨a, ha, b, hb', h1, h2⟩ := densify_mem_between l hs z hz
    exact ⟨le_trans (hb a ha).1 h1, le_trans h2 (hb b hb').2⟩

/-! ### the knot list (default `U[p:-p]` or explicit) and the list `X` -/

/-- `sorted(set(L))` after `density` bisection rounds -/
abbrev genKnots (L : List K) (density : ℕ) : List K := iterate densify density (sortDedup L)

/-- the list `X` built from a base list `L`: `p - s` copies of every knot of `genKnots L density` -/
abbrev genX (p : ℕ) (U L : List K) (density : ℕ) (tol : K) : List K :=
  (genKnots L density).flatMap (fun mk => List.replicate (p - findMultiplicity mk U tol) mk)

/-- the distinct knots of the domain, `sorted(set(U[p:-p]))` -/
abbrev domainKnots (p : ℕ) (U : List K) : List K := sortDedup ((U.drop p).take (U.length - 2 * p))

/-- … after `density` bisection rounds -/
abbrev refineKnots (p : ℕ) (U : List K) (density : ℕ) : List K := iterate densify density (domainKnots p U)

/-- the base list of `helpers.knot_refinement(…, knot_list=kl, add_knot_list=add)` -/
abbrev baseList (p : ℕ) (U : List K) (kl : Option (List K)) (add : List K) : List K :=
  (match kl with
    | some l => l
    | none => (U.drop p).take (U.length - 2 * p)) ++ add

theorem refineX_eq_genX (p : ℕ) (U : List K) (density : ℕ) (tol : K) :
    refineX p U density tol = genX p U ((U.drop p).take (U.length - 2 * p)) density tol := rfl

theorem refineXOf_eq_genX (p : ℕ) (U : List K) (kl : Option (List K)) (add : List K) (density : ℕ) (tol : K) :
    refineXOf p U kl add density tol = genX p U (baseList p U kl add) density tol := rfl

theorem mem_slice (p m : ℕ) (U : List K) (a : K) :
    a ∈ (U.drop p).take m ↔ ∃ i, p ≤ i ∧ i < p + m ∧ i < U.length ∧ fnOf U i = a := by
  rw [List.mem_iff_getElem]
  constructor
  · rintro ⟨j, hj, e⟩
    rw [List.length_take, List.length_drop] at hj
    rw [List.getElem_take, List.getElem_drop] at e
    exact ⟨p + j, by omega, by omega, by omega, by rw [fnOf_lt_length U (p + j) (by omega)]; exact e⟩
  · rintro ⟨i, h1, h2, h3, e⟩
    refine ⟨i - p, by rw [List.length_take, List.length_drop]; omega, ?_⟩
    rw [List.getElem_take, List.getElem_drop]
    rw [fnOf_lt_length U i h3] at e
    rw [← e]; congr 1; omega

theorem slice_bounds (p d : ℕ) (U : List K) (P : List (List K)) (hwf : CurveWF p d U P) :
    ∀ a ∈ (U.drop p).take (U.length - 2 * p), fnOf U p ≤ a ∧ a ≤ fnOf U P.length := by
  intro a ha
  rw [mem_slice] at ha
  obtain ⟨i, h1, h2, h3, e⟩ := ha
  have := hwf.len
  rw [← e]
  exact ⟨hwf.mono h1, hwf.mono (by omega)⟩

theorem genKnots_sorted (L : List K) (density : ℕ) : (genKnots L density).Pairwise (· < ·) :=
  iterate_densify_sorted density _ (sortDedup_sorted _)

theorem genKnots_bounds (L : List K) (density : ℕ) (lo hi : K) (hL : ∀ a ∈ L, lo ≤ a ∧ a ≤ hi) :
    ∀ y ∈ genKnots L density, lo ≤ y ∧ y ≤ hi := by
  apply iterate_densify_bounds density _ (sortDedup_sorted _)
  intro a ha
  rw [mem_sortDedup] at ha
  exact hL a ha

theorem refineKnots_sorted (p : ℕ) (U : List K) (density : ℕ) : (refineKnots p U density).Pairwise (· < ·) :=
  genKnots_sorted _ density

theorem refineKnots_bounds (p d : ℕ) (U : List K) (P : List (List K)) (density : ℕ) (hwf : CurveWF p d U P) :
    ∀ y ∈ refineKnots p U density, fnOf U p ≤ y ∧ y ≤ fnOf U P.length :=
  genKnots_bounds _ density _ _ (slice_bounds p d U P hwf)

theorem count_flatMap_replicate (g : K → ℕ) : ∀ (l : List K), l.Nodup → ∀ x,
    (l.flatMap (fun a => List.replicate (g a) a)).count x = if x ∈ l then g x else 0 := by
  intro l
  induction l with
  | nil => intro _ x; simp
  | cons a l ih =>
    intro hnd x
    rw [List.nodup_cons] at hnd
    rw [List.flatMap_cons, List.count_append, ih hnd.2 x, List.count_replicate]
    by_cases hxa : a = x
    · subst hxa
      simp [hnd.1]
    · have : ¬ (x = a) := fun e => hxa e.symm
      simp [hxa, this]

theorem mem_genX (p : ℕ) (U L : List K) (density : ℕ) (tol x : K) :
    x ∈ genX p U L density tol ↔ x ∈ genKnots L density ∧ findMultiplicity x U tol < p := by
  rw [List.mem_flatMap]
  constructor
  · rintro ⟨a, ha, hx⟩
    rw [List.mem_replicate] at hx
    obtain ⟨h1, rfl⟩ := hx
    exact ⟨ha, by omega⟩
  · rintro ⟨h1, h2⟩
    exact ⟨x, h1, List.mem_replicate.mpr ⟨by omega, rfl⟩⟩

theorem count_genX (p : ℕ) (U L : List K) (density : ℕ) (tol x : K) :
    (genX p U L density tol).count x
      = if x ∈ genKnots L density then p - findMultiplicity x U tol else 0 :=
  count_flatMap_replicate (fun a => p - findMultiplicity a U tol) (genKnots L density)
    ((genKnots_sorted L density).imp (fun hab => ne_of_lt hab)) x

theorem mem_refineX (p : ℕ) (U : List K) (density : ℕ) (tol x : K) :
    x ∈ refineX p U density tol ↔ x ∈ refineKnots p U density ∧ findMultiplicity x U tol < p :=
  mem_genX p U _ density tol x

theorem count_refineX (p : ℕ) (U : List K) (density : ℕ) (tol x : K) :
    (refineX p U density tol).count x
      = if x ∈ refineKnots p U density then p - findMultiplicity x U tol else 0 :=
  count_genX p U _ density tol x

/-- a knot vector that is clamped at its end has at least `p + 1` copies of the last domain knot -/
theorem count_end (p d : ℕ) (U : List K) (P : List (List K)) (hwf : CurveWF p d U P)
    (hend : ∀ i, P.length ≤ i → fnOf U i = fnOf U P.length) : p + 1 ≤ U.count (fnOf U P.length) := by
  have hlen := hwf.len
  have hsplit : ∀ x : K, U.count x = (U.take P.length).count x + (U.drop P.length).count x := by
    intro x
    conv_lhs => rw [← List.take_append_drop P.length U]
    exact List.count_append
  have hall : (U.drop P.length).count (fnOf U P.length) = (U.drop P.length).length := by
    refine (List.count_eq_length (a := fnOf U P.length) (l := U.drop P.length)).mpr ?_
    intro b hb
    obtain ⟨j, hj, e⟩ := List.mem_iff_getElem.mp hb
    rw [List.length_drop] at hj
    rw [List.getElem_drop] at e
    rw [← e, ← fnOf_lt_length U (P.length + j) (by omega)]
    exact (hend _ (by omega)).symm
  rw [hsplit (fnOf U P.length), hall, List.length_drop]; omega

/-- **the list `X` generated from any base list inside the domain is admissible**: well-formed curve,
    knot vector clamped at the end of the domain, all knots involved tolerance separated -/
theorem genX_ok (p d : ℕ) (U : List K) (P : List (List K)) (L : List K) (density : ℕ) (tol : K)
    (hwf : CurveWF p d U P) (hend : ∀ i, P.length ≤ i → fnOf U i = fnOf U P.length)
    (hL : ∀ a ∈ L, fnOf U p ≤ a ∧ a ≤ fnOf U P.length)
    (h0 : 0 ≤ tol) (hsep : SepBy tol (U ++ genKnots L density)) :
    RefineOk p tol (U, P) (genX p U L density tol) := by
  have hlen := hwf.len
  have hmulS : ∀ x, x ∈ U ++ genKnots L density → findMultiplicity x U tol = U.count x := by
    intro x hx
    exact findMultiplicity_eq_count tol h0 x U (fun y hy => hsep x hx y (by simp [hy]))
  apply refineOk_of_counts p d tol h0 (U ++ genKnots L density) hsep _ (U, P) hwf
  · intro a ha; simp [ha]
  · intro a ha
    rw [mem_genX] at ha
    exact List.mem_append_right _ ha.1
  · intro x hx
    rw [mem_genX] at hx
    obtain ⟨hb1, hb2⟩ := genKnots_bounds L density _ _ hL x hx.1
    refine ⟨hb1, lt_of_le_of_ne hb2 ?_⟩
    intro e
    have e : x = fnOf U P.length := e
    have hc := count_end p d U P hwf hend
    have hm := hmulS x (List.mem_append_right _ hx.1)
    have := hx.2
    rw [hm, e] at this
    omega
  · intro x hx
    rw [count_genX]
    rw [mem_genX] at hx
    rw [if_pos hx.1, hmulS x (List.mem_append_right _ hx.1)]
    have := hx.2
    rw [hmulS x (List.mem_append_right _ hx.1)] at this
    show U.count x + (p - U.count x) ≤ p
    omega

/-- the default list (`U[p:-p]`) -/
theorem refineX_ok (p d : ℕ) (U : List K) (P : List (List K)) (density : ℕ) (tol : K)
    (hwf : CurveWF p d U P) (hend : ∀ i, P.length ≤ i → fnOf U i = fnOf U P.length)
    (h0 : 0 ≤ tol) (hsep : SepBy tol (U ++ refineKnots p U density)) :
    RefineOk p tol (U, P) (refineX p U density tol) :=
  genX_ok p d U P _ density tol hwf hend (slice_bounds p d U P hwf) h0 hsep

/-- **Knot refinement never changes the curve** – unconditional form for the list the library
    generates (any density). -/
theorem knotRefinement_preserves_curve' (p d : ℕ) (U : List K) (P : List (List K)) (density : ℕ) (tol : K)
    (hwf : CurveWF p d U P) (hend : ∀ i, P.length ≤ i → fnOf U i = fnOf U P.length)
    (h0 : 0 ≤ tol) (hsep : SepBy tol (U ++ refineKnots p U density))
    (U' : List K) (P' : List (List K)) (h : knotRefinement p U P density tol = some (U', P'))
    (u : K) (hlo : fnOf U p ≤ u) (hhi : u ≤ fnOf U P.length) (j : ℕ) :
    (curvePoint p (fnOf U') P' u).getD j 0 = (curvePoint p (fnOf U) P u).getD j 0 := by
  unfold knotRefinement at h
  simp only [] at h
  split_ifs at h with hX
  have e := Option.some.inj h
  have e1 : U' = ((refineX p U density tol).foldl (insertOne p tol) (U, P)).1 := by rw [e]
  have e2 : P' = ((refineX p U density tol).foldl (insertOne p tol) (U, P)).2 := by rw [e]
  rw [e1, e2]
  exact refine_fold_preserves_curve p d tol _ (U, P) hwf (refineX_ok p d U P density tol hwf hend h0 hsep) u hlo hhi j

/-- the same for the helper-level call with explicit `knot_list` / `add_knot_list` inside the domain -/
theorem knotRefinementOf_preserves_curve' (p d : ℕ) (U : List K) (P : List (List K)) (kl : Option (List K))
    (add : List K) (density : ℕ) (tol : K)
    (hwf : CurveWF p d U P) (hend : ∀ i, P.length ≤ i → fnOf U i = fnOf U P.length)
    (hkl : ∀ l, kl = some l → ∀ a ∈ l, fnOf U p ≤ a ∧ a ≤ fnOf U P.length)
    (hadd : ∀ a ∈ add, fnOf U p ≤ a ∧ a ≤ fnOf U P.length)
    (h0 : 0 ≤ tol) (hsep : SepBy tol (U ++ genKnots (baseList p U kl add) density))
    (U' : List K) (P' : List (List K)) (h : knotRefinementOf p U P kl add density tol = some (U', P'))
    (u : K) (hlo : fnOf U p ≤ u) (hhi : u ≤ fnOf U P.length) (j : ℕ) :
    (curvePoint p (fnOf U') P' u).getD j 0 = (curvePoint p (fnOf U) P u).getD j 0 := by
  have hL : ∀ a ∈ baseList p U kl add, fnOf U p ≤ a ∧ a ≤ fnOf U P.length := by
    intro a ha
    rcases List.mem_append.mp ha with h' | h'
    · cases kl with
      | none => exact slice_bounds p d U P hwf a h'
      | some l => exact hkl l rfl a h'
    · exact hadd a h'
  unfold knotRefinementOf at h
  simp only [] at h
  split_ifs at h with hX
  have e := Option.some.inj h
  have e1 : U' = ((refineXOf p U kl add density tol).foldl (insertOne p tol) (U, P)).1 := by rw [e]
  have e2 : P' = ((refineXOf p U kl add density tol).foldl (insertOne p tol) (U, P)).2 := by rw [e]
  rw [e1, e2]
  exact refine_fold_preserves_curve p d tol _ (U, P) hwf
    (by rw [refineXOf_eq_genX]; exact genX_ok p d U P _ density tol hwf hend hL h0 hsep) u hlo hhi j

end Geomdl
