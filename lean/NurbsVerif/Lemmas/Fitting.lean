import NurbsVerif.Model.Fitting
import NurbsVerif.Lemmas.LinalgSolve
import NurbsVerif.Lemmas.LinalgHelpers
import NurbsVerif.Lemmas.Affine
import NurbsVerif.Lemmas.Span

/-! Global interpolation: if the LU solver returns, the curve passes through every data point. -/
namespace Geomdl
open Blossom Finset Lin
variable {K : Type} [Field K] [LinearOrder K] [IsStrictOrderedRing K]

/-- the range property of the linear span search needs no hypothesis on the knots -/
theorem findSpanLinear_range (p : ℕ) (U : ℕ → K) (n : ℕ) (u : K) (hpn : p + 1 ≤ n) :
    p ≤ findSpanLinear p U n u ∧ findSpanLinear p U n u < n := by
  obtain ⟨h1, h2, _, _⟩ := findSpanLinearAux_spec U n u (n+1) (p+1) hpn (by omega)
  unfold findSpanLinear
  constructor <;> omega

/-- a sum against a row that is zero outside the window `lo .. lo+p` -/
theorem window_sum (n lo p : ℕ) (hw : lo + p < n) (f g : ℕ → K) :
    ∑ j ∈ range n, (if lo ≤ j ∧ j ≤ lo + p then f (j - lo) else 0) * g j
      = ∑ r ∈ range (p+1), f r * g (lo + r) := by
  have hsplit : n = lo + ((p + 1) + (n - (lo + p + 1))) := by omega
  rw [hsplit, Finset.sum_range_add, Finset.sum_range_add]
  have z1 : ∑ x ∈ range lo, (if lo ≤ x ∧ x ≤ lo + p then f (x - lo) else 0) * g x = 0 := by
    apply Finset.sum_eq_zero
    intro i hi
    rw [Finset.mem_range] at hi
    rw [if_neg (by omega), zero_mul]
  have z2 : ∑ x ∈ range (n - (lo + p + 1)),
      (if lo ≤ lo + (p + 1 + x) ∧ lo + (p + 1 + x) ≤ lo + p then f (lo + (p + 1 + x) - lo) else 0) * g (lo + (p + 1 + x)) = 0 := by
    apply Finset.sum_eq_zero
    intro i _
    rw [if_neg (by omega), zero_mul]
  rw [z1, z2, zero_add, add_zero]
  apply Finset.sum_congr rfl
  intro r hr
  rw [Finset.mem_range] at hr
  rw [if_pos (by omega)]
  congr 2
  omega

/-- entry of the collocation matrix -/
theorem buildCoeffMatrix_ent (p : ℕ) (U : ℕ → K) (uk : List K) (n i j : ℕ) (hi : i < uk.length) (hj : j < n) :
    ent (buildCoeffMatrix p U uk n) i j =
      (if findSpanLinear p U n (uk.getD i 0) - p ≤ j ∧ j ≤ findSpanLinear p U n (uk.getD i 0)
        then (basisFuns p U (findSpanLinear p U n (uk.getD i 0)) (uk.getD i 0)).getD (j - (findSpanLinear p U n (uk.getD i 0) - p)) 0 else 0) := by
  unfold ent buildCoeffMatrix
  simp only [List.getD_eq_getElem?_getD, List.getElem?_map, List.getElem?_eq_getElem hi, Option.map_some,
    Option.getD_some, List.getElem?_range hj]

/-- **Global curve interpolation**: whenever `lu_solve` returns control points for the collocation
    system, the curve evaluated (A2.2/A3.1, span found by the linear search) at the `i`-th parameter
    is the `i`-th data point – for every degree, every parameter list and knot vector, any dimension. -/
theorem collocation_interpolates (p : ℕ) (U : ℕ → K) (uk : List K) (pts cp : List (List K)) (d : ℕ)
    (hn : uk.length = pts.length) (hpn : p + 1 ≤ pts.length) (hP : NetOk d pts) (hd : 0 < d)
    (h : luSolve (buildCoeffMatrix p U uk pts.length) pts = some cp) (i : ℕ) (hi : i < pts.length) (c : ℕ) (hc : c < d) :
    (curvePointAt p U cp (findSpanLinear p U pts.length (uk.getD i 0)) (uk.getD i 0)).getD c 0
      = (ptsGet pts i).getD c 0 := by
  set n := pts.length with hndef
  set A := buildCoeffMatrix p U uk n with hA
  have hAlen : A.length = n := by simp [hA, buildCoeffMatrix, hn]
  have hdim : (pts.headD []).length = d := dimOf_eq hP (by omega)
  obtain ⟨hxlen, _, hsol⟩ := luSolve_correct A pts cp (by rw [hAlen]) h
  rw [hAlen] at hxlen hsol
  have hsol' := hsol i hi c (by rw [hdim]; exact hc)
  -- shape of the solution
  have hcp : NetOk d cp := by
    unfold luSolve solveColumns at h
    simp only [] at h
    split at h
    · exact absurd h (by simp)
    · rename_i cols _
      have : cp = tabulate pts.length (pts.headD []).length (fun j i => ent cols i j) := by
        injection h with h'; exact h'.symm
      rw [this, hdim]
      exact tabulate_row_length _ _ _
  obtain ⟨hs1, hs2⟩ := findSpanLinear_range p U n (uk.getD i 0) hpn
  set k := findSpanLinear p U n (uk.getD i 0) with hk
  rw [curvePointAt_sum p U cp k (uk.getD i 0) d c hs1 (by omega) hcp]
  have hrow : ∑ j ∈ range n, ent A i j * ent cp j c
      = ∑ j ∈ range n, (if k - p ≤ j ∧ j ≤ k - p + p then (basisFuns p U k (uk.getD i 0)).getD (j - (k - p)) 0 else 0) * ent cp j c := by
    apply Finset.sum_congr rfl
    intro j hj
    rw [Finset.mem_range] at hj
    rw [hA, buildCoeffMatrix_ent p U uk n i j (by omega) hj]
    have e : k - p + p = k := by omega
    rw [e]
  rw [hrow, window_sum n (k - p) p (by omega) (fun r => (basisFuns p U k (uk.getD i 0)).getD r 0) (fun j => ent cp j c)] at hsol'
  unfold ent at hsol'
  unfold ptsGet
  exact hsol'

end Geomdl
