import NurbsVerif.Lemmas.Degree
import Mathlib.Tactic.Linarith

/-!
# Degree reduction (repaired two-sided sweep) inverts degree elevation by one

`degreeReduction (p+1) (degreeElevation p 1 P) = P` for every degree `p ≥ 1`, every dimension.

Structure: `RedHyp n Q P` collects what the sweeps need from the input polygon `Q` (the end points
of `Q` are those of `P`; one step of Eq. 5.41 from the left, resp. of Eq. 5.42 from the right,
reproduces the next point of `P`).  `degreeReduction_core` runs the two folds and the odd-degree
average under these hypotheses (loop invariants `LeftInv`, `RightInv`); `redHyp_elev` shows that an
elevation by one satisfies them.
-/
namespace Geomdl
open Finset

theorem getD_set_self {α : Type} (l : List α) (i : ℕ) (a d : α) (h : i < l.length) :
    (l.set i a).getD i d = a := by
  rw [List.getD_eq_getElem?_getD, List.getElem?_set_self h, Option.getD_some]

theorem getD_set_ne {α : Type} (l : List α) (i j : ℕ) (a d : α) (h : i ≠ j) :
    (l.set i a).getD j d = l.getD j d := by
  rw [List.getD_eq_getElem?_getD, List.getElem?_set_ne h, ← List.getD_eq_getElem?_getD]

theorem ext_getD_gen {α : Type} (d : α) {l₁ l₂ : List α} (hl : l₁.length = l₂.length)
    (h : ∀ k, k < l₁.length → l₁.getD k d = l₂.getD k d) : l₁ = l₂ := by
  apply List.ext_getElem hl
  intro k h1 h2
  have := h k h1
  rwa [getD_lt _ _ _ h1, getD_lt _ _ _ h2] at this

section
variable {K : Type} [Field K] [CharZero K]

/-- what the sweeps of `degree_reduction` need to know about the input polygon `Q` of degree `n`
    in order to return `P` -/
structure RedHyp (n : ℕ) (Q P : List (List K)) : Prop where
  n2 : 2 ≤ n
  len : P.length = n
  q0 : Q.getD 0 [] = P.getD 0 []
  qn : Q.getD n [] = P.getD (n - 1) []
  left : ∀ i, 1 ≤ i → i < n → redLeft n (Q.getD i []) (P.getD (i - 1) []) i = P.getD i []
  right : ∀ i, i + 1 < n → redRight n (Q.getD (i + 1) []) (P.getD (i + 1) []) i = P.getD i []

/-- invariant of the first sweep: points `0..a` and the last point are final -/
def LeftInv (n : ℕ) (P red : List (List K)) (a : ℕ) : Prop :=
  red.length = n ∧ (∀ j, j ≤ a → red.getD j [] = P.getD j []) ∧ red.getD (n - 1) [] = P.getD (n - 1) []

/-- invariant of the second sweep: points `0..r1` and `b..n-1` are final -/
def RightInv (n r1 : ℕ) (P red : List (List K)) (b : ℕ) : Prop :=
  red.length = n ∧ (∀ j, j ≤ r1 → red.getD j [] = P.getD j []) ∧
    (∀ j, b ≤ j → j < n → red.getD j [] = P.getD j [])

variable {n : ℕ} {Q P : List (List K)}

theorem redInit_inv (h : RedHyp n Q P) : LeftInv n P (redInit n Q) 0 := by
  have hn := h.n2
  unfold redInit
  refine ⟨by simp, ?_, ?_⟩
  · intro j hj
    have : j = 0 := by omega
    subst this
    rw [getD_set_ne _ _ _ _ _ (by omega), getD_set_self _ _ _ _ (by simp; omega), h.q0]
  · rw [getD_set_self _ _ _ _ (by simp; omega), h.qn]

theorem sweepLeftStep_inv (h : RedHyp n Q P) (red : List (List K)) (a : ℕ) (hinv : LeftInv n P red a)
    (ha : a + 2 < n) : LeftInv n P (sweepLeftStep n Q red (a + 1)) (a + 1) := by
  obtain ⟨hl, hj, hlast⟩ := hinv
  unfold sweepLeftStep
  refine ⟨by simp [hl], ?_, ?_⟩
  · intro j hja
    by_cases hje : j = a + 1
    · subst hje
      rw [getD_set_self _ _ _ _ (by omega), Nat.add_sub_cancel, hj a (le_refl a)]
      have := h.left (a + 1) (by omega) (by omega)
      rwa [Nat.add_sub_cancel] at this
    · rw [getD_set_ne _ _ _ _ _ (by omega)]
      exact hj j (by omega)
  · rw [getD_set_ne _ _ _ _ _ (by omega)]
    exact hlast

theorem sweepLeft_inv (h : RedHyp n Q P) (c : ℕ) : ∀ (a : ℕ) (red : List (List K)), LeftInv n P red a →
    a + c + 1 < n → LeftInv n P ((List.range' (a + 1) c).foldl (sweepLeftStep n Q) red) (a + c) := by
  induction c with
  | zero => intro a red hinv _; simpa using hinv
  | succ c ih =>
    intro a red hinv hc
    rw [List.range'_succ, List.foldl_cons]
    have := ih (a + 1) _ (sweepLeftStep_inv h red a hinv (by omega)) (by omega)
    have e : a + 1 + c = a + (c + 1) := by omega
    rwa [e] at this

theorem sweepRightStep_inv (h : RedHyp n Q P) (r1 : ℕ) (red : List (List K)) (i : ℕ)
    (hinv : RightInv n r1 P red (i + 1)) (hr : r1 < i) (hi : i + 1 < n) :
    RightInv n r1 P (sweepRightStep n Q red i) i := by
  obtain ⟨hl, hj, hb⟩ := hinv
  unfold sweepRightStep
  refine ⟨by simp [hl], ?_, ?_⟩
  · intro j hjr
    rw [getD_set_ne _ _ _ _ _ (by omega)]
    exact hj j hjr
  · intro j hij hjn
    by_cases hje : j = i
    · subst hje
      rw [getD_set_self _ _ _ _ (by omega), hb (j + 1) (le_refl _) hi]
      exact h.right j hi
    · rw [getD_set_ne _ _ _ _ _ (fun e => hje e.symm)]
      exact hb j (by omega) hjn

theorem sweepRight_inv (h : RedHyp n Q P) (r1 s : ℕ) (hs : r1 < s) (c : ℕ) : ∀ (red : List (List K)),
    RightInv n r1 P red (s + c) → s + c < n →
    RightInv n r1 P ((List.range' s c).reverse.foldl (sweepRightStep n Q) red) s := by
  induction c with
  | zero => intro red hinv _; simpa using hinv
  | succ c ih =>
    intro red hinv hc
    rw [List.range'_1_concat, List.reverse_append, List.reverse_singleton, List.singleton_append,
      List.foldl_cons]
    exact ih _ (sweepRightStep_inv h r1 red (s + c) hinv (by omega) (by omega)) (by omega)

theorem average_self (x : List K) : average x x = x := by
  apply ext_getD (by simp [average])
  intro k
  unfold average
  rw [getD_zipWith _ (by simp) _ _ rfl]
  have h2 : ((2 : ℕ) : K) ≠ 0 := by exact_mod_cast (two_ne_zero : (2 : ℕ) ≠ 0)
  field_simp
  push_cast
  ring

/-- the repaired two-sided sweep returns `P` whenever the input satisfies `RedHyp` -/
theorem degreeReduction_core (h : RedHyp n Q P) : degreeReduction n Q = P := by
  have hn := h.n2
  have hr1 : redR1 n = if n % 2 ≠ 0 then (n - 1) / 2 - 1 else (n - 1) / 2 := by
    unfold redR1
    simp only []
    split
    · next h2 => subst h2; rfl
    · rfl
  have hL := sweepLeft_inv h (redR1 n) 0 _ (redInit_inv h) (by rw [hr1]; split <;> omega)
  simp only [Nat.zero_add] at hL
  obtain ⟨hl1, hj1, hlast1⟩ := hL
  have hR0 : RightInv n (redR1 n) P ((List.range' 1 (redR1 n)).foldl (sweepLeftStep n Q) (redInit n Q))
      ((n - 1) / 2 + 1 + (n - 2 - (n - 1) / 2)) := by
    refine ⟨hl1, hj1, ?_⟩
    intro j hj hjn
    have : j = n - 1 := by omega
    rw [this]; exact hlast1
  have hR := sweepRight_inv h (redR1 n) ((n - 1) / 2 + 1) (by rw [hr1]; split <;> omega)
    (n - 2 - (n - 1) / 2) _ hR0 (by omega)
  obtain ⟨hl2, hj2, hb2⟩ := hR
  unfold degreeReduction
  simp only []
  by_cases hodd : n % 2 ≠ 0
  · rw [if_pos hodd]
    have hr1o : redR1 n = (n - 1) / 2 - 1 := by rw [hr1, if_pos hodd]
    unfold redMiddle
    simp only []
    apply ext_getD_gen ([] : List K) (by rw [List.length_set, hl2, h.len])
    intro j hj
    rw [List.length_set, hl2] at hj
    by_cases hje : j = (n - 1) / 2
    · rw [hje, getD_set_self _ _ _ _ (by omega), hj2 ((n - 1) / 2 - 1) (by omega),
        hb2 ((n - 1) / 2 + 1) (le_refl _) (by omega), h.left ((n - 1) / 2) (by omega) (by omega),
        h.right ((n - 1) / 2) (by omega), average_self]
    · rw [getD_set_ne _ _ _ _ _ (fun e => hje e.symm)]
      by_cases hlt : j < (n - 1) / 2
      · exact hj2 j (by omega)
      · exact hb2 j (by omega) hj
  · rw [if_neg hodd]
    have hr1e : redR1 n = (n - 1) / 2 := by rw [hr1, if_neg hodd]
    apply ext_getD_gen ([] : List K) (by rw [hl2, h.len])
    intro j hj
    rw [hl2] at hj
    by_cases hlt : j ≤ (n - 1) / 2
    · exact hj2 j (by omega)
    · exact hb2 j (by omega) hj

/-! ### an elevation by one satisfies `RedHyp` -/

/-- Eq. 5.36 for one elevation: `Q_{m+1} = (m+1)/(p+1) · P_m + (1 − (m+1)/(p+1)) · P_{m+1}` -/
theorem elev_one (p : ℕ) (f : ℕ → K) (m : ℕ) (hm : m < p) :
    elev p 1 f (m + 1) = ((m + 1 : ℕ) : K) / ((p + 1 : ℕ) : K) * f m
      + (1 - ((m + 1 : ℕ) : K) / ((p + 1 : ℕ) : K)) * f (m + 1) := by
  unfold elev
  rw [Finset.sum_eq_add m (m + 1) (by omega)
    (by
      intro c _ hc
      unfold elevCoef
      rw [if_neg (by omega), zero_mul])
    (fun hh => absurd (mem_range.mpr (by omega)) hh)
    (fun hh => absurd (mem_range.mpr (by omega)) hh)]
  unfold elevCoef
  rw [if_pos (by omega), if_pos (by omega), Nat.add_sub_cancel_left, Nat.sub_self, Nat.choose_self,
    Nat.choose_zero_right, Nat.cast_one, mul_one, mul_one]
  have hc : ((p + 1).choose (m + 1) : K) ≠ 0 := by
    exact_mod_cast (Nat.choose_pos (by omega : m + 1 ≤ p + 1)).ne'
  have hp : ((p + 1 : ℕ) : K) ≠ 0 := by exact_mod_cast (Nat.succ_ne_zero p)
  have e1 : ((p + 1 : ℕ) : K) * (p.choose m : K) = ((p + 1).choose (m + 1) : K) * ((m + 1 : ℕ) : K) := by
    exact_mod_cast Nat.add_one_mul_choose_eq p m
  have e2 : ((p + 1).choose (m + 1) : K) = (p.choose m : K) + (p.choose (m + 1) : K) := by
    exact_mod_cast Nat.choose_succ_succ p m
  have a1 : (p.choose m : K) / ((p + 1).choose (m + 1) : K) = ((m + 1 : ℕ) : K) / ((p + 1 : ℕ) : K) := by
    rw [div_eq_div_iff hc hp, mul_comm, e1, mul_comm]
  have a2 : (p.choose (m + 1) : K) / ((p + 1).choose (m + 1) : K) = 1 - ((m + 1 : ℕ) : K) / ((p + 1 : ℕ) : K) := by
    rw [← a1, eq_sub_iff_add_eq, ← add_div, add_comm, ← e2, div_self hc]
  rw [a1, a2]

theorem redHyp_elev (p : ℕ) (hp : 1 ≤ p) (P : List (List K)) (d : ℕ) (hlen : P.length = p + 1) (hr : Rect d P) :
    RedHyp (p + 1) (degreeElevation p 1 P) P where
  n2 := by omega
  len := hlen
  q0 := degreeElevation_first p 1 P d hlen hr
  qn := by rw [degreeElevation_last p 1 P d hlen hr, Nat.add_sub_cancel]
  left := by
    intro i hi1 hin
    obtain ⟨m, rfl⟩ : ∃ m, i = m + 1 := ⟨i - 1, by omega⟩
    rw [Nat.add_sub_cancel, degreeElevation_getD p 1 P (m + 1) (by omega)]
    obtain ⟨hl, hk⟩ := elevPoint_spec p 1 P d hlen hr (m + 1) (by omega)
    have hPm : (P.getD m []).length = d := hr.getD_length (by omega)
    have hPm1 : (P.getD (m + 1) []).length = d := hr.getD_length (by omega)
    unfold redLeft
    simp only []
    apply ext_getD (by rw [List.length_zipWith, hl, hPm, hPm1, Nat.min_self])
    intro k
    rw [getD_zipWith _ (by simp) _ _ (by rw [hl, hPm]), hk k, elev_one p _ m (by omega)]
    have hne : (1 : K) - ((m + 1 : ℕ) : K) / ((p + 1 : ℕ) : K) ≠ 0 := by
      have hp1 : ((p + 1 : ℕ) : K) ≠ 0 := by exact_mod_cast (Nat.succ_ne_zero p)
      rw [sub_ne_zero, Ne, eq_comm, div_eq_one_iff_eq hp1]
      exact_mod_cast (by omega : m + 1 ≠ p + 1)
    rw [div_eq_iff hne]
    ring
  right := by
    intro i hin
    rw [degreeElevation_getD p 1 P (i + 1) (by omega)]
    obtain ⟨hl, hk⟩ := elevPoint_spec p 1 P d hlen hr (i + 1) (by omega)
    have hPi : (P.getD i []).length = d := hr.getD_length (by omega)
    have hPi1 : (P.getD (i + 1) []).length = d := hr.getD_length (by omega)
    unfold redRight
    simp only []
    apply ext_getD (by rw [List.length_zipWith, hl, hPi, hPi1, Nat.min_self])
    intro k
    rw [getD_zipWith _ (by simp) _ _ (by rw [hl, hPi1]), hk k, elev_one p _ i (by omega)]
    have hne : ((i + 1 : ℕ) : K) / ((p + 1 : ℕ) : K) ≠ 0 := by
      apply div_ne_zero
      · exact_mod_cast (Nat.succ_ne_zero i)
      · exact_mod_cast (Nat.succ_ne_zero p)
    rw [div_eq_iff hne]
    ring

/-- **reduce ∘ elevate₁ = id**, every degree `p ≥ 1`, every dimension (repaired routine) -/
theorem degreeReduction_degreeElevation (p : ℕ) (hp : 1 ≤ p) (P : List (List K)) (d : ℕ)
    (hlen : P.length = p + 1) (hr : Rect d P) :
    degreeReduction (p + 1) (degreeElevation p 1 P) = P :=
  degreeReduction_core (redHyp_elev p hp P d hlen hr)

theorem degreeReduction_length (n : ℕ) (Q : List (List K)) : (degreeReduction n Q).length = n := by
  have hL : ∀ (l : List ℕ) (red : List (List K)), (l.foldl (sweepLeftStep n Q) red).length = red.length := by
    intro l; induction l with
    | nil => intro red; rfl
    | cons a l ih => intro red; rw [List.foldl_cons, ih]; simp [sweepLeftStep]
  have hR : ∀ (l : List ℕ) (red : List (List K)), (l.foldl (sweepRightStep n Q) red).length = red.length := by
    intro l; induction l with
    | nil => intro red; rfl
    | cons a l ih => intro red; rw [List.foldl_cons, ih]; simp [sweepRightStep]
  unfold degreeReduction
  simp only []
  split
  · unfold redMiddle; simp only []; rw [List.length_set, hR, hL]; simp [redInit]
  · rw [hR, hL]; simp [redInit]

end
end Geomdl
