import NurbsVerif.Lemmas.Span

/-! `helpers.find_span_binsearch` terminates and agrees with the linear search. -/
namespace Geomdl
variable {K : Type} [Field K] [LinearOrder K] [IsStrictOrderedRing K]

/-- regular iterations (`mid = (low+high)/2`): the loop ends, with enough fuel, on the half-open
    interval containing `u` -/
theorem binLoop_regular (U : ℕ → K) (u : K) : ∀ (fuel low high : ℕ),
    U low ≤ u → u < U high → low < high → high - low ≤ fuel →
    ∃ k, findSpanBinLoop U u (fuel + 1) low high ((low + high) / 2) = some k ∧ U k ≤ u ∧ u < U (k+1) := by
  intro fuel
  induction fuel with
  | zero => intro low high _ _ h1 h2; omega
  | succ fuel ih =>
    intro low high hlo hhi hlt hf
    have hmid1 : low ≤ (low + high) / 2 := by omega
    have hmid2 : (low + high) / 2 < high := by omega
    rw [findSpanBinLoop]
    by_cases hc : u < U ((low + high) / 2) ∨ U ((low + high) / 2 + 1) ≤ u
    · rw [if_pos hc]
      by_cases h1 : u < U ((low + high) / 2)
      · simp only [h1, if_true]
        have hne : low < (low + high) / 2 := by
          by_contra hcon
          have : (low + high) / 2 = low := by omega
          rw [this] at h1
          exact absurd hlo (not_le.mpr h1)
        exact ih low ((low + high) / 2) hlo h1 hne (by omega)
      · simp only [h1, if_false]
        have h2 : U ((low + high) / 2 + 1) ≤ u := by
          rcases hc with h | h
          · exact absurd h h1
          · exact h
        have hge : U ((low + high) / 2) ≤ u := not_lt.mp h1
        have hne : low < (low + high) / 2 := by
          by_contra hcon
          have e : (low + high) / 2 = low := by omega
          have : high = low + 1 := by omega
          rw [e, ← this] at h2
          exact absurd hhi (not_lt.mpr h2)
        exact ih ((low + high) / 2) high hge hhi hmid2 (by omega)
    · rw [if_neg hc]
      push_neg at hc
      exact ⟨_, rfl, hc.1, hc.2⟩

/-- first iteration: any start index between `low` and `high` -/
theorem binLoop_first (U : ℕ → K) (u : K) (fuel low high mid : ℕ)
    (hlo : U low ≤ u) (hhi : u < U high) (hlt : low < high) (hm1 : low ≤ mid) (hm2 : mid ≤ high)
    (hf : high - low + 1 ≤ fuel) :
    ∃ k, findSpanBinLoop U u (fuel + 1) low high mid = some k ∧ U k ≤ u ∧ u < U (k+1) := by
  rw [findSpanBinLoop]
  by_cases hc : u < U mid ∨ U (mid + 1) ≤ u
  · rw [if_pos hc]
    obtain ⟨f, rfl⟩ : ∃ f, fuel = f + 1 := ⟨fuel - 1, by omega⟩
    by_cases h1 : u < U mid
    · simp only [h1, if_true]
      have hne : low < mid := by
        by_contra hcon
        have : mid = low := by omega
        rw [this] at h1
        exact absurd hlo (not_le.mpr h1)
      exact binLoop_regular U u f low mid hlo h1 hne (by omega)
    · simp only [h1, if_false]
      have h2 : U (mid + 1) ≤ u := by
        rcases hc with h | h
        · exact absurd h h1
        · exact h
      have hmh : mid < high := by
        by_contra hcon
        have : mid = high := by omega
        rw [this] at h1
        exact h1 hhi
      exact binLoop_regular U u f mid high (not_lt.mp h1) hhi hmh (by omega)
  · rw [if_neg hc]
    push_neg at hc
    exact ⟨_, rfl, hc.1, hc.2⟩

/-- **binary search = linear search**, for every degree, every non-decreasing knot function, every
    parameter of the domain, under the hypothesis that the tolerance shortcut at the domain end is
    harmless (`|U n - u| ≤ tol` only for parameters of the last span) – the hypothesis that defect
    F-17b violates. -/
theorem findSpanBin_eq_linear (p : ℕ) (U : ℕ → K) (n : ℕ) (u tol : K) (hpn : p + 1 ≤ n)
    (hm : Monotone U) (hlo : U p ≤ u) (hhi : u ≤ U n) (htol : 0 ≤ tol)
    (hend : absK (U n - u) ≤ tol → U (n - 1) ≤ u) :
    findSpanBin p U n u tol = some (findSpanLinear p U n u) := by
  unfold findSpanBin
  obtain ⟨l1, l2, l3, l4⟩ := findSpanLinear_spec p U n u hpn hm hlo
  by_cases hc : absK (U n - u) ≤ tol
  · rw [if_pos hc]
    have hu := hend hc
    congr 1
    rcases l4 with h | h
    · -- `u < U (k+1)`: the span is the last one because `U (n-1) ≤ u`
      by_contra hne
      have hk : findSpanLinear p U n u + 1 ≤ n - 1 := by omega
      have : U (findSpanLinear p U n u + 1) ≤ U (n - 1) := hm hk
      linarith
    · omega
  · rw [if_neg hc]
    have hlt : u < U n := by
      rcases lt_or_eq_of_le hhi with h | h
      · exact h
      · exfalso; apply hc
        rw [h]; simp [absK, htol]
    obtain ⟨k, hk, h1, h2⟩ := binLoop_first U u (n + p + 1) p n ((p + n + 1) / 2) hlo hlt (by omega) (by omega) (by omega) (by omega)
    rw [hk]
    congr 1
    exact (findSpanLinear_unique p U n u hpn hm hlo hlt k h1 h2).symm

end Geomdl
