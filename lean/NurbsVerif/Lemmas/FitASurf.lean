import NurbsVerif.Lemmas.FitSurf
import NurbsVerif.Lemmas.FitApprox

/-! `fitting.approximate_surface` (model `Geomdl.approximateSurface`), part 1: structure of the result.
    Every least-squares pass (`Geomdl.lsqPass`) keeps the first and the last point of its data line;
    the two passes therefore copy the four corner data points into the four corner control points. -/
namespace Geomdl
open Finset Lin
variable {K : Type} [Field K] [LinearOrder K] [IsStrictOrderedRing K]

/-! ### one pass -/

omit [IsStrictOrderedRing K] in
/-- `approximate_curve` is one pass on the whole data with its own parameters and knot vector -/
theorem approximateCurve_eq_lsqPass (p : ℕ) (pts : List (List K)) (cds : List K) (nc : ℕ) (fl : K → ℕ) :
    approximateCurve p pts cds nc fl =
      (let uk := computeParams cds
       let kv := computeKnotVector2 p pts.length nc uk fl
       match lsqPass p (fnOf kv) kv.length uk pts nc (pts.headD []).length with
       | none => none
       | some cp => some (kv, cp)) := by
  unfold approximateCurve lsqPass
  simp only []
  split <;> rfl

/-- shape of a pass: `Q₀ :: x ++ [Q_m]` with `nc − 2` interior points of `dim` coordinates -/
theorem lsqPass_ends (p : ℕ) (U : ℕ → K) (m : ℕ) (uk : List K) (pts : List (List K)) (nc dim : ℕ)
    (cp : List (List K)) (h : lsqPass p U m uk pts nc dim = some cp) :
    ∃ x : List (List K), cp = [pts.headD []] ++ x ++ [pts.getLastD []] ∧ x.length = nc - 2 ∧
      ∀ row ∈ x, row.length = dim := by
  unfold lsqPass at h
  simp only [] at h
  split at h
  · exact absurd h (by simp)
  · rename_i x hsolve
    injection h with hcp
    obtain ⟨h1, h2⟩ := luSolve_shape _ _ _ hsolve
    have hxl : x.length = nc - 2 := by rw [h1]; simp
    refine ⟨x, hcp.symm, hxl, ?_⟩
    intro row hrow
    have hpos : 0 < nc - 2 := by rw [← hxl]; exact List.length_pos_of_mem hrow
    rw [h2 row hrow]
    obtain ⟨q, hq⟩ : ∃ q, nc - 2 = q + 1 := ⟨nc - 2 - 1, by omega⟩
    rw [hq]
    simp [List.range'_succ]

/-- a pass returns `nc` points, the first and the last are the ends of the data line -/
theorem lsqPass_shape (p : ℕ) (U : ℕ → K) (m : ℕ) (uk : List K) (pts : List (List K)) (nc dim : ℕ)
    (cp : List (List K)) (hnc : 2 ≤ nc) (h : lsqPass p U m uk pts nc dim = some cp) :
    cp.length = nc ∧ cp.getD 0 [] = pts.headD [] ∧ cp.getD (nc - 1) [] = pts.getLastD [] := by
  obtain ⟨x, hcp, hxl, _⟩ := lsqPass_ends p U m uk pts nc dim cp h
  obtain ⟨g0, _, g2, g3⟩ := ends_get (pts.headD []) (pts.getLastD []) x
  subst hcp
  refine ⟨by rw [g3, hxl]; omega, g0, ?_⟩
  rw [show nc - 1 = x.length + 1 by omega]
  exact g2

/-- all points of a pass have `d` coordinates when the end points of the line have -/
theorem lsqPass_netOk (p : ℕ) (U : ℕ → K) (m : ℕ) (uk : List K) (pts : List (List K)) (nc d : ℕ)
    (cp : List (List K)) (h0 : (pts.headD []).length = d) (h1 : (pts.getLastD []).length = d)
    (h : lsqPass p U m uk pts nc d = some cp) : ∀ pt ∈ cp, pt.length = d := by
  obtain ⟨x, hcp, _, hrows⟩ := lsqPass_ends p U m uk pts nc d cp h
  subst hcp
  intro pt hpt
  simp only [List.mem_append, List.mem_singleton] at hpt
  rcases hpt with (rfl | hx) | rfl
  · exact h0
  · exact hrows pt hx
  · exact h1

/-! ### list helpers -/

theorem map_range_headD {α : Type} (n : ℕ) (f : ℕ → α) (dflt : α) (hn : 1 ≤ n) :
    ((List.range n).map f).headD dflt = f 0 := by
  obtain ⟨q, rfl⟩ : ∃ q, n = q + 1 := ⟨n - 1, by omega⟩
  simp [List.range_succ_eq_map]

theorem map_range_getLastD {α : Type} (n : ℕ) (f : ℕ → α) (dflt : α) (hn : 1 ≤ n) :
    ((List.range n).map f).getLastD dflt = f (n - 1) := by
  obtain ⟨q, rfl⟩ : ∃ q, n = q + 1 := ⟨n - 1, by omega⟩
  simp [List.range_succ, List.getLastD_eq_getLast?]

theorem map_range_getD {α : Type} (n : ℕ) (f : ℕ → α) (dflt : α) (i : ℕ) (hi : i < n) :
    ((List.range n).map f).getD i dflt = f i := by
  simp [List.getD_eq_getElem?_getD, List.getElem?_range hi]

omit [Field K] [LinearOrder K] [IsStrictOrderedRing K] in
/-- the intermediate net of `approximate_surface`: entry `j + sv·i` is the `i`-th point of column `j` -/
theorem tmp_getD (cols : List (List (List K))) (ncu sv i j : ℕ) (hi : i < ncu) (hj : j < sv) :
    ((List.range (ncu * sv)).map (fun k => (cols.getD (k % sv) []).getD (k / sv) [])).getD (j + sv * i) []
      = (cols.getD j []).getD i [] := by
  rw [map_range_getD _ _ _ _ (flat_index ncu sv i j hi hj)]
  have h1 : (j + sv * i) % sv = j := by rw [Nat.add_mul_mod_self_left]; exact Nat.mod_eq_of_lt hj
  have h2 : (j + sv * i) / sv = i := by
    rw [Nat.add_mul_div_left _ _ (by omega : 0 < sv), Nat.div_eq_of_lt hj, Nat.zero_add]
  rw [h1, h2]

/-! ### the two passes -/

omit [IsStrictOrderedRing K] in
/-- **structure of `approximate_surface`**: whenever it returns, there are `sv` columns `cols` (pass in the
    u direction on the data columns) and `ncu` rows `rows` (pass in the v direction on the lines of
    intermediate points), all passes returned, and the control net is the concatenation of the rows. -/
theorem approximateSurface_struct (pu pv su sv : ℕ) (pts : List (List K)) (cdsU cdsV : List (List K))
    (ncu ncv : ℕ) (fl : K → ℕ) (kvu kvv : List K) (cp : List (List K))
    (h : approximateSurface pu pv su sv pts cdsU cdsV ncu ncv fl = some (kvu, kvv, cp)) :
    kvu = computeKnotVector2 pu su ncu (averageParams cdsU su) fl ∧
    kvv = computeKnotVector2 pv sv ncv (averageParams cdsV sv) fl ∧
    ∃ cols rows : List (List (List K)), cols.length = sv ∧ rows.length = ncu ∧ cp = rows.flatten ∧
      (∀ j, j < sv → lsqPass pu (fnOf kvu) kvu.length (averageParams cdsU su)
          ((List.range su).map (fun i => pts.getD (j + sv * i) [])) ncu (pts.headD []).length = some (cols.getD j [])) ∧
      (∀ i, i < ncu → lsqPass pv (fnOf kvv) kvv.length (averageParams cdsV sv)
          ((List.range sv).map (fun j => (cols.getD j []).getD i [])) ncv (pts.headD []).length = some (rows.getD i [])) := by
  unfold approximateSurface at h
  simp only [] at h
  split at h
  · exact absurd h (by simp)
  · rename_i cols hU
    split at h
    · exact absurd h (by simp)
    · rename_i rows hV
      injection h with h'
      injection h' with hkvu h''
      injection h'' with hkvv hcp
      subst hkvu; subst hkvv
      obtain ⟨hcl, hcsol⟩ := allSome_map_range sv _ cols hU
      obtain ⟨hrl, hrsol⟩ := allSome_map_range ncu _ rows hV
      refine ⟨rfl, rfl, cols, rows, hcl, hrl, hcp.symm, fun j hj => hcsol [] j hj, fun i hi => ?_⟩
      have := hrsol [] i hi
      rw [← this]
      congr 1
      apply List.map_congr_left
      intro j hj
      exact (tmp_getD cols ncu sv i j hi (List.mem_range.mp hj)).symm

omit [Field K] [LinearOrder K] [IsStrictOrderedRing K] in
/-- shape of the result: `ncu · ncv` control points, entry `j + ncv·i` is the `j`-th point of row `i` -/
theorem approximateSurface_rows (ncu ncv : ℕ) (rows : List (List (List K))) (hrl : rows.length = ncu)
    (hrow : ∀ i, i < ncu → (rows.getD i []).length = ncv) :
    rows.flatten.length = ncu * ncv ∧
    ∀ i j, i < ncu → j < ncv → rows.flatten.getD (j + ncv * i) [] = (rows.getD i []).getD j [] := by
  have hrowsl : ∀ l ∈ rows, l.length = ncv := by
    intro l hl
    obtain ⟨i, hi, rfl⟩ := List.getElem_of_mem hl
    have := hrow i (by omega)
    rwa [List.getD_eq_getElem?_getD, List.getElem?_eq_getElem hi, Option.getD_some] at this
  refine ⟨by rw [flatten_length_const ncv rows hrowsl, hrl, Nat.mul_comm], fun i j _ hj => ?_⟩
  exact flatten_getD ncv [] rows hrowsl j i hj

/-- **corner control points**: the four corner control points of `approximate_surface` are the four
    corner data points (`eu`, `ev`: last index of the direction or the first). -/
theorem approximateSurface_corner_ctrlpts (pu pv su sv : ℕ) (pts : List (List K)) (cdsU cdsV : List (List K))
    (ncu ncv : ℕ) (fl : K → ℕ) (kvu kvv : List K) (cp : List (List K))
    (hsu : 1 ≤ su) (hsv : 1 ≤ sv) (hncu : 2 ≤ ncu) (hncv : 2 ≤ ncv)
    (h : approximateSurface pu pv su sv pts cdsU cdsV ncu ncv fl = some (kvu, kvv, cp)) (eu ev : Bool) :
    cp.length = ncu * ncv ∧
    ptsGet cp ((if ev then ncv - 1 else 0) + ncv * (if eu then ncu - 1 else 0))
      = ptsGet pts ((if ev then sv - 1 else 0) + sv * (if eu then su - 1 else 0)) := by
  obtain ⟨_, _, cols, rows, hcl, hrl, hcp, hU, hV⟩ :=
    approximateSurface_struct pu pv su sv pts cdsU cdsV ncu ncv fl kvu kvv cp h
  have hrow : ∀ i, i < ncu → (rows.getD i []).length = ncv :=
    fun i hi => (lsqPass_shape _ _ _ _ _ _ _ _ hncv (hV i hi)).1
  obtain ⟨hlen, hget⟩ := approximateSurface_rows ncu ncv rows hrl hrow
  subst hcp
  refine ⟨hlen, ?_⟩
  have hi : (if eu then ncu - 1 else 0) < ncu := by split <;> omega
  have hj : (if ev then ncv - 1 else 0) < ncv := by split <;> omega
  unfold ptsGet
  rw [hget _ _ hi hj]
  -- the row keeps the ends of its line of intermediate points
  obtain ⟨_, r0, r1⟩ := lsqPass_shape _ _ _ _ _ _ _ _ hncv (hV _ hi)
  rw [map_range_headD _ _ _ hsv] at r0
  rw [map_range_getLastD _ _ _ hsv] at r1
  -- a column keeps the ends of its data line
  have hcol : ∀ j, j < sv → (cols.getD j []).getD (if eu then ncu - 1 else 0) []
      = pts.getD (j + sv * (if eu then su - 1 else 0)) [] := by
    intro j hj
    obtain ⟨_, c0, c1⟩ := lsqPass_shape _ _ _ _ _ _ _ _ hncu (hU j hj)
    rw [map_range_headD _ _ _ hsu] at c0
    rw [map_range_getLastD _ _ _ hsu] at c1
    cases eu
    · simpa using c0
    · simpa using c1
  cases ev
  · simp only [Bool.false_eq_true, if_false]
    rw [r0, hcol 0 (by omega)]
  · simp only [if_true]
    rw [r1, hcol (sv - 1) (by omega)]

end Geomdl
