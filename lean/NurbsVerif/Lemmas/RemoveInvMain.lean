import NurbsVerif.Lemmas.RemoveInvStep
import NurbsVerif.Lemmas.InsertAll

/-! C06 helper lemmas, part 5: all `r` removal steps, the final shift, and the theorem
    "`r` insertions followed by `r` removals restore the control polygon"; the length of the
    output of `knotRemoval`. -/
namespace Geomdl
namespace RemInv
open Blossom
variable {K : Type} [Field K] [LinearOrder K] [IsStrictOrderedRing K]

/-! ### lengths (no hypotheses) -/

theorem ite_len (b : Bool) (A B : List (List K)) (n : ℕ) (hA : A.length = n) (hB : B.length = n) :
    (if b = true then A else B).length = n := by
  cases b <;> simpa

theorem remStep_fst_length (Un : ℕ → K) (u : K) (p : ℕ) (tol2 : K)
    (st : List (List K) × List (List K) × ℕ × ℕ) (t : ℕ) :
    (remStep Un u p tol2 st t).1.length = st.1.length := by
  unfold remStep
  simp only []
  exact ite_len _ _ _ _ (remCopy_length _ _ _ _ _ _ _) rfl

theorem remFold_fst_length (Un : ℕ → K) (u : K) (p : ℕ) (tol2 : K) : ∀ (l : List ℕ)
    (st : List (List K) × List (List K) × ℕ × ℕ),
    (l.foldl (remStep Un u p tol2) st).1.length = st.1.length := by
  intro l
  induction l with
  | nil => intro st; rfl
  | cons a l ih => intro st; rw [List.foldl_cons, ih, remStep_fst_length]

/-- the control polygon shrinks by exactly `num` points -/
theorem knotRemoval_length (p : ℕ) (Un : ℕ → K) (P : List (List K)) (u : K) (num s r : ℕ) (tol2 : K) :
    (knotRemoval p Un P u num s r tol2).length = P.length - num := by
  unfold knotRemoval
  by_cases h : num = 0
  · rw [if_pos h, h]; rfl
  · rw [if_neg h]
    simp only []
    rw [List.length_take, shift_length, remFold_fst_length]
    simp only []
    omega

/-! ### all steps -/

section main
variable (U : ℕ → K) (u : K) (P : List (List K)) (k p s d r : ℕ)
  (hP : NetOk d P) (hpk : p ≤ k) (hk : k < P.length)
  (hA : ∀ i, i + s ≤ k → U i < u) (hB : ∀ i, k + 1 ≤ i → u < U i) (hrs : r + s ≤ p)
include hP hpk hk hA hB hrs

theorem remFold_inv (tol2 : K) (htol : 0 ≤ tol2) : ∀ t, t ≤ r →
    ∃ cp temp, (List.range t).foldl (remStep (Uh k r u U) u p tol2)
        (knotInsertion p U P u r s k, List.replicate (2 * p + 1) [], k + r - p, k + r - (s + r))
          = (cp, temp, k + r - p - t, k + r - (s + r) + t) ∧
      temp.length = 2 * p + 1 ∧ CInv U u P k p s r (r - t) t cp := by
  intro t
  induction t with
  | zero =>
    intro _
    refine ⟨_, _, rfl, by simp, ?_⟩
    refine ⟨knotInsertion_length p U P u r s k, ?_, ?_⟩
    · intro i _; rfl
    · intro j _ _; rfl
  | succ t ih =>
    intro ht
    obtain ⟨cp, temp, hfold, hlen, hC⟩ := ih (by omega)
    rw [List.range_succ, List.foldl_append, hfold]
    simp only [List.foldl_cons, List.foldl_nil]
    have hC' : CInv U u P k p s r (r - t - 1 + 1) t cp := by
      rw [show r - t - 1 + 1 = r - t by omega]; exact hC
    obtain ⟨cp', temp', hstep, hlen', hC''⟩ := remStep_inv U u P k p s d r (r - t - 1) t (k + r - p - t) (k + r - (s + r) + t)
      (p - s - (r - t)  + t) (p - s - (r - t)) cp hP hpk hk hA hB (by omega) hrs (by omega) (by omega) (by omega) (by omega) hC'
      tol2 htol temp hlen
    refine ⟨cp', temp', ?_, hlen', ?_⟩
    · rw [hstep]
      congr 3
    · rw [show r - (t + 1) = r - t - 1 by omega]; exact hC''

/-- **`r` insertions followed by `t ≤ r` removals give the net of `r - t` insertions** (function
    form of the knots: `Uh k r u U` are the refined knots) -/
theorem remove_t_of_r_fn (t : ℕ) (ht1 : 1 ≤ t) (htr : t ≤ r) (tol2 : K) (htol : 0 ≤ tol2) :
    knotRemoval p (Uh k r u U) (knotInsertion p U P u r s k) u t (s + r) (k + r) tol2
      = knotInsertion p U P u (r - t) s k := by
  obtain ⟨cp, temp, hfold, _, hcl, h2, h3⟩ := remFold_inv U u P k p s d r hP hpk hk hA hB hrs tol2 htol t htr
  unfold knotRemoval
  rw [if_neg (by omega)]
  simp only []
  rw [hfold]
  simp only []
  rw [knotInsertion_length]
  apply net_ext
  · rw [List.length_take, shift_length, hcl, knotInsertion_length]; omega
  · intro x hx
    rw [List.length_take, shift_length, hcl] at hx
    have hxn : x < P.length + r - t := by omega
    rw [ptsGet_take _ _ _ (by omega)]
    rw [shift_get _ _ (by omega) _ _ _ (by rw [hcl]; omega)]
    by_cases hc : (2 * (k + r) - (s + r) - p) / 2 - (t - 1) / 2 ≤ x ∧
        x < (2 * (k + r) - (s + r) - p) / 2 - (t - 1) / 2 + (P.length + r - ((2 * (k + r) - (s + r) - p) / 2 + t / 2 + 1))
    · rw [if_pos hc]
      have e1 : (2 * (k + r) - (s + r) - p) / 2 + t / 2 + 1 - ((2 * (k + r) - (s + r) - p) / 2 - (t - 1) / 2) = t := by omega
      rw [e1, h3 (x + t) (by omega) (by omega)]
      rw [show x + t - t = x by omega]; rfl
    · rw [if_neg hc, h2 x (by omega)]; rfl

/-- **`r` insertions followed by `r` removals restore the control polygon** -/
theorem remove_inverts_insert_fn (hr1 : 1 ≤ r) (tol2 : K) (htol : 0 ≤ tol2) :
    knotRemoval p (Uh k r u U) (knotInsertion p U P u r s k) u r (s + r) (k + r) tol2 = P := by
  rw [remove_t_of_r_fn U u P k p s d r hP hpk hk hA hB hrs r hr1 (le_refl _) tol2 htol]
  apply net_ext
  · rw [knotInsertion_length]; omega
  · intro x hx
    rw [knotInsertion_length] at hx
    have := Q_zero U u P k p s hpk x (by omega)
    unfold Q at this
    rw [show r - r = 0 by omega, this]

end main

/-- **list form**: inserting `ub` `r` times into a sorted knot vector (span `k`, multiplicity `s`) and
    removing it `t ≤ r` times (with the span `k + r` and multiplicity `s + r` the library finds on the
    refined knot vector) gives exactly the control polygon of `r - t` insertions -/
theorem remove_t_of_r (p : ℕ) (Ul : List K) (P : List (List K)) (ub : K) (r t s k d : ℕ) (tol2 : K)
    (hP : NetOk d P) (hm : Monotone (fnOf Ul)) (hlen : k + 1 < Ul.length)
    (hk2 : ub < fnOf Ul (k + 1)) (hs : fnOf Ul (k - s) < ub)
    (ht1 : 1 ≤ t) (htr : t ≤ r) (hrs : r + s ≤ p) (hpk : p ≤ k) (hkP : k < P.length) (htol : 0 ≤ tol2) :
    knotRemoval p (fnOf (knotInsertionKv Ul ub k r)) (knotInsertion p (fnOf Ul) P ub r s k) ub t (s + r) (k + r) tol2
      = knotInsertion p (fnOf Ul) P ub (r - t) s k := by
  rw [fnOf_knotInsertionKv Ul ub k r hlen]
  apply remove_t_of_r_fn (fnOf Ul) ub P k p s d r hP hpk hkP _ _ hrs t ht1 htr tol2 htol
  · intro i hi
    exact lt_of_le_of_lt (hm (by omega)) hs
  · intro i hi
    exact lt_of_lt_of_le hk2 (hm hi)

/-- **list form**: `r` insertions then `r` removals restore the control polygon exactly -/
theorem remove_inverts_insert (p : ℕ) (Ul : List K) (P : List (List K)) (ub : K) (r s k d : ℕ) (tol2 : K)
    (hP : NetOk d P) (hm : Monotone (fnOf Ul)) (hlen : k + 1 < Ul.length)
    (hk2 : ub < fnOf Ul (k + 1)) (hs : fnOf Ul (k - s) < ub)
    (hr1 : 1 ≤ r) (hrs : r + s ≤ p) (hpk : p ≤ k) (hkP : k < P.length) (htol : 0 ≤ tol2) :
    knotRemoval p (fnOf (knotInsertionKv Ul ub k r)) (knotInsertion p (fnOf Ul) P ub r s k) ub r (s + r) (k + r) tol2 = P := by
  rw [fnOf_knotInsertionKv Ul ub k r hlen]
  apply remove_inverts_insert_fn (fnOf Ul) ub P k p s d r hP hpk hkP _ _ hrs hr1 tol2 htol
  · intro i hi
    exact lt_of_le_of_lt (hm (by omega)) hs
  · intro i hi
    exact lt_of_lt_of_le hk2 (hm hi)

end RemInv
end Geomdl
