import NurbsVerif.Lemmas.Exchange
import NurbsVerif.Lemmas.AssembleAffine
import NurbsVerif.Lemmas.AssembleWF
import NurbsVerif.Lemmas.Weights
import NurbsVerif.Lemmas.FitParams
import NurbsVerif.Model.Grid

/-!
  C14, "hence evaluating to the same points", assembled END-TO-END: the point `evaluate_single` returns
  (library span search `findSpanLinear` + A3.1 / A3.5 / volume evaluation + the division by the weight of a
  rational shape) on the shape the readers return (`asRational`: homogeneous net, unit weights for a
  non-rational input, knot vectors normalised) at the normalised parameter is the point of the exported shape
  at the original parameter, for every parameter of the domain.

  Pieces: the span search and the basis functions are invariant under the normalisation of knots and
  parameter (`Lemmas/AssembleAffine.lean`, C17), the unit-weight rational form of a non-rational shape
  evaluates to the same point on every non-empty span (`Lemmas/Weights.lean`, C09, partition of unity), and
  the span the search returns on the closed domain is such a span (`Lemmas/AssembleSpan.lean`).
-/
namespace Geomdl
namespace Exch
variable {K : Type} [Field K] [LinearOrder K] [IsStrictOrderedRing K]

/-! ### what `evaluate_single` computes on the shape records of the exchange model -/

/-- the parameter of the reimported shape that corresponds to `u`: `(u - U_first) / (U_last - U_first)` -/
def normParam (U : List K) (u : K) : K := (u - U.headD 0) / (U.getLastD 0 - U.headD 0)

/-- closed parametric domain `[U_p, U_n]` of one direction -/
def InDomain (p : ℕ) (U : List K) (n : ℕ) (u : K) : Prop := fnOf U p ≤ u ∧ u ≤ fnOf U n

/-- `Curve.evaluate_single(u)`: span search, A3.1 on the stored net, division by the weight iff rational -/
abbrev Crv.point (c : Crv K) (u : K) : List K :=
  projIf c.rational (curvePoint c.degree (fnOf c.knots) c.net u)

/-- `Surface.evaluate_single((u, v))` -/
abbrev Srf.point (s : Srf K) (u v : K) : List K :=
  projIf s.rational (surfacePoint s.degU s.degV (fnOf s.knotsU) (fnOf s.knotsV) s.sizeU s.sizeV s.net u v)

/-- `Volume.evaluate_single((u, v, w))` -/
abbrev Vol.point (x : Vol K) (u v w : K) : List K :=
  projIf x.rational (volumePoint x.degU x.degV x.degW (fnOf x.knotsU) (fnOf x.knotsV) (fnOf x.knotsW)
    x.sizeU x.sizeV x.sizeW x.net u v w)

/-! ### from the readers' guard to the knot-function hypotheses -/

/-- the guard of the knot vector setters (`kvOk`: degree ≥ 1, enough control points, right length, sorted, range
    not degenerate) and a non-empty last span of the domain give a well-formed knot vector with a range of positive
    length -/
theorem kvWF_of_kvOk (p : ℕ) (U : List K) (n : ℕ) (h : kvOk p U n = true) (hlast : fnOf U (n - 1) < fnOf U n) :
    KvWF p U n ∧ U ≠ [] ∧ U.headD 0 < U.getLastD 0 := by
  unfold kvOk knotCheck at h
  simp only [Bool.and_eq_true, decide_eq_true_eq, Bool.not_eq_true', decide_eq_false_iff_not] at h
  obtain ⟨⟨⟨_, hpn⟩, hlen, hs⟩, _⟩ := h
  have hm : Monotone (fnOf U) := fnOf_monotone_of_isSortedB U hs
  have hne : U ≠ [] := by intro e; rw [e] at hlen; simp at hlen
  refine ⟨⟨hm, by omega, hpn, hlast⟩, hne, ?_⟩
  have h0 : U.headD 0 = fnOf U 0 := by
    cases U with
    | nil => exact absurd rfl hne
    | cons a r => simp [fnOf]
  have h1 : U.getLastD 0 = fnOf U U.length := by
    unfold fnOf
    rw [List.getD_eq_getElem?_getD, List.getElem?_eq_none (le_refl _)]
    rfl
  rw [h0, h1]
  calc fnOf U 0 ≤ fnOf U (n - 1) := hm (by omega)
    _ < fnOf U n := hlast
    _ ≤ fnOf U U.length := hm (by omega)

theorem fnOf_knotNormalize_div (V : List K) (i : ℕ) (hne : V ≠ []) :
    fnOf (knotNormalize V) i = (fnOf V i - V.headD 0) / (V.getLastD 0 - V.headD 0) := by
  rw [fnOf_knotNormalize V i hne]; ring

/-- the normalised parameter of a domain parameter lies in the domain of the normalised knot vector -/
theorem normParam_inDomain (p : ℕ) (U : List K) (n : ℕ) (u : K) (hne : U ≠ []) (hr : U.headD 0 < U.getLastD 0)
    (h : InDomain p U n u) : InDomain p (knotNormalize U) n (normParam U u) := by
  have hpos : 0 < U.getLastD 0 - U.headD 0 := by linarith
  unfold InDomain normParam
  rw [fnOf_knotNormalize_div U p hne, fnOf_knotNormalize_div U n hne, div_le_div_iff_of_pos_right hpos,
    div_le_div_iff_of_pos_right hpos]
  exact ⟨by linarith [h.1], by linarith [h.2]⟩

/-- ... and every parameter of the reimported domain is the normalised form of exactly the parameter
    `U_first + t (U_last - U_first)` of the exported domain -/
theorem normParam_surj (p : ℕ) (U : List K) (n : ℕ) (t : K) (hne : U ≠ []) (hr : U.headD 0 < U.getLastD 0)
    (h : InDomain p (knotNormalize U) n t) :
    InDomain p U n (U.headD 0 + t * (U.getLastD 0 - U.headD 0)) ∧
      normParam U (U.headD 0 + t * (U.getLastD 0 - U.headD 0)) = t := by
  have hpos : 0 < U.getLastD 0 - U.headD 0 := by linarith
  unfold InDomain at h ⊢
  rw [fnOf_knotNormalize_div U p hne, fnOf_knotNormalize_div U n hne, div_le_iff₀ hpos, le_div_iff₀ hpos] at h
  refine ⟨⟨by linarith [h.1], by linarith [h.2]⟩, ?_⟩
  unfold normParam
  rw [add_sub_cancel_left, mul_div_assoc, div_self (ne_of_gt hpos), mul_one]

/-! ### unit weights: the library's span search in front of the span-level theorems of C09 -/

theorem homNet_false_eq (net : List (List K)) : homNet false net = combineUnit net := by
  rw [combineUnit_eq]; simp [homNet, combine_ones]

theorem combineUnit_length (P : List (List K)) : (combineUnit P).length = P.length := by
  rw [combineUnit_eq]; simp

/-- curves: `evaluate_single` of the unit-weight rational form = `evaluate_single` of the non-rational curve,
    on the closed domain -/
theorem curvePoint_unit (p d : ℕ) (U : List K) (P : List (List K)) (hU : KvWF p U P.length)
    (hP : Geomdl.NetOk d P) (u : K) (hu : InDomain p U P.length u) :
    project (curvePoint p (fnOf U) (combineUnit P) u) = curvePoint p (fnOf U) P u := by
  obtain ⟨hs, a1, a2⟩ := findSpanLinear_dom hU.knotsOk u hu.1 hu.2
  unfold curvePoint
  rw [combineUnit_length]
  exact curvePointAt_unit p (fnOf U) P _ u d hP a2 a1 hs

theorem surfacePoint_unit (pu pv d : ℕ) (Uu Uv : List K) (su sv : ℕ) (P : List (List K))
    (hUu : KvWF pu Uu su) (hUv : KvWF pv Uv sv) (hlen : P.length = su * sv) (hP : Geomdl.NetOk d P)
    (u v : K) (hu : InDomain pu Uu su u) (hv : InDomain pv Uv sv v) :
    project (surfacePoint pu pv (fnOf Uu) (fnOf Uv) su sv (combineUnit P) u v)
      = surfacePoint pu pv (fnOf Uu) (fnOf Uv) su sv P u v := by
  obtain ⟨hsu, a1, a2⟩ := findSpanLinear_dom hUu.knotsOk u hu.1 hu.2
  obtain ⟨hsv, b1, b2⟩ := findSpanLinear_dom hUv.knotsOk v hv.1 hv.2
  unfold surfacePoint
  exact surfacePointAt_unit pu pv (fnOf Uu) (fnOf Uv) su sv P _ _ u v d hP hlen a2 b2 a1 b1 hsu hsv

theorem volumePoint_unit (pu pv pw d : ℕ) (Uu Uv Uw : List K) (su sv sw : ℕ) (P : List (List K))
    (hUu : KvWF pu Uu su) (hUv : KvWF pv Uv sv) (hUw : KvWF pw Uw sw) (hlen : P.length = su * sv * sw)
    (hP : Geomdl.NetOk d P) (u v w : K)
    (hu : InDomain pu Uu su u) (hv : InDomain pv Uv sv v) (hw : InDomain pw Uw sw w) :
    project (volumePoint pu pv pw (fnOf Uu) (fnOf Uv) (fnOf Uw) su sv sw (combineUnit P) u v w)
      = volumePoint pu pv pw (fnOf Uu) (fnOf Uv) (fnOf Uw) su sv sw P u v w := by
  obtain ⟨hsu, a1, a2⟩ := findSpanLinear_dom hUu.knotsOk u hu.1 hu.2
  obtain ⟨hsv, b1, b2⟩ := findSpanLinear_dom hUv.knotsOk v hv.1 hv.2
  obtain ⟨hsw, c1, c2⟩ := findSpanLinear_dom hUw.knotsOk w hw.1 hw.2
  unfold volumePoint
  exact volumePointAt_unit pu pv pw (fnOf Uu) (fnOf Uv) (fnOf Uw) su sv sw P _ _ _ u v w d hP hlen
    a2 b2 c2 a1 b1 c1 hsu hsv hsw

/-! ### the reimported shape evaluates to the same points -/

/-- what makes `evaluate_single` of a curve record meaningful on its closed domain: the setters' guard on the knot
    vector, a non-empty last span, control points of one length, and – for a rational record – POSITIVE weights
    (`wpos`: the setters also accept weights of mixed sign, but then the weight function can vanish inside the domain
    and `evaluate_single` / `derivatives` raise `ZeroDivisionError` on the exported AND on the reimported shape, while
    the model's `x / 0 = 0` would go on; the hypothesis is the guard of the driver ops `ceval`, `cders`, … and is not
    used by the proofs) -/
structure Crv.EvalOk (d : ℕ) (c : Crv K) : Prop where
  kv : kvOk c.degree c.knots c.net.length = true
  last : fnOf c.knots (c.net.length - 1) < fnOf c.knots c.net.length
  net : Geomdl.NetOk d c.net
  wpos : c.rational = true → ∀ pt ∈ c.net, 0 < pt.getLastD 0

structure Srf.EvalOk (d : ℕ) (s : Srf K) : Prop where
  len : s.net.length = s.sizeU * s.sizeV
  kvU : kvOk s.degU s.knotsU s.sizeU = true
  kvV : kvOk s.degV s.knotsV s.sizeV = true
  lastU : fnOf s.knotsU (s.sizeU - 1) < fnOf s.knotsU s.sizeU
  lastV : fnOf s.knotsV (s.sizeV - 1) < fnOf s.knotsV s.sizeV
  net : Geomdl.NetOk d s.net
  wpos : s.rational = true → ∀ pt ∈ s.net, 0 < pt.getLastD 0

structure Vol.EvalOk (d : ℕ) (x : Vol K) : Prop where
  len : x.net.length = x.sizeU * x.sizeV * x.sizeW
  kvU : kvOk x.degU x.knotsU x.sizeU = true
  kvV : kvOk x.degV x.knotsV x.sizeV = true
  kvW : kvOk x.degW x.knotsW x.sizeW = true
  lastU : fnOf x.knotsU (x.sizeU - 1) < fnOf x.knotsU x.sizeU
  lastV : fnOf x.knotsV (x.sizeV - 1) < fnOf x.knotsV x.sizeV
  lastW : fnOf x.knotsW (x.sizeW - 1) < fnOf x.knotsW x.sizeW
  net : Geomdl.NetOk d x.net
  wpos : x.rational = true → ∀ pt ∈ x.net, 0 < pt.getLastD 0

/-- **curves**: the rational form the readers return, evaluated at the normalised parameter, gives the point of
    the exported curve, for every parameter of the closed domain -/
theorem Crv.asRational_point (c : Crv K) (d : ℕ) (h : c.EvalOk d) (u : K)
    (hu : InDomain c.degree c.knots c.net.length u) :
    c.asRational.point (normParam c.knots u) = c.point u := by
  obtain ⟨hU, hne, hr⟩ := kvWF_of_kvOk _ _ _ h.kv h.last
  obtain ⟨r, p, U, P⟩ := c
  simp only [Crv.point, Crv.asRational, projIf, if_true, normParam] at *
  rw [curvePoint_normalized p U _ u hne hr]
  cases r with
  | true => simp [homNet]
  | false =>
    simp only [Bool.false_eq_true, if_false]
    rw [homNet_false_eq]
    exact curvePoint_unit p d U P hU h.net u hu

/-- **surfaces** -/
theorem Srf.asRational_point (s : Srf K) (d : ℕ) (h : s.EvalOk d) (u v : K)
    (hu : InDomain s.degU s.knotsU s.sizeU u) (hv : InDomain s.degV s.knotsV s.sizeV v) :
    s.asRational.point (normParam s.knotsU u) (normParam s.knotsV v) = s.point u v := by
  obtain ⟨hUu, hneu, hru⟩ := kvWF_of_kvOk _ _ _ h.kvU h.lastU
  obtain ⟨hUv, hnev, hrv⟩ := kvWF_of_kvOk _ _ _ h.kvV h.lastV
  obtain ⟨r, pu, pv, su, sv, Uu, Uv, P⟩ := s
  simp only [Srf.point, Srf.asRational, projIf, if_true, normParam] at *
  rw [surfacePoint_normalized pu pv Uu Uv su sv _ u v hneu hru hnev hrv]
  cases r with
  | true => simp [homNet]
  | false =>
    simp only [Bool.false_eq_true, if_false]
    rw [homNet_false_eq]
    exact surfacePoint_unit pu pv d Uu Uv su sv P hUu hUv h.len h.net u v hu hv

/-- **volumes** -/
theorem Vol.asRational_point (x : Vol K) (d : ℕ) (h : x.EvalOk d) (u v w : K)
    (hu : InDomain x.degU x.knotsU x.sizeU u) (hv : InDomain x.degV x.knotsV x.sizeV v)
    (hw : InDomain x.degW x.knotsW x.sizeW w) :
    x.asRational.point (normParam x.knotsU u) (normParam x.knotsV v) (normParam x.knotsW w) = x.point u v w := by
  obtain ⟨hUu, hneu, hru⟩ := kvWF_of_kvOk _ _ _ h.kvU h.lastU
  obtain ⟨hUv, hnev, hrv⟩ := kvWF_of_kvOk _ _ _ h.kvV h.lastV
  obtain ⟨hUw, hnew, hrw⟩ := kvWF_of_kvOk _ _ _ h.kvW h.lastW
  obtain ⟨r, pu, pv, pw, su, sv, sw, Uu, Uv, Uw, P⟩ := x
  simp only [Vol.point, Vol.asRational, projIf, if_true, normParam] at *
  rw [volumePoint_normalized pu pv pw Uu Uv Uw su sv sw _ u v w hneu hru hnev hrv hnew hrw]
  cases r with
  | true => simp [homNet]
  | false =>
    simp only [Bool.false_eq_true, if_false]
    rw [homNet_false_eq]
    exact volumePoint_unit pu pv pw d Uu Uv Uw su sv sw P hUu hUv hUw h.len h.net u v w hu hv hw

/-! ### containers: elementwise, in container order -/

theorem forall₂_map_of {α β : Type} (l : List α) (g : α → β) (R : β → α → Prop) (h : ∀ a ∈ l, R (g a) a) :
    List.Forall₂ R (l.map g) l := by
  induction l with
  | nil => exact List.Forall₂.nil
  | cons a r ih =>
    exact List.Forall₂.cons (h a List.mem_cons_self) (ih (fun b hb => h b (List.mem_cons_of_mem _ hb)))

/-- "the reimported curve `c'` evaluates like the exported curve `c`" -/
def Crv.SamePoints (c' c : Crv K) : Prop :=
  ∀ u, InDomain c.degree c.knots c.net.length u → c'.point (normParam c.knots u) = c.point u

def Srf.SamePoints (s' s : Srf K) : Prop :=
  ∀ u v, InDomain s.degU s.knotsU s.sizeU u → InDomain s.degV s.knotsV s.sizeV v →
    s'.point (normParam s.knotsU u) (normParam s.knotsV v) = s.point u v

def Vol.SamePoints (x' x : Vol K) : Prop :=
  ∀ u v w, InDomain x.degU x.knotsU x.sizeU u → InDomain x.degV x.knotsV x.sizeV v →
    InDomain x.degW x.knotsW x.sizeW w →
    x'.point (normParam x.knotsU u) (normParam x.knotsV v) (normParam x.knotsW w) = x.point u v w

end Exch
end Geomdl
