import NurbsVerif.Lemmas.RemoveInvLib
import NurbsVerif.Lemmas.InsertSurf

/-! C06 helper lemmas, part 7: surfaces.  The per-direction gather / scatter of
    `operations.remove_knot` after that of `operations.insert_knot` restores the control net
    (v direction: rows; u direction: columns). -/
namespace Geomdl
namespace RemInv
open Blossom
variable {K : Type} [Field K] [LinearOrder K] [IsStrictOrderedRing K]

theorem idx_split (sv i : ℕ) (hsv : 0 < sv) : i = i % sv + sv * (i / sv) := by
  have := Nat.mod_add_div i sv
  omega

theorem div_lt_of_lt_mul' (su sv i : ℕ) (h : i < su * sv) : i / sv < su :=
  Nat.div_lt_of_lt_mul (by rw [Nat.mul_comm]; exact h)

/-- two nets of size `su × sv` with the same rows are equal -/
theorem net_eq_of_rows (su sv : ℕ) (A B : List (List K)) (hA : A.length = su * sv) (hB : B.length = su * sv)
    (h : ∀ x, x < su → rowOf sv A x = rowOf sv B x) : A = B := by
  apply net_ext A B (by rw [hA, hB])
  intro i hi
  rw [hA] at hi
  have hsv : 0 < sv := by
    rcases Nat.eq_zero_or_pos sv with h0 | h0
    · rw [h0] at hi; simp at hi
    · exact h0
  have hx := div_lt_of_lt_mul' su sv i hi
  have hv : i % sv < sv := Nat.mod_lt _ hsv
  rw [idx_split sv i hsv, ← rowOf_get sv A _ _ hv, ← rowOf_get sv B _ _ hv, h _ hx]

/-- two nets of size `su × sv` with the same columns are equal -/
theorem net_eq_of_cols (su sv : ℕ) (A B : List (List K)) (hA : A.length = su * sv) (hB : B.length = su * sv)
    (h : ∀ y, y < sv → colOf su sv A y = colOf su sv B y) : A = B := by
  apply net_ext A B (by rw [hA, hB])
  intro i hi
  rw [hA] at hi
  have hsv : 0 < sv := by
    rcases Nat.eq_zero_or_pos sv with h0 | h0
    · rw [h0] at hi; simp at hi
    · exact h0
  have hx := div_lt_of_lt_mul' su sv i hi
  have hv : i % sv < sv := Nat.mod_lt _ hsv
  rw [idx_split sv i hsv, ← colOf_get su sv A _ _ hx, ← colOf_get su sv B _ _ hx, h _ hv]

theorem rowOf_length (sv : ℕ) (P : List (List K)) (x : ℕ) : (rowOf sv P x).length = sv := by simp [rowOf]
theorem colOf_length (su sv : ℕ) (P : List (List K)) (y : ℕ) : (colOf su sv P y).length = su := by simp [colOf]

/-- length and second component of `mapSurfV` for a transformation with uniform output length -/
theorem mapSurfV_size (su sv L : ℕ) (P : List (List K)) (f : List (List K) → List (List K)) (hsu : 0 < su)
    (hf : ∀ x, x < su → (f (rowOf sv P x)).length = L) :
    (mapSurfV su sv P f).1.length = su * L ∧ (mapSurfV su sv P f).2 = L := by
  have hrows : ∀ r ∈ (List.range su).map (fun u => f (rowOf sv P u)), r.length = L := by
    intro r hr
    simp only [List.mem_map, List.mem_range] at hr
    obtain ⟨a, ha, rfl⟩ := hr
    exact hf a ha
  constructor
  · show (List.flatten ((List.range su).map (fun u => f (rowOf sv P u)))).length = _
    rw [flatten_uniform_length L _ hrows]; simp; ring
  · show (((List.range su).map (fun u => f (rowOf sv P u))).headD []).length = L
    cases su with
    | zero => omega
    | succ n =>
      rw [List.range_succ_eq_map]
      simp only [List.map_cons, List.headD_cons]
      exact hf 0 (by omega)

/-- columns of the net produced by `mapSurfU` are the transformed columns (any transformation with
    uniform output length `L`) -/
theorem mapSurfU_cols (su sv L : ℕ) (P : List (List K)) (f : List (List K) → List (List K)) (hsv : 0 < sv)
    (hf : ∀ y, y < sv → (f (colOf su sv P y)).length = L) :
    (mapSurfU su sv P f).2 = L ∧ (mapSurfU su sv P f).1.length = L * sv ∧
      ∀ y, y < sv → colOf L sv (mapSurfU su sv P f).1 y = f (colOf su sv P y) := by
  have hsize : (mapSurfU su sv P f).2 = L := by
    show (((List.range sv).map (fun v => f (colOf su sv P v))).headD []).length = L
    cases sv with
    | zero => omega
    | succ n =>
      rw [List.range_succ_eq_map]
      simp only [List.map_cons, List.headD_cons]
      exact hf 0 (by omega)
  have hrows : ∀ rw_ ∈ (List.range L).map (fun u => (List.range sv).map (fun v =>
      ptsGet (((List.range sv).map (fun v => f (colOf su sv P v))).getD v []) u)), rw_.length = sv := by
    intro rw_ h
    simp only [List.mem_map, List.mem_range] at h
    obtain ⟨a, _, rfl⟩ := h
    simp
  have hnet : (mapSurfU su sv P f).1 = List.flatten ((List.range L).map (fun u => (List.range sv).map (fun v =>
      ptsGet (((List.range sv).map (fun v => f (colOf su sv P v))).getD v []) u))) := by
    show (List.range (mapSurfU su sv P f).2).flatMap _ = _
    rw [hsize, List.flatMap_def]
    rfl
  have hentry : ∀ y a, y < sv → a < L →
      ptsGet (mapSurfU su sv P f).1 (y + sv * a) = ptsGet (f (colOf su sv P y)) a := by
    intro y a hy ha
    unfold ptsGet
    rw [hnet, flatten_uniform_getD [] sv _ hrows a y (by simp; exact ha) hy]
    simp [List.getD_eq_getElem?_getD, ha, hy, ptsGet]
  refine ⟨hsize, ?_, ?_⟩
  · rw [hnet, flatten_uniform_length sv _ hrows]; simp [Nat.mul_comm]
  · intro y hy
    apply List.ext_getElem
    · rw [hf y hy]; simp [colOf]
    · intro i h1 h2
      have hi : i < L := by simpa [colOf] using h1
      simp only [colOf, List.getElem_map, List.getElem_range]
      rw [hentry y i hy hi]
      unfold ptsGet
      rw [List.getD_eq_getElem?_getD, List.getElem?_eq_getElem h2]
      rfl

section surf
variable (Ul : List K) (P : List (List K)) (ub : K) (p r t s k d su sv : ℕ) (tol2 : K)
  (hP : NetOk d P) (hlenP : P.length = su * sv)
  (hm : Monotone (fnOf Ul)) (hlen : k + 1 < Ul.length)
  (hk2 : ub < fnOf Ul (k + 1)) (hs : fnOf Ul (k - s) < ub)
  (ht1 : 1 ≤ t) (htr : t ≤ r) (hrs : r + s ≤ p) (hpk : p ≤ k) (htol : 0 ≤ tol2)
include hP hlenP hm hlen hk2 hs ht1 htr hrs hpk htol

/-- **v direction**: every row (iso-curve `u = const`) goes through A5.1 (`r` copies) and then through
    A5.8 (`t ≤ r` removals); the net is the one of `r - t` insertions, the v-size is `sv + r - t` -/
theorem surfV_remove_t_of_r (hsu : 0 < su) (hk : k < sv) :
    mapSurfV su (sv + r) (mapSurfV su sv P (fun c => knotInsertion p (fnOf Ul) c ub r s k)).1
        (fun c => knotRemoval p (fnOf (knotInsertionKv Ul ub k r)) c ub t (s + r) (k + r) tol2)
      = mapSurfV su sv P (fun c => knotInsertion p (fnOf Ul) c ub (r - t) s k) := by
  obtain ⟨hQl, hQ, hQrows⟩ := mapSurfV_spec su sv d r p (fnOf Ul) P ub s k hP hlenP hpk hk hrs
  obtain ⟨hTl, _, hTrows⟩ := mapSurfV_spec su sv d (r - t) p (fnOf Ul) P ub s k hP hlenP hpk hk (by omega)
  have hf : ∀ x, x < su → (knotRemoval p (fnOf (knotInsertionKv Ul ub k r))
      (rowOf (sv + r) (mapSurfV su sv P (fun c => knotInsertion p (fnOf Ul) c ub r s k)).1 x) ub t (s + r) (k + r) tol2).length
        = sv + (r - t) := by
    intro x hx
    rw [knotRemoval_length, rowOf_length]; omega
  obtain ⟨hRl, hR2⟩ := mapSurfV_size su (sv + r) (sv + (r - t))
    (mapSurfV su sv P (fun c => knotInsertion p (fnOf Ul) c ub r s k)).1
    (fun c => knotRemoval p (fnOf (knotInsertionKv Ul ub k r)) c ub t (s + r) (k + r) tol2) hsu hf
  have hrow := fun x hx => mapSurfV_rows su (sv + r) (sv + (r - t))
    (mapSurfV su sv P (fun c => knotInsertion p (fnOf Ul) c ub r s k)).1
    (fun c => knotRemoval p (fnOf (knotInsertionKv Ul ub k r)) c ub t (s + r) (k + r) tol2) hf x hx
  have hT2 := (mapSurfV_size su sv (sv + (r - t)) P (fun c => knotInsertion p (fnOf Ul) c ub (r - t) s k) hsu
    (fun x _ => by rw [knotInsertion_length, rowOf_length])).2
  apply Prod.ext
  · apply net_eq_of_rows su (sv + (r - t)) _ _ hRl hTl
    intro x hx
    rw [hrow x hx, hQrows x hx, hTrows x hx]
    exact remove_t_of_r p Ul (rowOf sv P x) ub r t s k d tol2 (rowOf_netOk su sv d P hP hlenP x hx) hm hlen hk2 hs
      ht1 htr hrs hpk (by rw [rowOf_length]; exact hk) htol
  · rw [hR2, hT2]

/-- **u direction**: every column (iso-curve `v = const`) goes through A5.1 and then A5.8 -/
theorem surfU_remove_t_of_r (hsv : 0 < sv) (hk : k < su) :
    mapSurfU (su + r) sv (mapSurfU su sv P (fun c => knotInsertion p (fnOf Ul) c ub r s k)).1
        (fun c => knotRemoval p (fnOf (knotInsertionKv Ul ub k r)) c ub t (s + r) (k + r) tol2)
      = mapSurfU su sv P (fun c => knotInsertion p (fnOf Ul) c ub (r - t) s k) := by
  obtain ⟨_, hQl, hQ, hQcols⟩ := mapSurfU_spec su sv d r p (fnOf Ul) P ub s k hP hlenP hsv hpk hk hrs
  obtain ⟨hT2, hTl, _, hTcols⟩ := mapSurfU_spec su sv d (r - t) p (fnOf Ul) P ub s k hP hlenP hsv hpk hk (by omega)
  have hf : ∀ y, y < sv → (knotRemoval p (fnOf (knotInsertionKv Ul ub k r))
      (colOf (su + r) sv (mapSurfU su sv P (fun c => knotInsertion p (fnOf Ul) c ub r s k)).1 y) ub t (s + r) (k + r) tol2).length
        = su + (r - t) := by
    intro y hy
    rw [knotRemoval_length, colOf_length]; omega
  obtain ⟨hR2, hRl, hcol⟩ := mapSurfU_cols (su + r) sv (su + (r - t))
    (mapSurfU su sv P (fun c => knotInsertion p (fnOf Ul) c ub r s k)).1
    (fun c => knotRemoval p (fnOf (knotInsertionKv Ul ub k r)) c ub t (s + r) (k + r) tol2) hsv hf
  apply Prod.ext
  · apply net_eq_of_cols (su + (r - t)) sv _ _ hRl hTl
    intro y hy
    rw [hcol y hy, hQcols y hy, hTcols y hy]
    exact remove_t_of_r p Ul (colOf su sv P y) ub r t s k d tol2 (colOf_netOk su sv d P hP hlenP y hy) hm hlen hk2 hs
      ht1 htr hrs hpk (by rw [colOf_length]; exact hk) htol
  · rw [hR2, hT2]

end surf

theorem mapSurfV_id (su sv : ℕ) (P : List (List K)) (hlenP : P.length = su * sv) (hsu : 0 < su)
    (f : List (List K) → List (List K)) (hf : ∀ x, x < su → f (rowOf sv P x) = rowOf sv P x) :
    mapSurfV su sv P f = (P, sv) := by
  have hlf : ∀ x, x < su → (f (rowOf sv P x)).length = sv := fun x hx => by rw [hf x hx, rowOf_length]
  obtain ⟨h1, h2⟩ := mapSurfV_size su sv sv P f hsu hlf
  apply Prod.ext
  · apply net_eq_of_rows su sv _ _ h1 hlenP
    intro x hx
    rw [mapSurfV_rows su sv sv P f hlf x hx, hf x hx]
  · exact h2

theorem mapSurfU_id (su sv : ℕ) (P : List (List K)) (hlenP : P.length = su * sv) (hsv : 0 < sv)
    (f : List (List K) → List (List K)) (hf : ∀ y, y < sv → f (colOf su sv P y) = colOf su sv P y) :
    mapSurfU su sv P f = (P, su) := by
  have hlf : ∀ y, y < sv → (f (colOf su sv P y)).length = su := fun y hy => by rw [hf y hy, colOf_length]
  obtain ⟨h2, h1, hc⟩ := mapSurfU_cols su sv su P f hsv hlf
  apply Prod.ext
  · apply net_eq_of_cols su sv _ _ h1 hlenP
    intro y hy
    rw [hc y hy, hf y hy]
  · exact h2


section surf2
variable (Ul : List K) (P : List (List K)) (ub : K) (p r s k d su sv : ℕ) (tol2 : K)
  (hP : NetOk d P) (hlenP : P.length = su * sv)
  (hm : Monotone (fnOf Ul)) (hlen : k + 1 < Ul.length)
  (hk2 : ub < fnOf Ul (k + 1)) (hs : fnOf Ul (k - s) < ub)
  (hr1 : 1 ≤ r) (hrs : r + s ≤ p) (hpk : p ≤ k) (htol : 0 ≤ tol2)
include hP hlenP hm hlen hk2 hs hr1 hrs hpk htol

/-- **v direction round trip**: `r` insertions then `r` removals restore the surface net and its v-size -/
theorem surfV_remove_inverts_insert (hsu : 0 < su) (hk : k < sv) :
    mapSurfV su (sv + r) (mapSurfV su sv P (fun c => knotInsertion p (fnOf Ul) c ub r s k)).1
        (fun c => knotRemoval p (fnOf (knotInsertionKv Ul ub k r)) c ub r (s + r) (k + r) tol2) = (P, sv) := by
  rw [surfV_remove_t_of_r Ul P ub p r r s k d su sv tol2 hP hlenP hm hlen hk2 hs hr1 (le_refl _) hrs hpk htol hsu hk]
  rw [show r - r = 0 by omega]
  exact mapSurfV_id su sv P hlenP hsu _ (fun x _ => knotInsertion_zero p _ _ ub s k hpk)

/-- **u direction round trip** -/
theorem surfU_remove_inverts_insert (hsv : 0 < sv) (hk : k < su) :
    mapSurfU (su + r) sv (mapSurfU su sv P (fun c => knotInsertion p (fnOf Ul) c ub r s k)).1
        (fun c => knotRemoval p (fnOf (knotInsertionKv Ul ub k r)) c ub r (s + r) (k + r) tol2) = (P, su) := by
  rw [surfU_remove_t_of_r Ul P ub p r r s k d su sv tol2 hP hlenP hm hlen hk2 hs hr1 (le_refl _) hrs hpk htol hsv hk]
  rw [show r - r = 0 by omega]
  exact mapSurfU_id su sv P hlenP hsv _ (fun y _ => knotInsertion_zero p _ _ ub s k hpk)

end surf2

end RemInv
end Geomdl
