import NurbsVerif.Lemmas.FitGuards
import NurbsVerif.Lemmas.FitKnots2
import NurbsVerif.Lemmas.InsertAll
import Mathlib.Algebra.Order.Field.Rat
import Mathlib.Algebra.Order.Floor.Ring

/-! Concrete data (exact rationals) on which the guard bundles of Props/C11.lean hold and the model returns. -/
namespace C11
open Geomdl

/-- the floor the driver uses (`int(·)` on non-negative numbers) -/
def flQ : ℚ → ℕ := fun x => x.floor.toNat

theorem flQ_floor : IsFloor flQ := by
  intro x hx
  have h1 : (0:ℤ) ≤ x.floor := Rat.le_floor_iff.mpr (by simpa using hx)
  have h2 : ((x.floor.toNat : ℕ) : ℚ) = ((x.floor : ℤ) : ℚ) := by
    rw [← Int.cast_natCast, Int.toNat_of_nonneg h1]
  refine ⟨by show ((x.floor.toNat : ℕ) : ℚ) ≤ x; rw [h2]; exact Rat.floor_le x, ?_⟩
  show x < ((x.floor.toNat : ℕ) : ℚ) + 1
  rw [h2]
  have := Rat.lt_floor_add_one x
  push_cast at this
  exact this

/-- 7 data points in the plane, chord lengths 2,1,2,2,1,2 -/
def ptsC : List (List ℚ) := [[0,0],[1,2],[2,3],[4,3],[5,1],[6,0],[7,2]]
def cdsC : List ℚ := [2,1,2,2,1,2]

theorem netC : NetOk 2 ptsC := by
  intro pt hpt; simp [ptsC] at hpt; rcases hpt with h | h | h | h | h | h | h <;> simp [h]

theorem okIC : InterpCurveOk 3 ptsC cdsC := ⟨by omega, by decide, by decide, by decide +kernel, 2, le_refl _, netC⟩
theorem okAC : ApproxCurveOk 2 ptsC cdsC 4 :=
  ⟨by omega, by omega, by omega, by decide, by decide, by decide +kernel, 2, le_refl _, netC⟩

/-- a 3 × 4 grid of data points for the surface interpolation -/
def ptsI : List (List ℚ) :=
  [[0,0,0],[0,1,1],[0,2,0],[0,3,2], [1,0,1],[1,1,2],[1,2,1],[1,3,0], [2,0,0],[2,1,1],[2,2,3],[2,3,1]]
def cuI : List (List ℚ) := [[1,1],[1,2],[2,1],[1,3]]
def cvI : List (List ℚ) := [[1,1,2],[1,2,1],[2,1,1]]

theorem netI : NetOk 3 ptsI := by
  intro pt hpt
  simp [ptsI] at hpt
  rcases hpt with h | h | h | h | h | h | h | h | h | h | h | h <;> simp [h]

theorem okIS : InterpSurfOk 2 2 3 4 ptsI cuI cvI :=
  ⟨by omega, by omega, by omega, by omega, by decide, by decide +kernel, by decide +kernel, 3, by omega, netI⟩

/-- a 4 × 5 grid of data points for the surface approximation (degrees 2 and 1, 3 × 4 control points) -/
def ptsA : List (List ℚ) :=
  [[0,0,0],[0,1,1],[0,2,0],[0,3,2],[0,4,1], [1,0,1],[1,1,2],[1,2,1],[1,3,0],[1,4,2],
   [2,0,0],[2,1,1],[2,2,3],[2,3,1],[2,4,0], [3,0,1],[3,1,0],[3,2,2],[3,3,1],[3,4,3]]
def cuA : List (List ℚ) := [[1,1,2],[1,2,1],[2,1,1],[1,3,1],[1,1,1]]      -- sv = 5 lists of su-1 = 3 chords
def cvA : List (List ℚ) := [[1,1,2,1],[1,2,1,1],[2,1,1,1],[1,1,1,2]]      -- su = 4 lists of sv-1 = 4 chords

theorem netA : NetOk 3 ptsA := by
  intro pt hpt
  simp [ptsA] at hpt
  rcases hpt with h | h | h | h | h | h | h | h | h | h | h | h | h | h | h | h | h | h | h | h <;> simp [h]

theorem okA : ApproxSurfOk 2 1 4 5 ptsA cuA cvA 3 4 :=
  ⟨by omega, by omega, by omega, by omega, by omega, by omega, by omega, by omega, by decide,
   by decide +kernel, by decide +kernel, 3, by omega, netA⟩

theorem resA : ∃ r, approximateSurface 2 1 4 5 ptsA cuA cvA 3 4 flQ = some r := by
  have h : (approximateSurface 2 1 4 5 ptsA cuA cvA 3 4 flQ).isSome = true := by decide +kernel
  exact Option.isSome_iff_exists.mp h

theorem resAC : ∃ r, approximateCurve 2 ptsC cdsC 4 flQ = some r := by
  have h : (approximateCurve 2 ptsC cdsC 4 flQ).isSome = true := by decide +kernel
  exact Option.isSome_iff_exists.mp h

/-- the doubles `1.0/3` and `1.0/5` (exact values): the first is below `1/3`, the second above `1/5` by `2⁻⁵⁴` -/
def dbl13 : ℚ := 6004799503160661 / 18014398509481984
def dbl15 : ℚ := 3602879701896397 / 18014398509481984

theorem okIC5 : InterpCurveOk 5 ptsC cdsC := ⟨by omega, by decide, by decide, by decide +kernel, 2, le_refl _, netC⟩

theorem resIC13 : ∃ r, interpolateCurve 3 ptsC cdsC dbl13 = some r := by
  have h : (interpolateCurve 3 ptsC cdsC dbl13).isSome = true := by decide +kernel
  exact Option.isSome_iff_exists.mp h

theorem resIC15 : ∃ r, interpolateCurve 5 ptsC cdsC dbl15 = some r := by
  have h : (interpolateCurve 5 ptsC cdsC dbl15).isSome = true := by decide +kernel
  exact Option.isSome_iff_exists.mp h

theorem resIS : ∃ r, interpolateSurface 2 2 3 4 ptsI cuI cvI (1/2) (1/2) = some r := by
  have h : (interpolateSurface 2 2 3 4 ptsI cuI cvI (1/2) (1/2)).isSome = true := by decide +kernel
  exact Option.isSome_iff_exists.mp h

end C11
