import NurbsVerif.Lemmas.BasisPositive
import NurbsVerif.Lemmas.AssembleCdb
import NurbsVerif.Lemmas.Hull

/-!
  Exact zero pattern of the Cox–de Boor functions (`cdb`, Eq. 2.5) on a half-open span and of the
  recursion of a span (`cdbSpan`, the left-limit convention used at the closed right end of the domain)
  on a closed non-empty span – consequences of `basisFuns_pos_iff`.
-/
namespace Geomdl
open Blossom
variable {K : Type} [Field K] [LinearOrder K] [IsStrictOrderedRing K]

/-- closed non-empty span `k`: `N_{i,p}` (recursion of span `k`) is positive at `u` iff `i` is in the
    window `k-p … k`, and (`i = k-p` or `U i < u`), and (`i = k` or `u < U (i+p+1)`). -/
theorem cdbSpan_pos_iff {U : ℕ → K} {k : ℕ} {u : K} (h : SpanOk U k u) (p : ℕ) (hp : p ≤ k) (i : ℕ) :
    0 < cdbSpan U k p i u ↔
      (k ≤ i + p ∧ i ≤ k) ∧ (i + p = k ∨ U i < u) ∧ (i = k ∨ u < U (i + p + 1)) := by
  rw [cdbSpan_eq_basisFuns U k u p hp i]
  by_cases hw : k ≤ i + p ∧ i ≤ k
  · rw [if_pos hw, basisFuns_pos_iff h p hp (i + p - k) (by omega)]
    have e1 : k + (i + p - k) - p = i := by omega
    have e2 : k + (i + p - k) + 1 = i + p + 1 := by omega
    rw [e1, e2]
    constructor
    · rintro ⟨a, b⟩
      exact ⟨hw, a.imp (by omega) id, b.imp (by omega) id⟩
    · rintro ⟨_, a, b⟩
      exact ⟨a.imp (by omega) id, b.imp (by omega) id⟩
  · rw [if_neg hw]
    exact ⟨fun a => absurd a (lt_irrefl _), fun a => absurd a.1 hw⟩

theorem cdbSpan_nonneg {U : ℕ → K} {k : ℕ} {u : K} (h : SpanOk U k u) (p : ℕ) (hp : p ≤ k) (i : ℕ) :
    0 ≤ cdbSpan U k p i u := by
  rw [cdbSpan_eq_basisFuns U k u p hp i]
  by_cases hw : k ≤ i + p ∧ i ≤ k
  · rw [if_pos hw]; exact basisFuns_getD_nonneg_all p h _
  · rw [if_neg hw]

theorem cdbSpan_ne_zero_iff {U : ℕ → K} {k : ℕ} {u : K} (h : SpanOk U k u) (p : ℕ) (hp : p ≤ k) (i : ℕ) :
    cdbSpan U k p i u ≠ 0 ↔
      (k ≤ i + p ∧ i ≤ k) ∧ (i + p = k ∨ U i < u) ∧ (i = k ∨ u < U (i + p + 1)) := by
  rw [← cdbSpan_pos_iff h p hp i]
  have := cdbSpan_nonneg h p hp i
  exact ⟨fun a => lt_of_le_of_ne this (Ne.symm a), fun a => ne_of_gt a⟩

/-- half-open span `U k ≤ u < U (k+1)`: the Cox–de Boor function `N_{i,p}` is positive at `u` iff
    `k-p ≤ i ≤ k` and (`i = k-p` or `U i < u`). -/
theorem cdb_pos_iff {U : ℕ → K} {k : ℕ} {u : K} (hm : Monotone U) (h1 : U k ≤ u) (h2 : u < U (k+1))
    (p : ℕ) (hp : p ≤ k) (i : ℕ) :
    0 < cdb U p i u ↔ (k ≤ i + p ∧ i ≤ k) ∧ (i + p = k ∨ U i < u) := by
  rw [← cdbSpan_eq_cdb U k u hm h1 h2 p i,
    cdbSpan_pos_iff ⟨hm, h1, le_of_lt h2, lt_of_le_of_lt h1 h2⟩ p hp i]
  constructor
  · rintro ⟨a, b, _⟩; exact ⟨a, b⟩
  · rintro ⟨a, b⟩
    refine ⟨a, b, Or.inr ?_⟩
    have : U (k + 1) ≤ U (i + p + 1) := hm (by omega)
    exact lt_of_lt_of_le h2 this

theorem cdb_nonneg {U : ℕ → K} {k : ℕ} {u : K} (hm : Monotone U) (h1 : U k ≤ u) (h2 : u < U (k+1))
    (p : ℕ) (hp : p ≤ k) (i : ℕ) : 0 ≤ cdb U p i u := by
  rw [← cdbSpan_eq_cdb U k u hm h1 h2 p i]
  exact cdbSpan_nonneg ⟨hm, h1, le_of_lt h2, lt_of_le_of_lt h1 h2⟩ p hp i

theorem cdb_ne_zero_iff {U : ℕ → K} {k : ℕ} {u : K} (hm : Monotone U) (h1 : U k ≤ u) (h2 : u < U (k+1))
    (p : ℕ) (hp : p ≤ k) (i : ℕ) :
    cdb U p i u ≠ 0 ↔ (k ≤ i + p ∧ i ≤ k) ∧ (i + p = k ∨ U i < u) := by
  rw [← cdb_pos_iff hm h1 h2 p hp i]
  have := cdb_nonneg hm h1 h2 p hp i
  exact ⟨fun a => lt_of_le_of_ne this (Ne.symm a), fun a => ne_of_gt a⟩

/-- strictly inside the span: `N_{i,p}(u) ≠ 0` iff `k-p ≤ i ≤ k` -/
theorem cdb_ne_zero_iff_inside {U : ℕ → K} {k : ℕ} {u : K} (hm : Monotone U) (h1 : U k < u) (h2 : u < U (k+1))
    (p : ℕ) (hp : p ≤ k) (i : ℕ) :
    cdb U p i u ≠ 0 ↔ (k ≤ i + p ∧ i ≤ k) := by
  rw [cdb_ne_zero_iff hm (le_of_lt h1) h2 p hp i]
  constructor
  · exact fun a => a.1
  · intro a
    have : U i ≤ U k := hm a.2
    exact ⟨a, Or.inr (lt_of_le_of_lt this h1)⟩

/-- **clamped right end**: if `U k < U (k+1) = U (k+2) = … = U (k+p)` then at `u = U (k+1)` the
    recursion of span `k` gives `N_{k,p} = 1` and every other function `0`. -/
theorem cdbSpan_clamped_end {U : ℕ → K} {k : ℕ} (hm : Monotone U) (hne : U k < U (k+1))
    (p : ℕ) (hp : p ≤ k) (hU : ∀ r, k + 1 ≤ r → r ≤ k + p → U r = U (k+1)) (i : ℕ) :
    cdbSpan U k p i (U (k+1)) = if i = k then 1 else 0 := by
  rw [cdbSpan_eq_basisFuns U k _ p hp i, basisFuns_at_clamped_end U k _ hm hne p hp hU rfl]
  by_cases hw : k ≤ i + p ∧ i ≤ k
  · rw [if_pos hw]
    by_cases hik : i = k
    · subst hik
      rw [if_pos rfl, Nat.add_sub_cancel_left]
      simp [List.getD_eq_getElem?_getD]
    · rw [if_neg hik, List.getD_eq_getElem?_getD,
        List.getElem?_append_left (by rw [List.length_replicate]; omega)]
      rw [List.getElem?_replicate]
      split <;> rfl
  · rw [if_neg hw, if_neg (by omega)]

end Geomdl
