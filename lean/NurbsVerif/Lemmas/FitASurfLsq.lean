import NurbsVerif.Lemmas.FitASurf

/-! `fitting.approximate_surface`, part 3: every pass (`Geomdl.lsqPass`) solves the normal equations of
    its data line (whenever the solver returns) and therefore minimises the sum of squared residuals of
    that line among all polygons with the same end points.  (A9.7 is two families of curve fits, not a
    least-squares fit of the surface as a whole.) -/
namespace Geomdl
open Finset Lin
variable {K : Type} [Field K] [LinearOrder K] [IsStrictOrderedRing K]

/-- the list `rk` (Eq. 9.63) of a pass with `dim` coordinates -/
def passRk (p : ℕ) (U : ℕ → K) (m : ℕ) (uk : List K) (pts : List (List K)) (nc dim : ℕ) : List (List K) :=
  (List.range' 1 (pts.length - 2)).map (fun i =>
    (List.range dim).map (fun c =>
      (pts.getD i []).getD c 0 - (pts.headD []).getD c 0 * basisFunOne p U m 0 (uk.getD i 0)
        - (pts.getLastD []).getD c 0 * basisFunOne p U m (nc - 1) (uk.getD i 0)))

/-- the right-hand side `R` (Eq. 9.67) of a pass with `dim` coordinates -/
def passR (p : ℕ) (U : ℕ → K) (m : ℕ) (uk : List K) (pts : List (List K)) (nc dim : ℕ) : List (List K) :=
  (List.range' 1 (nc - 2)).map (fun i =>
    (List.range dim).map (fun c =>
      sumL ((List.range (pts.length - 2)).map (fun idx =>
        ((passRk p U m uk pts nc dim).getD idx []).getD c 0 * basisFunOne p U m i (uk.getD (idx + 1) 0)))))

omit [IsStrictOrderedRing K] in
theorem lsqPass_eq (p : ℕ) (U : ℕ → K) (m : ℕ) (uk : List K) (pts : List (List K)) (nc dim : ℕ) :
    lsqPass p U m uk pts nc dim =
      (let N := apxN p U m uk pts.length nc
       match luSolve (matrixMultiply (matrixTranspose N) N) (passR p U m uk pts nc dim) with
       | none => none
       | some x => some ([pts.headD []] ++ x ++ [pts.getLastD []])) := rfl

section pieces
variable (p : ℕ) (U : ℕ → K) (m : ℕ) (uk : List K) (pts : List (List K)) (nc dim : ℕ)

theorem passRk_ent (k c : ℕ) (hk : k < pts.length - 2) (hc : c < dim) :
    ent (passRk p U m uk pts nc dim) k c =
      (pts.getD (1 + k) []).getD c 0 - (pts.headD []).getD c 0 * basisFunOne p U m 0 (uk.getD (1 + k) 0)
        - (pts.getLastD []).getD c 0 * basisFunOne p U m (nc - 1) (uk.getD (1 + k) 0) :=
  ent_map_range'_range 1 (pts.length - 2) dim _ k c hk hc

omit [IsStrictOrderedRing K] in
theorem passR_length : (passR p U m uk pts nc dim).length = nc - 2 := by simp [passR]

omit [IsStrictOrderedRing K] in
theorem passR_head_length (h : 0 < nc - 2) : ((passR p U m uk pts nc dim).headD []).length = dim := by
  unfold passR
  obtain ⟨q, hq⟩ : ∃ q, nc - 2 = q + 1 := ⟨nc - 2 - 1, by omega⟩
  rw [hq]
  simp [List.range'_succ]

theorem passR_ent (i c : ℕ) (hi : i < nc - 2) (hc : c < dim) :
    ent (passR p U m uk pts nc dim) i c =
      ∑ k ∈ range (pts.length - 2), ent (passRk p U m uk pts nc dim) k c * basisFunOne p U m (1 + i) (uk.getD (k + 1) 0) := by
  unfold passR
  rw [ent_map_range'_range 1 (nc - 2) dim _ i c hi hc, sumL_map_range]
  rfl

end pieces

/-- **a pass solves the normal equations** (Eqs. 9.65–9.67 as coded): whenever the solver returns, the
    polygon is `Q₀ :: x ++ [Q_m]` with `nc − 2` interior points `x` of `dim` coordinates and, coordinate
    by coordinate, `NᵀN x = Nᵀ Rk` for `N k j = N_{j+1,p}(ū_{k+1})` (as computed by `basis_function_one`)
    and `Rk k = Q_{k+1} − N_{0,p}(ū_{k+1}) Q₀ − N_{nc−1,p}(ū_{k+1}) Q_m`. -/
theorem lsqPass_normal (p : ℕ) (U : ℕ → K) (m : ℕ) (uk : List K) (pts : List (List K)) (nc dim : ℕ)
    (cp : List (List K)) (hnc : nc ≤ pts.length) (h : lsqPass p U m uk pts nc dim = some cp) :
    ∃ x : List (List K), cp = [pts.headD []] ++ x ++ [pts.getLastD []] ∧ x.length = nc - 2 ∧
      (∀ row ∈ x, row.length = dim) ∧
      ∀ c, c < dim →
        Lsq.Normal (pts.length - 2) (nc - 2)
          (fun k j => basisFunOne p U m (1 + j) (uk.getD (1 + k) 0))
          (fun k => (pts.getD (1 + k) []).getD c 0
              - (pts.headD []).getD c 0 * basisFunOne p U m 0 (uk.getD (1 + k) 0)
              - (pts.getLastD []).getD c 0 * basisFunOne p U m (nc - 1) (uk.getD (1 + k) 0))
          (fun j => ent x j c) := by
  obtain ⟨x, hcp, hxl, hrows⟩ := lsqPass_ends p U m uk pts nc dim cp h
  refine ⟨x, hcp, hxl, hrows, ?_⟩
  rw [lsqPass_eq] at h
  simp only [] at h
  split at h
  · exact absurd h (by simp)
  · rename_i x' hsolve
    injection h with hcp'
    have hxx : x' = x := by
      rw [hcp] at hcp'
      have := List.append_cancel_right hcp'
      exact List.append_cancel_left this
    subst hxx
    intro c hc i hi
    have hnd : 0 < pts.length - 2 := by omega
    obtain ⟨_, _, hsol⟩ := luSolve_correct _ _ x' (by rw [passR_length, apxNTN_length _ _ _ _ _ _ hnc]) hsolve
    rw [apxNTN_length _ _ _ _ _ _ hnc] at hsol
    have hs := hsol i hi c (by rw [passR_head_length _ _ _ _ _ _ _ (by omega)]; exact hc)
    rw [passR_ent _ _ _ _ _ _ _ i c hi hc] at hs
    have e1 : ∀ j ∈ range (nc - 2),
        ent (matrixMultiply (matrixTranspose (apxN p U m uk pts.length nc)) (apxN p U m uk pts.length nc)) i j * ent x' j c
        = (∑ k ∈ range (pts.length - 2),
            basisFunOne p U m (1 + i) (uk.getD (1 + k) 0) * basisFunOne p U m (1 + j) (uk.getD (1 + k) 0)) * ent x' j c := by
      intro j hj
      rw [apxNTN_ent _ _ _ _ _ _ i j hnd hi (mem_range.mp hj)]
      congr 1
      apply sum_congr rfl
      intro k hk
      rw [apxN_ent _ _ _ _ _ _ k i (mem_range.mp hk) hi, apxN_ent _ _ _ _ _ _ k j (mem_range.mp hk) (mem_range.mp hj)]
    rw [sum_congr rfl e1] at hs
    rw [hs]
    apply sum_congr rfl
    intro k hk
    rw [passRk_ent _ _ _ _ _ _ _ k c (mem_range.mp hk) hc, Nat.add_comm k 1]
    ring

/-- spec-level predicate: `cp` is a least-squares polygon of the data line `pts` – the ends of the line,
    `nc − 2` interior points of `dim` coordinates that solve the normal equations of every coordinate -/
def IsLsqLine (p : ℕ) (U : ℕ → K) (m : ℕ) (uk : List K) (pts : List (List K)) (nc dim : ℕ) (cp : List (List K)) : Prop :=
  ∃ x : List (List K), cp = [pts.headD []] ++ x ++ [pts.getLastD []] ∧ x.length = nc - 2 ∧
    (∀ row ∈ x, row.length = dim) ∧
    ∀ c, c < dim →
      Lsq.Normal (pts.length - 2) (nc - 2)
        (fun k j => basisFunOne p U m (1 + j) (uk.getD (1 + k) 0))
        (fun k => (pts.getD (1 + k) []).getD c 0
            - (pts.headD []).getD c 0 * basisFunOne p U m 0 (uk.getD (1 + k) 0)
            - (pts.getLastD []).getD c 0 * basisFunOne p U m (nc - 1) (uk.getD (1 + k) 0))
        (fun j => ent x j c)

/-- a least-squares polygon minimises `Σ_{k=1}^{nd−2} Σ_{c<dim} (Q_{k,c} − Σ_j N_{j,p}(ū_k) P_{j,c})²`
    (`lsqError`) among all polygons with the same ends and `nc − 2` interior points -/
theorem IsLsqLine.minimises {p : ℕ} {U : ℕ → K} {m : ℕ} {uk : List K} {pts : List (List K)} {nc dim : ℕ}
    {cp : List (List K)} (h : IsLsqLine p U m uk pts nc dim cp) (hnc2 : 2 ≤ nc)
    (y : List (List K)) (hy : y.length = nc - 2) :
    lsqError p U m uk pts dim cp ≤ lsqError p U m uk pts dim ([pts.headD []] ++ y ++ [pts.getLastD []]) := by
  obtain ⟨x, hcp, hxl, _, hnorm⟩ := h
  rw [hcp, lsqError_ends, lsqError_ends, hxl, hy]
  apply sum_le_sum
  intro c hc
  have e : nc - 2 + 1 = nc - 1 := by omega
  rw [e]
  exact Lsq.minimises _ _ _ _ _ (fun j => ent y j c) (hnorm c (mem_range.mp hc))

/-- residual form: the residual of the line is orthogonal to every interior basis function -/
theorem IsLsqLine.orthogonal {p : ℕ} {U : ℕ → K} {m : ℕ} {uk : List K} {pts : List (List K)} {nc dim : ℕ}
    {cp : List (List K)} (h : IsLsqLine p U m uk pts nc dim cp) (hnc2 : 2 ≤ nc)
    (i : ℕ) (hi1 : 1 ≤ i) (hi2 : i + 1 < nc) (c : ℕ) (hc : c < dim) :
    ∑ k ∈ Ico 1 (pts.length - 1), basisFunOne p U m i (uk.getD k 0) *
      ((ptsGet pts k).getD c 0 - ∑ j ∈ range cp.length, basisFunOne p U m j (uk.getD k 0) * (ptsGet cp j).getD c 0) = 0 := by
  obtain ⟨x, hcp, hxl, _, hnorm⟩ := h
  have ho := (Lsq.normal_iff_orthogonal _ _ _ _ _).mp (hnorm c hc) (i - 1) (by omega)
  rw [sum_Ico_eq_sum_range, show pts.length - 1 - 1 = pts.length - 2 by omega]
  have e : nc - 2 + 1 = nc - 1 := by omega
  have e2 : 1 + (i - 1) = i := by omega
  rw [e2] at ho
  rw [← neg_eq_zero, ← sum_neg_distrib]
  refine Eq.trans (sum_congr rfl ?_) ho
  intro k _
  rw [hcp, show ptsGet pts (1 + k) = pts.getD (1 + k) [] from rfl,
    residual_split (fun j => basisFunOne p U m j (uk.getD (1 + k) 0)) _ _ _ x c, hxl, e]
  ring

/-- **both passes of `approximate_surface` are least-squares fits of their lines**: whenever it returns,
    there are `sv` column polygons (`cols`, one per data column, `ncu` points each) and `ncu` row polygons
    (`rows`, `ncv` points each) with: column `j` is a least-squares polygon of the data line
    `Q_{0,j} … Q_{su−1,j}` for the parameters `ū` and the knot vector `kvu`; row `i` is a least-squares
    polygon of the line of the `i`-th points of the columns for `v̄`, `kvv`; the control net is the
    concatenation of the rows. -/
theorem approximateSurface_passes_lsq (pu pv su sv : ℕ) (pts : List (List K)) (cdsU cdsV : List (List K))
    (ncu ncv : ℕ) (fl : K → ℕ) (kvu kvv : List K) (cp : List (List K)) (hncu : ncu ≤ su) (hncv : ncv ≤ sv)
    (h : approximateSurface pu pv su sv pts cdsU cdsV ncu ncv fl = some (kvu, kvv, cp)) :
    ∃ cols rows : List (List (List K)), cols.length = sv ∧ rows.length = ncu ∧ cp = rows.flatten ∧
      (∀ j, j < sv → IsLsqLine pu (fnOf kvu) kvu.length (averageParams cdsU su)
          ((List.range su).map (fun i => pts.getD (j + sv * i) [])) ncu (pts.headD []).length (cols.getD j [])) ∧
      (∀ i, i < ncu → IsLsqLine pv (fnOf kvv) kvv.length (averageParams cdsV sv)
          ((List.range sv).map (fun j => (cols.getD j []).getD i [])) ncv (pts.headD []).length (rows.getD i [])) := by
  obtain ⟨_, _, cols, rows, hcl, hrl, hcp, hU, hV⟩ :=
    approximateSurface_struct pu pv su sv pts cdsU cdsV ncu ncv fl kvu kvv cp h
  refine ⟨cols, rows, hcl, hrl, hcp, fun j hj => ?_, fun i hi => ?_⟩
  · exact lsqPass_normal _ _ _ _ _ _ _ _ (by simpa using hncu) (hU j hj)
  · exact lsqPass_normal _ _ _ _ _ _ _ _ (by simpa using hncv) (hV i hi)

end Geomdl
