import NurbsVerif.Lemmas.TrimMeshWithin
import NurbsVerif.Lemmas.MeshGeom

/-!
# Trimmed tessellation (C15): the whole mesh when no cell is touched by a trim

If every cell of the loop is away from the (non-reversed) trims, the triangles of the loop are the triangles of the
untrimmed tessellation, `fix_numbering` keeps exactly the grid vertices with their ids, and `makeTrimMesh` equals
`makeTriangleMesh`.  In particular this holds without trims.
-/
set_option linter.unusedSectionVars false
namespace Geomdl.Trim
open Geomdl Geomdl.Mesh
variable {K : Type} [Field K] [LinearOrder K] [IsStrictOrderedRing K]

/-- the cell `(i, j)` is away from the trims: hypotheses of `loopCell_untrimmed` -/
def CellAway (tols : K) (trims : List (Trim K)) (uvs : List (K × K)) (nv : ℕ) (ij : ℕ × ℕ) : Prop :=
  ¬ NearInside tols trims (uvs.getD (ij.2 + ij.1 * nv) (0, 0)) ∧
  ¬ NearInside tols trims (uvs.getD (ij.2 + (ij.1 + 1) * nv) (0, 0)) ∧
  ¬ NearInside tols trims (uvs.getD (ij.2 + 1 + (ij.1 + 1) * nv) (0, 0)) ∧
  ¬ NearInside tols trims (uvs.getD (ij.2 + 1 + ij.1 * nv) (0, 0)) ∧
  ¬ InSomeTrim trims (triCenterUV (uvs.getD (ij.2 + ij.1 * nv) (0, 0)) (uvs.getD (ij.2 + (ij.1 + 1) * nv) (0, 0))
      (uvs.getD (ij.2 + 1 + (ij.1 + 1) * nv) (0, 0))) ∧
  ¬ InSomeTrim trims (triCenterUV (uvs.getD (ij.2 + ij.1 * nv) (0, 0)) (uvs.getD (ij.2 + 1 + (ij.1 + 1) * nv) (0, 0))
      (uvs.getD (ij.2 + 1 + ij.1 * nv) (0, 0)))

theorem foldl_all_away (tt : TrimTol K) (sq : K → K) (trims : List (Trim K)) (hnr : ∀ tr ∈ trims, tr.reversed = false)
    (uvs : List (K × K)) (nv : ℕ) : ∀ (L : List (ℕ × ℕ)) (st : TrimLoop K), FlagsOK tt.tols trims uvs st.flags →
    (∀ ij ∈ L, CellAway tt.tols trims uvs nv ij) →
    ((L.foldl (trimLoopStep tt sq trims uvs nv) st).tris.map (·.2)
        = st.tris.map (·.2) ++ L.flatMap fun ij => polygonTriangulate (quadCell nv ij.1 ij.2)) ∧
    ((L.foldl (trimLoopStep tt sq trims uvs nv) st).extra
        = st.extra ++ L.flatMap fun ij => (quadCell nv ij.1 ij.2).map fun k => (k, uvs.getD k (0, 0)))
  | [], st, _, _ => by simp
  | ij :: L, st, hst, h => by
    obtain ⟨a1, a2, a3, a4, a5, a6⟩ := h ij (by simp)
    have hcell := loopCell_untrimmed tt sq trims hnr uvs nv st hst ij.1 ij.2 a1 a2 a3 a4 a5 a6
    have ih := foldl_all_away tt sq trims hnr uvs nv L (trimLoopStep tt sq trims uvs nv st ij)
      (flagsOK_step tt sq trims hnr uvs nv st ij hst) (fun x hx => h x (List.mem_cons_of_mem _ hx))
    rw [List.foldl_cons, ih.1, ih.2, trimLoopStep_tris, trimLoopStep_extra]
    have e : (ij.1, ij.2) = ij := rfl
    rw [e] at hcell
    rw [List.map_append, hcell.2.2, hcell.1, List.flatMap_cons, List.flatMap_cons]
    exact ⟨by rw [List.append_assoc], by rw [List.append_assoc]; rfl⟩

/-! ### `fix_numbering` on grid vertices followed by repeated corners -/

private def keepStep {α : Type} (used : List ℕ) : List (ℕ × α) → ℕ × α → List (ℕ × α) :=
  fun acc v => if used.contains v.1 && !(acc.map (·.1)).contains v.1 then acc ++ [v] else acc

private theorem keptVertices_def {α : Type} (used : List ℕ) (vs : List (ℕ × α)) :
    keptVertices used vs = vs.foldl (keepStep used) [] := rfl

/-- entries whose id is already kept change nothing -/
private theorem foldl_keepStep_seen {α : Type} (used : List ℕ) : ∀ (l acc : List (ℕ × α)),
    (∀ v ∈ l, v.1 ∈ acc.map (·.1)) → l.foldl (keepStep used) acc = acc
  | [], _, _ => rfl
  | v :: l, acc, h => by
    have hv : keepStep used acc v = acc := by
      have : (acc.map (·.1)).contains v.1 = true := List.contains_iff_mem.mpr (h v (by simp))
      have hc : (used.contains v.1 && !(acc.map (·.1)).contains v.1) = false := by rw [this]; simp
      unfold keepStep; rw [hc]; rfl
    rw [List.foldl_cons, hv]
    exact foldl_keepStep_seen used l acc (fun x hx => h x (List.mem_cons_of_mem _ hx))

/-- entries with pairwise different used ids, none kept so far, are all kept -/
private theorem foldl_keepStep_fresh {α : Type} (used : List ℕ) : ∀ (l acc : List (ℕ × α)),
    (∀ v ∈ l, v.1 ∈ used) → ((acc ++ l).map (·.1)).Nodup → l.foldl (keepStep used) acc = acc ++ l
  | [], acc, _, _ => by simp
  | v :: l, acc, h, hnd => by
    have hv : keepStep used acc v = acc ++ [v] := by
      have h1 : used.contains v.1 = true := List.contains_iff_mem.mpr (h v (by simp))
      have h2 : (acc.map (·.1)).contains v.1 = false := by
        rw [List.map_append, List.nodup_append] at hnd
        by_contra hc
        have hm : v.1 ∈ acc.map (·.1) := List.contains_iff_mem.mp (by simpa using hc)
        exact hnd.2.2 _ hm _ (by simp) rfl
      have hc : (used.contains v.1 && !(acc.map (·.1)).contains v.1) = true := by rw [h1, h2]; rfl
      unfold keepStep; rw [hc]; rfl
    rw [List.foldl_cons, hv, foldl_keepStep_fresh used l (acc ++ [v]) (fun x hx => h x (List.mem_cons_of_mem _ hx))
      (by simpa using hnd)]
    simp

theorem keptVertices_grid {α : Type} (used : List ℕ) (grid extra : List (ℕ × α)) (hused : ∀ v ∈ grid, v.1 ∈ used)
    (hnd : (grid.map (·.1)).Nodup) (hextra : ∀ v ∈ extra, v.1 ∈ grid.map (·.1)) :
    keptVertices used (grid ++ extra) = grid := by
  rw [keptVertices_def, List.foldl_append, foldl_keepStep_fresh used grid [] hused (by simpa using hnd)]
  simpa using foldl_keepStep_seen used extra grid hextra

theorem grid2_flatMap {α β : Type} (m : ℕ) (g : ℕ → ℕ → α) (f : α → List β) : ∀ n,
    (meshGrid2 n m g).flatMap f = (meshGrid2 n m fun i j => f (g i j)).flatten
  | 0 => by simp [meshGrid2]
  | n + 1 => by
    rw [grid2_succ, grid2_succ, List.flatMap_append, List.flatten_append, grid2_flatMap m g f n, List.flatMap_def,
      List.map_map]
    rfl

theorem zipWith_range_ids {α : Type} (l : List α) :
    ((List.range l.length).zipWith (fun k p => (k, p)) l).map (·.1) = List.range l.length := by
  rw [List.map_zipWith]
  apply List.ext_getElem
  · simp
  · intro n h1 h2
    simp

theorem zipWith_range_snd {α : Type} (l : List α) :
    ((List.range l.length).zipWith (fun k p => (k, p)) l).map (·.2) = l := by
  rw [List.map_zipWith]
  apply List.ext_getElem
  · simp
  · intro n h1 h2
    simp

theorem mem_quadCell_lt {nu nv i j k : ℕ} (hi : i < nu - 1) (hj : j < nv - 1) (hk : k ∈ quadCell nv i j) : k < nu * nv := by
  have h1 : (i + 1) * nv + nv ≤ nu * nv := by
    have : i + 2 ≤ nu := by omega
    calc (i + 1) * nv + nv = (i + 2) * nv := by ring
      _ ≤ nu * nv := Nat.mul_le_mul_right _ this
  have h0 : i * nv + nv = (i + 1) * nv := by ring
  simp only [quadCell, List.mem_cons, List.not_mem_nil, or_false] at hk
  rcases hk with rfl | rfl | rfl | rfl <;> omega

/-- **All cells away from the trims: the trimmed mesh IS the untrimmed mesh.** -/
theorem makeTrimMesh_all_away (tt : TrimTol K) (sq : K → K) (trims : List (Trim K)) (hnr : ∀ tr ∈ trims, tr.reversed = false)
    (su sv s : ℕ) (hu : 2 ≤ gridCount su s) (hv : 2 ≤ gridCount sv s)
    (haway : ∀ i j, i < gridCount su s - 1 → j < gridCount sv s - 1 →
      CellAway tt.tols trims ((meshVertices (K := K) su sv s).map (·.1)) (gridCount sv s) (i, j)) :
    (makeTrimMesh tt sq trims su sv s).faces = (makeTriangleMesh (K := K) su sv s).faces ∧
    (makeTrimMesh tt sq trims su sv s).uv = (makeTriangleMesh (K := K) su sv s).uv ∧
    (makeTrimMesh tt sq trims su sv s).old = List.range (gridCount su s * gridCount sv s) := by
  set uvs : List (K × K) := (meshVertices (K := K) su sv s).map (·.1) with huvs
  set nu := gridCount su s with hnu
  set nv := gridCount sv s with hnv
  have hlen : uvs.length = nu * nv := by rw [huvs, List.length_map, meshVertices_length]
  have hfold := foldl_all_away tt sq trims hnr uvs nv (meshGrid2 (nu - 1) (nv - 1) fun i j => (i, j)) (loopInit uvs)
    (flagsOK_init tt.tols trims uvs) (by
      intro ij hij
      obtain ⟨i, hi, j, hj, e⟩ := mem_grid2.mp hij
      rw [← e]; exact haway i j hi hj)
  rw [← trimCells_eq] at hfold
  have htris : (trimCells tt sq trims uvs nu nv).tris.map (·.2) = meshTriangles nu nv := by
    rw [hfold.1, grid2_flatMap]
    simp only [loopInit, List.map_nil, List.nil_append, meshTriangles]
  have hextra : ∀ v ∈ (trimCells tt sq trims uvs nu nv).extra,
      v.1 ∈ ((List.range uvs.length).zipWith (fun k p => (k, p)) uvs).map (·.1) := by
    intro v hvm
    rw [hfold.2] at hvm
    simp only [loopInit, List.nil_append, List.mem_flatMap, List.mem_map] at hvm
    obtain ⟨ij, hij, k, hk, e⟩ := hvm
    obtain ⟨i, hi, j, hj, e2⟩ := mem_grid2.mp hij
    rw [zipWith_range_ids, List.mem_range, ← e, hlen]
    rw [← e2] at hk
    exact mem_quadCell_lt hi hj hk
  have hkept : keptVertices (usedIds (meshTriangles nu nv))
      ((List.range uvs.length).zipWith (fun k p => (k, p)) uvs ++ (trimCells tt sq trims uvs nu nv).extra)
        = (List.range uvs.length).zipWith (fun k p => (k, p)) uvs := by
    apply keptVertices_grid _ _ _ _ _ hextra
    · intro v hvm
      have : v.1 ∈ ((List.range uvs.length).zipWith (fun k p => (k, p)) uvs).map (·.1) := List.mem_map_of_mem hvm
      rw [zipWith_range_ids, List.mem_range, hlen] at this
      exact lt_used hu hv this
    · rw [zipWith_range_ids]; exact List.nodup_range
  have hmesh := makeTriangleMesh_eq (K := K) su sv s hu hv
  unfold makeTrimMesh
  simp only [← huvs, ← hnu, ← hnv, htris, hkept, zipWith_range_ids, zipWith_range_snd, hmesh]
  rw [hlen]
  refine ⟨?_, trivial, rfl⟩
  conv_rhs => rw [← List.map_id (meshTriangles nu nv)]
  apply List.map_congr_left
  intro t ht
  conv_rhs => rw [id, ← List.map_id t]
  apply List.map_congr_left
  intro v hv'
  exact idxOf_range (meshTriangles_index_lt ht v hv')

/-- without trims the trimmed tessellation is the untrimmed one -/
theorem makeTrimMesh_no_trims (tt : TrimTol K) (sq : K → K) (su sv s : ℕ) (hu : 2 ≤ gridCount su s) (hv : 2 ≤ gridCount sv s) :
    (makeTrimMesh tt sq [] su sv s).faces = (makeTriangleMesh (K := K) su sv s).faces ∧
    (makeTrimMesh tt sq [] su sv s).uv = (makeTriangleMesh (K := K) su sv s).uv ∧
    (makeTrimMesh tt sq [] su sv s).old = List.range (gridCount su s * gridCount sv s) := by
  apply makeTrimMesh_all_away tt sq [] (by simp) su sv s hu hv
  intro i j _ _
  have hn : ∀ uv : K × K, ¬ NearInside tt.tols [] uv := by
    rintro uv ⟨_, _, tr, htr, _⟩; cases htr
  have hi : ∀ p : K × K, ¬ InSomeTrim [] p := by
    rintro p ⟨tr, htr, _⟩; cases htr
  exact ⟨hn _, hn _, hn _, hn _, hi _, hi _⟩

end Geomdl.Trim
