/-
  Lemmas for C13 (control-net layout), part 8: the converse round trips – `extract_curves` after
  `construct_surface`, `extract_surfaces` after `construct_volume` (repaired code, all directions) return the
  input shapes (net by net; degrees, sizes and knot vectors are those of the FIRST input, as in the code).
-/
import NurbsVerif.Lemmas.LayoutVol

namespace Geomdl
set_option linter.unusedSectionVars false
variable {α κ β : Type} [Inhabited α]

/-! ### a `flatMap` over an arbitrary list as a `flatMap` over its index range -/

theorem flatMap_eq_range (L : List β) (f : β → List α) :
    L.flatMap f = (List.range L.length).flatMap fun k => (L[k]?.map f).getD [] := by
  induction L with
  | nil => simp
  | cons x L ih =>
    rw [List.length_cons, List.range_succ_eq_map, List.flatMap_cons, List.flatMap_cons, List.flatMap_map, ih]
    simp

/-- blocks of constant length `m`: entry `r + m*k` of the concatenation is entry `r` of block `k` -/
theorem getElem?_flatMap_uniform (L : List β) (f : β → List α) (m : ℕ) (h : ∀ x ∈ L, (f x).length = m)
    (k r : ℕ) (hk : k < L.length) (hr : r < m) : (L.flatMap f)[r + m * k]? = (f L[k])[r]? := by
  have hg : ∀ c < L.length, ((L[c]?.map f).getD []).length = m := by
    intro c hc
    rw [List.getElem?_eq_getElem hc]
    exact h _ (List.getElem_mem hc)
  rw [flatMap_eq_range, getElem?_flatMap_range _ m L.length hg k r hk hr, List.getElem?_eq_getElem hk]
  rfl

theorem length_flatMap_uniform (L : List β) (f : β → List α) (m : ℕ) (h : ∀ x ∈ L, (f x).length = m) :
    (L.flatMap f).length = m * L.length := by
  have hg : ∀ c < L.length, ((L[c]?.map f).getD []).length = m := by
    intro c hc
    rw [List.getElem?_eq_getElem hc]
    exact h _ (List.getElem_mem hc)
  rw [flatMap_eq_range, length_flatMap_range _ m L.length hg]

/-- reading block `i` of a concatenation of `a*b`-blocks through any index map that addresses
    `(y + b*x) + (a*b)*i` reproduces the block -/
theorem block_tab2 (L : List β) (f : β → List α) (a b : ℕ) (h : ∀ x ∈ L, (f x).length = a * b)
    (i : ℕ) (hi : i < L.length) (g : ℕ → ℕ → ℕ) (hg : ∀ x < a, ∀ y < b, g x y = (y + b * x) + (a * b) * i) :
    tab2 a b (fun x y => (L.flatMap f).getD (g x y) default) = f L[i] := by
  symm
  apply eq_tab2 (h _ (List.getElem_mem hi))
  intro x hx y hy
  rw [hg x hx y hy, List.getD_eq_getElem?_getD,
    getElem?_flatMap_uniform L f (a * b) h i (y + b * x) hi (flatIdx2_lt hx hy)]
  have hlt : y + b * x < (f L[i]).length := by rw [h _ (List.getElem_mem hi)]; exact flatIdx2_lt hx hy
  rw [List.getElem?_eq_getElem hlt]
  rfl

/-- the same for blocks read as a single row of length `m` -/
theorem block_row (L : List β) (f : β → List α) (m : ℕ) (h : ∀ x ∈ L, (f x).length = m)
    (i : ℕ) (hi : i < L.length) (g : ℕ → ℕ) (hg : ∀ x < m, g x = x + m * i) :
    ((List.range m).map fun x => (L.flatMap f).getD (g x) default) = f L[i] := by
  apply List.ext_getElem (by simp [h _ (List.getElem_mem hi)])
  intro x h1 h2
  have hx : x < m := by simpa using h1
  simp only [List.getElem_map, List.getElem_range]
  rw [hg x hx, List.getD_eq_getElem?_getD, getElem?_flatMap_uniform L f m h i x hi hx,
    List.getElem?_eq_getElem h2]
  rfl

/-! ### `extract_curves` after `construct_surface` -/

section surface
variable (args : List (Crv α κ)) (c0 : Crv α κ) (degO : ℕ) (kvO : κ)

/-- the surface `construct_surface('u', …)` returns -/
def conSrfU : Srf α κ :=
  { du := degO, dv := c0.deg, ku := kvO, kv := c0.kv, su := args.length, sv := c0.pts.length,
    pts := args.flatMap fun c => c.pts }

/-- the surface `construct_surface('v', …)` returns -/
def conSrfV : Srf α κ :=
  { du := c0.deg, dv := degO, ku := c0.kv, kv := kvO, su := c0.pts.length, sv := args.length,
    pts := flipCtrlptsU (args.flatMap fun c => c.pts) c0.pts.length args.length }

variable {args c0}

theorem constructSurface_u_eq (h0 : args.head? = some c0) (h2 : 2 ≤ args.length)
    (hall : ∀ c ∈ args, c.deg = c0.deg ∧ c.pts.length = c0.pts.length) :
    constructSurface Dir.u degO kvO args = some (conSrfU args c0 degO kvO) :=
  constructSurface_of_head Dir.u degO kvO h0 h2 hall

theorem constructSurface_v_eq (h0 : args.head? = some c0) (h2 : 2 ≤ args.length)
    (hall : ∀ c ∈ args, c.deg = c0.deg ∧ c.pts.length = c0.pts.length) :
    constructSurface Dir.v degO kvO args = some (conSrfV args c0 degO kvO) :=
  constructSurface_of_head Dir.v degO kvO h0 h2 hall

theorem conSrfU_wf (h2 : 2 ≤ args.length) (hm : 2 ≤ c0.pts.length)
    (hall : ∀ c ∈ args, c.deg = c0.deg ∧ c.pts.length = c0.pts.length) : (conSrfU args c0 degO kvO).WF := by
  refine ⟨?_, h2, hm⟩
  show (args.flatMap fun c => c.pts).length = args.length * c0.pts.length
  rw [length_flatMap_uniform args (fun c => c.pts) c0.pts.length (fun c hc => (hall c hc).2), Nat.mul_comm]

theorem conSrfV_wf (h2 : 2 ≤ args.length) (hm : 2 ≤ c0.pts.length) : (conSrfV args c0 degO kvO).WF :=
  ⟨length_flipCtrlptsU _ _ _, hm, h2⟩

/-- `extract_curves(construct_surface('u', *curves))['v']` = the curves (degree / knots of the first) -/
theorem extractCurvesV_conSrfU (hall : ∀ c ∈ args, c.deg = c0.deg ∧ c.pts.length = c0.pts.length) :
    extractCurvesV (conSrfU args c0 degO kvO) = args.map fun c => { c0 with pts := c.pts } := by
  unfold extractCurvesV
  apply List.ext_getElem (by simp [conSrfU])
  intro i h1 h2
  have hi : i < args.length := by simpa [conSrfU] using h1
  simp only [List.getElem_map, List.getElem_range]
  congr 1
  exact block_row args (fun c => c.pts) c0.pts.length (fun c hc => (hall c hc).2) i hi _ (fun x _ => rfl)

/-- `extract_curves(construct_surface('v', *curves))['u']` = the curves (degree / knots of the first) -/
theorem extractCurvesU_conSrfV (hall : ∀ c ∈ args, c.deg = c0.deg ∧ c.pts.length = c0.pts.length) :
    extractCurvesU (conSrfV args c0 degO kvO) = args.map fun c => { c0 with pts := c.pts } := by
  unfold extractCurvesU
  apply List.ext_getElem (by simp [conSrfV])
  intro i h1 h2
  have hi : i < args.length := by simpa [conSrfV] using h1
  simp only [List.getElem_map, List.getElem_range]
  congr 1
  show ((List.range c0.pts.length).map fun u =>
      (flipCtrlptsU (args.flatMap fun c => c.pts) c0.pts.length args.length).getD (i + args.length * u) default)
    = args[i].pts
  have e : ((List.range c0.pts.length).map fun u =>
      (flipCtrlptsU (args.flatMap fun c => c.pts) c0.pts.length args.length).getD (i + args.length * u) default)
      = (List.range c0.pts.length).map fun u => (args.flatMap fun c => c.pts).getD (u + c0.pts.length * i) default := by
    apply List.map_congr_left
    intro u hu
    rw [List.mem_range] at hu
    unfold flipCtrlptsU
    rw [getD_tab2 _ hu hi, Nat.mul_comm]
  rw [e]
  exact block_row args (fun c => c.pts) c0.pts.length (fun c hc => (hall c hc).2) i hi _ (fun x _ => rfl)

end surface

/-! ### `extract_surfaces` after `construct_volume` -/

section volume
variable (args : List (Srf α κ)) (s0 : Srf α κ) (degO : ℕ) (kvO : κ)

/-- the volume `construct_volume('w', …)` returns -/
def conVolW : Vol α κ :=
  { du := s0.du, dv := s0.dv, dw := degO, ku := s0.ku, kv := s0.kv, kw := kvO,
    su := s0.su, sv := s0.sv, sw := args.length, pts := args.flatMap fun s => s.pts }

/-- the volume the repaired `construct_volume('u', …)` returns -/
def conVolU : Vol α κ :=
  { du := degO, dv := s0.du, dw := s0.dv, ku := kvO, kv := s0.ku, kw := s0.kv,
    su := args.length, sv := s0.su, sw := s0.sv,
    pts := volPerm Dir.u args.length s0.su s0.sv (args.flatMap fun s => s.pts) }

/-- the volume the repaired `construct_volume('v', …)` returns -/
def conVolV : Vol α κ :=
  { du := s0.du, dv := degO, dw := s0.dv, ku := s0.ku, kv := kvO, kw := s0.kv,
    su := s0.su, sv := args.length, sw := s0.sv,
    pts := volPerm Dir.v args.length s0.su s0.sv (args.flatMap fun s => s.pts) }

/-- admissible input of `construct_volume`: equal degrees and sizes, nets of `su*sv` points -/
def SrfsOk : Prop :=
  ∀ s ∈ args, s.du = s0.du ∧ s.dv = s0.dv ∧ s.su = s0.su ∧ s.sv = s0.sv ∧ s.pts.length = s0.su * s0.sv

variable {args s0}

theorem constructVolume_w_eq (h0 : args.head? = some s0) (h2 : 2 ≤ args.length) (hall : SrfsOk args s0) :
    constructVolume Dir.w degO kvO args = some (conVolW args s0 degO kvO) :=
  constructVolumeWith_of_head volPerm Dir.w degO kvO h0 h2
    (fun s hs => ⟨(hall s hs).1, (hall s hs).2.1, (hall s hs).2.2.1, (hall s hs).2.2.2.1⟩)

theorem constructVolume_u_eq (h0 : args.head? = some s0) (h2 : 2 ≤ args.length) (hall : SrfsOk args s0) :
    constructVolume Dir.u degO kvO args = some (conVolU args s0 degO kvO) :=
  constructVolumeWith_of_head volPerm Dir.u degO kvO h0 h2
    (fun s hs => ⟨(hall s hs).1, (hall s hs).2.1, (hall s hs).2.2.1, (hall s hs).2.2.2.1⟩)

theorem constructVolume_v_eq (h0 : args.head? = some s0) (h2 : 2 ≤ args.length) (hall : SrfsOk args s0) :
    constructVolume Dir.v degO kvO args = some (conVolV args s0 degO kvO) :=
  constructVolumeWith_of_head volPerm Dir.v degO kvO h0 h2
    (fun s hs => ⟨(hall s hs).1, (hall s hs).2.1, (hall s hs).2.2.1, (hall s hs).2.2.2.1⟩)

theorem srfsOk_len (hall : SrfsOk args s0) : ∀ s ∈ args, s.pts.length = s0.su * s0.sv :=
  fun s hs => (hall s hs).2.2.2.2

theorem conVolW_wf (h2 : 2 ≤ args.length) (hsu : 2 ≤ s0.su) (hsv : 2 ≤ s0.sv) (hall : SrfsOk args s0) :
    (conVolW args s0 degO kvO).WF := by
  refine ⟨?_, hsu, hsv, h2⟩
  show (args.flatMap fun s => s.pts).length = s0.su * s0.sv * args.length
  exact length_flatMap_uniform args (fun s => s.pts) _ (srfsOk_len hall)

theorem conVolU_wf (h2 : 2 ≤ args.length) (hsu : 2 ≤ s0.su) (hsv : 2 ≤ s0.sv) :
    (conVolU args s0 degO kvO).WF := by
  refine ⟨?_, h2, hsu, hsv⟩
  show (tab3 s0.sv args.length s0.su _).length = args.length * s0.su * s0.sv
  rw [length_tab3]; ring

theorem conVolV_wf (h2 : 2 ≤ args.length) (hsu : 2 ≤ s0.su) (hsv : 2 ≤ s0.sv) :
    (conVolV args s0 degO kvO).WF := by
  refine ⟨?_, hsu, h2, hsv⟩
  show (tab3 s0.sv s0.su args.length _).length = s0.su * args.length * s0.sv
  rw [length_tab3]; ring

/-- `extract_surfaces(construct_volume('w', *surfaces))['uv']` = the surfaces (degrees / knots of the first) -/
theorem extractSurfacesUV_conVolW (hsu : 0 < s0.su) (hall : SrfsOk args s0) :
    extractSurfacesUV (conVolW args s0 degO kvO) = args.map fun s => { s0 with pts := s.pts } := by
  rw [extractSurfacesUV_eq _ (by exact hsu)]
  apply List.ext_getElem (by simp [conVolW])
  intro i h1 h2
  have hi : i < args.length := by simpa [conVolW] using h1
  simp only [List.getElem_map, List.getElem_range]
  congr 1
  show tab2 s0.su s0.sv (fun u v => (args.flatMap fun s => s.pts).getD (v + s0.sv * (u + s0.su * i)) default)
    = args[i].pts
  exact block_tab2 args (fun s => s.pts) s0.su s0.sv (srfsOk_len hall) i hi _ (fun x _ y _ => by ring)

/-- `extract_surfaces(construct_volume('u', *surfaces))['vw']` = the surfaces -/
theorem extractSurfacesVW_conVolU (hsu : 0 < s0.su) (hall : SrfsOk args s0) :
    extractSurfacesVW (conVolU args s0 degO kvO) = args.map fun s => { s0 with pts := s.pts } := by
  rw [extractSurfacesVW_eq _ (by exact hsu)]
  apply List.ext_getElem (by simp [conVolU])
  intro i h1 h2
  have hi : i < args.length := by simpa [conVolU] using h1
  simp only [List.getElem_map, List.getElem_range]
  congr 1
  show tab2 s0.su s0.sv (fun v w =>
      (tab3 s0.sv args.length s0.su fun w u v =>
        (args.flatMap fun s => s.pts).getD (w + v * s0.sv + u * s0.su * s0.sv) default).getD
          (v + s0.su * (i + args.length * w)) default) = args[i].pts
  have e : tab2 s0.su s0.sv (fun v w =>
      (tab3 s0.sv args.length s0.su fun w u v =>
        (args.flatMap fun s => s.pts).getD (w + v * s0.sv + u * s0.su * s0.sv) default).getD
          (v + s0.su * (i + args.length * w)) default)
      = tab2 s0.su s0.sv (fun v w => (args.flatMap fun s => s.pts).getD (w + v * s0.sv + i * s0.su * s0.sv) default) := by
    apply tab2_congr
    intro v hv w hw
    rw [getD_tab3 _ hw hi hv]
  rw [e]
  exact block_tab2 args (fun s => s.pts) s0.su s0.sv (srfsOk_len hall) i hi _ (fun x _ y _ => by ring)

/-- `extract_surfaces(construct_volume('v', *surfaces))['uw']` = the surfaces -/
theorem extractSurfacesUW_conVolV (hsu : 0 < s0.su) (hall : SrfsOk args s0) :
    extractSurfacesUW (conVolV args s0 degO kvO) = args.map fun s => { s0 with pts := s.pts } := by
  rw [extractSurfacesUW_eq _ (by exact hsu)]
  apply List.ext_getElem (by simp [conVolV])
  intro i h1 h2
  have hi : i < args.length := by simpa [conVolV] using h1
  simp only [List.getElem_map, List.getElem_range]
  congr 1
  show tab2 s0.su s0.sv (fun u w =>
      (tab3 s0.sv s0.su args.length fun w u v =>
        (args.flatMap fun s => s.pts).getD (w + u * s0.sv + v * s0.su * s0.sv) default).getD
          (i + args.length * (u + s0.su * w)) default) = args[i].pts
  have e : tab2 s0.su s0.sv (fun u w =>
      (tab3 s0.sv s0.su args.length fun w u v =>
        (args.flatMap fun s => s.pts).getD (w + u * s0.sv + v * s0.su * s0.sv) default).getD
          (i + args.length * (u + s0.su * w)) default)
      = tab2 s0.su s0.sv (fun u w => (args.flatMap fun s => s.pts).getD (w + u * s0.sv + i * s0.su * s0.sv) default) := by
    apply tab2_congr
    intro u hu w hw
    rw [getD_tab3 _ hw hu hi]
  rw [e]
  exact block_tab2 args (fun s => s.pts) s0.su s0.sv (srfsOk_len hall) i hi _ (fun x _ y _ => by ring)

/-- every point of a re-ordered net is a point of the stacked net -/
theorem mem_volPerm_of (dir : Dir) (hall : SrfsOk args s0) (p : α)
    (hp : p ∈ volPerm dir args.length s0.su s0.sv (args.flatMap fun s => s.pts)) :
    p ∈ args.flatMap fun s => s.pts := by
  have hlen := length_flatMap_uniform args (fun s => s.pts) _ (srfsOk_len hall)
  have key : ∀ idx, idx < s0.su * s0.sv * args.length →
      (args.flatMap fun s => s.pts).getD idx default ∈ args.flatMap fun s => s.pts := by
    intro idx h
    rw [List.getD_eq_getElem?_getD, List.getElem?_eq_getElem (by rw [hlen]; exact h)]
    exact List.getElem_mem _
  cases dir with
  | w => exact hp
  | u =>
    simp only [volPerm, tab3, tab2, List.mem_flatMap, List.mem_map, List.mem_range] at hp
    obtain ⟨w, hw, u, hu, v, hv, rfl⟩ := hp
    apply key
    have := flatIdx3_lt (su := s0.su) (sv := s0.sv) (sw := args.length) hv hw hu
    unfold flatIdx3 at this
    have e : w + v * s0.sv + u * s0.su * s0.sv = w + s0.sv * (v + s0.su * u) := by ring
    rw [e]; exact this
  | v =>
    simp only [volPerm, tab3, tab2, List.mem_flatMap, List.mem_map, List.mem_range] at hp
    obtain ⟨w, hw, u, hu, v, hv, rfl⟩ := hp
    apply key
    have := flatIdx3_lt (su := s0.su) (sv := s0.sv) (sw := args.length) hu hw hv
    unfold flatIdx3 at this
    have e : w + u * s0.sv + v * s0.su * s0.sv = w + s0.sv * (u + s0.su * v) := by ring
    rw [e]; exact this

end volume
end Geomdl
