import NurbsVerif.Lemmas.DersSum
import Mathlib.Data.Nat.Factorial.Basic

/-! A2.3, part 2: the specification side.  `basisDers[k][r]` as a sum over the basis functions of degree
    `p-k` against the `k`-fold scaled differences of the unit sequence `e_{κ-p+r}`; the differences
    without the factors `p (p-1) …` (`dPlain`, these are the `a[k][j]` of A2.3) and their support. -/
namespace Geomdl
open Blossom Finset
variable {K : Type} [Field K] [LinearOrder K] [IsStrictOrderedRing K]

/-- entry `k ≤ min p order` of the A3.3/A3.4 model as a sum (no hypothesis on the knots) -/
theorem curveDersAt_entry_sum (p : ℕ) (U : ℕ → K) (P : List (List K)) (κ : ℕ) (u : K) (d j order k : ℕ)
    (hp : p ≤ κ) (hκ : κ < P.length) (hP : NetOk d P) (hk : k ≤ order) (hkp : k ≤ p) :
    ((curveDersAt p U P κ u order).getD k []).getD j 0
      = ∑ r ∈ range (p + 1 - k), (basisFuns (p - k) U κ u).getD r 0
          * dIter U p k (fun i => (ptsGet P i).getD j 0) (κ - p + r + k) := by
  have hkm : k ≤ min p order := by omega
  have hrow : (curveDersAt p U P κ u order).getD k []
      = linComb d (basisFuns (p - k) U κ u) ((List.range' 0 (p + 1 - k)).map (fun i => vIter p U P k (κ - p + i + k))) := by
    unfold curveDersAt
    simp only [List.getD_eq_getElem?_getD, List.getElem?_map]
    rw [List.getElem?_range (by omega)]
    simp only [Option.map_some, Option.getD_some, hkm, if_true]
    rw [dimOf_eq hP (by omega), curveDerivCpts_eq]
    simp only [List.getElem?_map]
    rw [List.getElem?_range (by omega)]
    simp only [Option.map_some, Option.getD_some]
    have hpk := pkLevel_eq p U P (κ - p) p k hkp hkp
    have hr2 : κ - p + p = κ := by omega
    rw [hr2] at hpk
    rw [hpk]
  rw [hrow]
  have hlenN : (basisFuns (p - k) U κ u).length = p + 1 - k := by
    rw [Blossom.basisFuns_length]; omega
  rw [linComb_getD d j _ _ (by
    intro pt hpt
    simp only [List.mem_map, List.mem_range'_1] at hpt
    obtain ⟨i, ⟨_, hi⟩, rfl⟩ := hpt
    exact vIter_length p U P d hP k _ (by omega))]
  have hz := zip_sum_eq_wsum j (fun i => vIter p U P k (κ - p + i + k)) (basisFuns (p - k) U κ u) 0
  rw [hlenN] at hz
  rw [hz, wsum_eq_sum, hlenN]
  apply Finset.sum_congr rfl
  intro r hr
  rw [Finset.mem_range] at hr
  rw [vIter_coord p U P d j hP k _ (by omega)]
  congr 2
  omega

/-- the unit sequence `e_i` -/
def eU (i : ℕ) : ℕ → K := fun m => if m = i then 1 else 0

/-- `basisDers[k][r]` as a sum over the `p-k+1` basis functions of degree `p-k` -/
theorem basisDers_entry_sum (p : ℕ) (U : ℕ → K) (κ : ℕ) (u : K) (d k r : ℕ)
    (hp : p ≤ κ) (hk : k ≤ d) (hkp : k ≤ p) (hr : r ≤ p) :
    ((basisDers p U κ u d).getD k []).getD r 0
      = ∑ m ∈ range (p + 1 - k), (basisFuns (p - k) U κ u).getD m 0
          * dIter U p k (eU (κ - p + r)) (κ - p + m + k) := by
  rw [basisDers_entry p U κ u d k r hk hr,
    curveDersAt_entry_sum p U (unitNet κ p r) κ u 1 0 d k hp (by simp [unitNet]) (unitNet_netOk κ p r) hk hkp]
  apply Finset.sum_congr rfl
  intro m _
  congr 2
  funext i
  rw [unitNet_coord κ p r i hr hp]
  rfl

/-- iterated scaled differences without the factors `p, p-1, …` -/
def dPlain (U : ℕ → K) (p : ℕ) : ℕ → (ℕ → K) → ℕ → K
  | 0, c => c
  | k+1, c => fun m => (dPlain U p k c m - dPlain U p k c (m-1)) / (U (m + (p - k)) - U m)

theorem dIter_eq_dPlain (U : ℕ → K) (p : ℕ) (c : ℕ → K) : ∀ k m,
    dIter U p k c m = (Nat.descFactorial p k : K) * dPlain U p k c m := by
  intro k
  induction k with
  | zero => intro m; simp [dIter, dPlain]
  | succ k ih =>
    intro m
    simp only [dIter, dscal, dPlain]
    rw [ih m, ih (m-1), Nat.descFactorial_succ]
    push_cast
    ring

/-- support of the differences of a unit sequence: nothing below `i` … -/
theorem dPlain_unit_below (U : ℕ → K) (p i : ℕ) : ∀ k m, m < i → dPlain U p k (eU i) m = 0 := by
  intro k
  induction k with
  | zero => intro m hm; simp only [dPlain, eU]; rw [if_neg (by omega)]
  | succ k ih =>
    intro m hm
    simp only [dPlain]
    rw [ih m hm, ih (m-1) (by omega)]
    simp

/-- … and nothing above `i + k` -/
theorem dPlain_unit_above (U : ℕ → K) (p i : ℕ) : ∀ k m, i + k < m → dPlain U p k (eU i) m = 0 := by
  intro k
  induction k with
  | zero => intro m hm; simp only [dPlain, eU]; rw [if_neg (by omega)]
  | succ k ih =>
    intro m hm
    simp only [dPlain]
    rw [ih m (by omega), ih (m-1) (by omega)]
    simp

end Geomdl
