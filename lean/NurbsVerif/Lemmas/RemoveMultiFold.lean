import NurbsVerif.Lemmas.RemoveObjFold

/-!
  C06, several directions in one call, part 3: the loops over the directions.

  `insPure` is the loop body of `operations.insert_knot` when every requested direction is admissible (no flag, no
  `Option`).  Given, for a class `WF` of objects with `n` directions (surfaces, volumes), that a direction step keeps
  the object well formed, that steps along DIFFERENT directions commute, and the one-direction round trip
  (`DirFacts`), the removal loop applied to the result of the insertion loop is the insertion loop with the counts
  reduced (`rem_fold`): the step of direction `d` is pushed through the later insertion steps (`push`), cancelled
  against the removal, and the rest is pushed back.
-/
namespace Geomdl
namespace Multi
open Blossom Finset
set_option linter.unusedSectionVars false
variable {K : Type} [Field K] [LinearOrder K] [IsStrictOrderedRing K]

/-- counts of a second call subtracted from the counts of a first one, direction by direction -/
def subNums (nums nums' : List ℕ) : List ℕ := nums.mapIdx (fun d r => r - nums'.getD d 0)

theorem subNums_getD (nums nums' : List ℕ) (d : ℕ) :
    (subNums nums nums').getD d 0 = nums.getD d 0 - nums'.getD d 0 := by
  unfold subNums
  simp only [List.getD_eq_getElem?_getD, List.getElem?_mapIdx]
  cases nums[d]? <;> simp

theorem subNums_length (nums nums' : List ℕ) : (subNums nums nums').length = nums.length := by
  simp [subNums]

theorem subNums_self (nums : List ℕ) (d : ℕ) : (subNums nums nums).getD d 0 = 0 := by
  rw [subNums_getD]; omega

/-- the loop body of `operations.insert_knot` without the error branch -/
def insPure (params : List (Option K)) (nums : List ℕ) (tol : K) (T : Shape K) (d : ℕ) : Shape K :=
  match params.getD d none with
  | none => T
  | some u => if nums.getD d 0 = 0 then T else insDirOf T d u (nums.getD d 0) tol

theorem req_cases (params : List (Option K)) (nums : List ℕ) (d : ℕ) :
    (params.getD d none = none ∨ nums.getD d 0 = 0) ∨ ∃ u, params.getD d none = some u ∧ nums.getD d 0 ≠ 0 := by
  cases h : params.getD d none with
  | none => exact Or.inl (Or.inl rfl)
  | some u =>
    by_cases hn : nums.getD d 0 = 0
    · exact Or.inl (Or.inr hn)
    · exact Or.inr ⟨u, rfl, hn⟩

theorem insPure_skip (params : List (Option K)) (nums : List ℕ) (tol : K) (T : Shape K) (d : ℕ)
    (h : params.getD d none = none ∨ nums.getD d 0 = 0) : insPure params nums tol T d = T := by
  unfold insPure
  rcases h with h | h
  · rw [h]
  · cases params.getD d none with
    | none => rfl
    | some u => simp only [h, if_true]

theorem insPure_req (params : List (Option K)) (nums : List ℕ) (tol : K) (T : Shape K) (d : ℕ) (u : K)
    (hp : params.getD d none = some u) (hn : nums.getD d 0 ≠ 0) :
    insPure params nums tol T d = insDirOf T d u (nums.getD d 0) tol := by
  unfold insPure
  rw [hp]
  simp only [hn, if_false]

theorem insPure_degs (params : List (Option K)) (nums : List ℕ) (tol : K) (T : Shape K) (d : ℕ) :
    (insPure params nums tol T d).degs = T.degs := by
  rcases req_cases params nums d with h | ⟨u, hp, hn⟩
  · rw [insPure_skip params nums tol T d h]
  · rw [insPure_req params nums tol T d u hp hn]

theorem foldl_insPure_degs (params : List (Option K)) (nums : List ℕ) (tol : K) : ∀ (l : List ℕ) (T : Shape K),
    (l.foldl (insPure params nums tol) T).degs = T.degs
  | [], _ => rfl
  | d :: l, T => by
    rw [List.foldl_cons, foldl_insPure_degs params nums tol l, insPure_degs]

/-! ### admissibility and its transfer across a step of another direction -/

theorem roundOk_transfer (S T : Shape K) (dir : ℕ) (u : K) (r : ℕ) (tol : K) (hdegs : T.degs = S.degs)
    (hkv : T.kv dir = S.kv dir) (hsz : T.size dir = S.size dir) (h : RoundOk S dir u r tol) : RoundOk T dir u r tol := by
  have e_deg : T.deg dir = S.deg dir := by unfold Shape.deg; rw [hdegs]
  refine ⟨dirReqOk_transfer S T dir u r tol hdegs hkv hsz h.req, h.r1, h.tol0, ?_⟩
  rw [hkv, hsz, e_deg]; exact h.below

theorem roundOk_insDirOf_other (T : Shape K) (d e : ℕ) (u v : K) (r q : ℕ) (tol : K) (hne : e ≠ d)
    (h : RoundOk T e v q tol) : RoundOk (insDirOf T d u r tol) e v q tol :=
  roundOk_transfer T _ e v q tol rfl ((withDir_other T d _ _).2.2 e hne).1 ((withDir_other T d _ _).2.2 e hne).2 h

theorem roundOk_of_insDirOf_other (T : Shape K) (d e : ℕ) (u v : K) (r q : ℕ) (tol : K) (hne : e ≠ d)
    (h : RoundOk (insDirOf T d u r tol) e v q tol) : RoundOk T e v q tol :=
  roundOk_transfer (insDirOf T d u r tol) T e v q tol rfl ((withDir_other T d _ _).2.2 e hne).1.symm ((withDir_other T d _ _).2.2 e hne).2.symm h

theorem roundOk_mono (T : Shape K) (d : ℕ) (u : K) (r q : ℕ) (tol : K) (h : RoundOk T d u r tol) (hq1 : 1 ≤ q)
    (hq : q ≤ r) : RoundOk T d u q tol :=
  ⟨⟨h.req.lo, h.req.hi, h.req.mult, by have := h.req.rs; omega⟩, hq1, h.tol0, h.below⟩

/-- every direction of the list is one of the `n` directions and, if requested, admissible on `T` -/
def AdmL (n : ℕ) (params : List (Option K)) (nums : List ℕ) (tol : K) (T : Shape K) (l : List ℕ) : Prop :=
  ∀ e ∈ l, e < n ∧ ∀ u, params.getD e none = some u → nums.getD e 0 ≠ 0 → RoundOk T e u (nums.getD e 0) tol

theorem AdmL.tail {n : ℕ} {params : List (Option K)} {nums : List ℕ} {tol : K} {T : Shape K} {d : ℕ} {l : List ℕ}
    (h : AdmL n params nums tol T (d :: l)) : AdmL n params nums tol T l :=
  fun e he => h e (List.mem_cons_of_mem _ he)

theorem AdmL.step {n : ℕ} {params : List (Option K)} {nums : List ℕ} {tol : K} {T : Shape K} {l : List ℕ}
    (h : AdmL n params nums tol T l) (d : ℕ) (u : K) (r : ℕ) (hd : d ∉ l) :
    AdmL n params nums tol (insDirOf T d u r tol) l :=
  fun e he => ⟨(h e he).1, fun v hv hn =>
    roundOk_insDirOf_other T d e u v r _ tol (fun e' => hd (e' ▸ he)) ((h e he).2 v hv hn)⟩

/-- admissibility of smaller counts -/
theorem AdmL.sub {n : ℕ} {params : List (Option K)} {nums : List ℕ} {tol : K} {T : Shape K} {l : List ℕ}
    (h : AdmL n params nums tol T l) (nums' : List ℕ) : AdmL n params (subNums nums nums') tol T l := by
  intro e he
  refine ⟨(h e he).1, fun u hu hn => ?_⟩
  rw [subNums_getD] at hn ⊢
  exact roundOk_mono T e u _ _ tol ((h e he).2 u hu (by omega)) (by omega) (by omega)

/-! ### the facts about single direction steps that the loops need -/

/-- the loop body of `operations.remove_knot` with the direction step `rem` (`removeKnotDir`: per iso-curve, then this is
    the loop body of `removeKnot`; `removeKnotVolRows`: the list-of-rows branch the code runs on volumes) -/
def remStepWith (rem : Shape K → ℕ → K → ℕ → K → K → Bool → Option (Shape K)) (params : List (Option K)) (nums : List ℕ)
    (tol tol2 : K) (check : Bool) (acc : Shape K × Bool) (d : ℕ) : Shape K × Bool :=
  if acc.2 = false then acc else
    match params.getD d none with
    | none => acc
    | some u =>
      if nums.getD d 0 = 0 then acc
      else match rem acc.1 d u (nums.getD d 0) tol tol2 check with
        | some S' => (S', true)
        | none => (acc.1, false)

theorem remStepWith_removeKnotDir (params : List (Option K)) (nums : List ℕ) (tol tol2 : K) (check : Bool) :
    remStepWith removeKnotDir params nums tol tol2 check = remKnotStep params nums tol tol2 check := rfl

theorem remStepWith_skip (rem : Shape K → ℕ → K → ℕ → K → K → Bool → Option (Shape K)) (params : List (Option K))
    (nums : List ℕ) (tol tol2 : K) (check : Bool) (acc : Shape K × Bool) (d' : ℕ)
    (h : params.getD d' none = none ∨ nums.getD d' 0 = 0) : remStepWith rem params nums tol tol2 check acc d' = acc := by
  unfold remStepWith
  by_cases h1 : acc.2 = false
  · rw [if_pos h1]
  · rw [if_neg h1]
    rcases h with h | h
    · rw [h]
    · cases hp : params.getD d' none with
      | none => rfl
      | some u => simp only [h, if_true]

structure DirFacts (WF : Shape K → Prop) (n : ℕ) (rem : Shape K → ℕ → K → ℕ → K → K → Bool → Option (Shape K))
    (tol tol2 : K) : Prop where
  wf : ∀ (T : Shape K) (d : ℕ) (u : K) (r : ℕ), WF T → d < n → RoundOk T d u r tol → WF (insDirOf T d u r tol)
  comm : ∀ (T : Shape K) (d e : ℕ) (u v : K) (r q : ℕ), WF T → d < n → e < n → d ≠ e → RoundOk T d u r tol →
    RoundOk T e v q tol → insDirOf (insDirOf T d u r tol) e v q tol = insDirOf (insDirOf T e v q tol) d u r tol
  round : ∀ (T : Shape K) (d : ℕ) (u : K) (r t : ℕ) (c : Bool), WF T → d < n → RoundOk T d u r tol → 1 ≤ t → t ≤ r →
    rem (insDirOf T d u r tol) d u t tol tol2 c = some (insDirOf T d u (r - t) tol)
  zero : ∀ (T : Shape K) (d : ℕ) (u : K) (r : ℕ), WF T → d < n → RoundOk T d u r tol → insDirOf T d u 0 tol = T
  pdim : ∀ T : Shape K, WF T → T.pdim = n

section
variable {WF : Shape K → Prop} {n : ℕ} {rem : Shape K → ℕ → K → ℕ → K → K → Bool → Option (Shape K)} {tol tol2 : K}
  (F : DirFacts WF n rem tol tol2)
  (params : List (Option K)) (nums : List ℕ)
include F

/-- the insertion loop keeps the object well formed and the requests of the directions outside the list admissible -/
theorem fold_inv : ∀ (l : List ℕ), l.Nodup → ∀ T : Shape K, WF T → AdmL n params nums tol T l →
    WF (l.foldl (insPure params nums tol) T) ∧
    ∀ x, x ∉ l → ∀ (v : K) (q : ℕ), RoundOk T x v q tol → RoundOk (l.foldl (insPure params nums tol) T) x v q tol
  | [], _, _, hT, _ => ⟨hT, fun _ _ _ _ h => h⟩
  | e :: l, hnd, T, hT, hA => by
    have hel : e ∉ l := (List.nodup_cons.mp hnd).1
    have hnd' : l.Nodup := (List.nodup_cons.mp hnd).2
    rw [List.foldl_cons]
    rcases req_cases params nums e with h | ⟨u, hp, hn⟩
    · rw [insPure_skip params nums tol T e h]
      obtain ⟨a, b⟩ := fold_inv l hnd' T hT hA.tail
      exact ⟨a, fun x hx => b x (fun h' => hx (List.mem_cons_of_mem _ h'))⟩
    · rw [insPure_req params nums tol T e u hp hn]
      have hR := (hA e List.mem_cons_self).2 u hp hn
      obtain ⟨a, b⟩ := fold_inv l hnd' _ (F.wf T e u _ hT (hA e List.mem_cons_self).1 hR) (hA.tail.step e u _ hel)
      refine ⟨a, fun x hx v q h => b x (fun h' => hx (List.mem_cons_of_mem _ h')) v q ?_⟩
      exact roundOk_insDirOf_other T e x u v _ q tol (fun h' => hx (h' ▸ List.mem_cons_self)) h

/-- a step of direction `d` moves through the insertion loop over other directions -/
theorem push : ∀ (l : List ℕ), l.Nodup → ∀ (T : Shape K) (d : ℕ) (u : K) (r : ℕ), d ∉ l → d < n → WF T →
    RoundOk T d u r tol → AdmL n params nums tol T l →
    l.foldl (insPure params nums tol) (insDirOf T d u r tol) = insDirOf (l.foldl (insPure params nums tol) T) d u r tol
  | [], _, _, _, _, _, _, _, _, _, _ => rfl
  | e :: l, hnd, T, d, u, r, hd, hdn, hT, hR, hA => by
    have hel : e ∉ l := (List.nodup_cons.mp hnd).1
    have hnd' : l.Nodup := (List.nodup_cons.mp hnd).2
    have hde : d ≠ e := fun h => hd (h ▸ List.mem_cons_self)
    have hdl : d ∉ l := fun h => hd (List.mem_cons_of_mem _ h)
    rw [List.foldl_cons, List.foldl_cons]
    rcases req_cases params nums e with h | ⟨v, hp, hn⟩
    · rw [insPure_skip params nums tol _ e h, insPure_skip params nums tol T e h]
      exact push l hnd' T d u r hdl hdn hT hR hA.tail
    · rw [insPure_req params nums tol _ e v hp hn, insPure_req params nums tol T e v hp hn]
      have hRe := (hA e List.mem_cons_self).2 v hp hn
      have hen := (hA e List.mem_cons_self).1
      rw [F.comm T d e u v r _ hT hdn hen hde hR hRe]
      exact push l hnd' _ d u r hdl hdn (F.wf T e v _ hT hen hRe)
        (roundOk_insDirOf_other T e d v u _ r tol hde hR) (hA.tail.step e v _ hel)

/-- the insertion loop of the model is the loop without the error branch when every request is admissible -/
theorem insFold_pure (check : Bool) : ∀ (l : List ℕ), l.Nodup → ∀ T : Shape K, WF T → AdmL n params nums tol T l →
    l.foldl (insKnotStep params nums tol check) (T, true) = (l.foldl (insPure params nums tol) T, true)
  | [], _, _, _, _ => rfl
  | e :: l, hnd, T, hT, hA => by
    have hel : e ∉ l := (List.nodup_cons.mp hnd).1
    have hnd' : l.Nodup := (List.nodup_cons.mp hnd).2
    rw [List.foldl_cons, List.foldl_cons]
    rcases req_cases params nums e with h | ⟨u, hp, hn⟩
    · rw [insKnotStep_skip params nums tol check _ e h, insPure_skip params nums tol T e h]
      exact insFold_pure check l hnd' T hT hA.tail
    · have hR := (hA e List.mem_cons_self).2 u hp hn
      have hstep : insKnotStep params nums tol check (T, true) e = (insDirOf T e u (nums.getD e 0) tol, true) := by
        unfold insKnotStep
        simp only [Bool.true_eq_false, if_false, hp, if_neg hn, insertKnotDir_insDirOf T e u _ tol check hR.req.rs]
      rw [hstep, insPure_req params nums tol T e u hp hn]
      exact insFold_pure check l hnd' _ (F.wf T e u _ hT (hA e List.mem_cons_self).1 hR) (hA.tail.step e u _ hel)

/-- **the removal loop after the insertion loop is the insertion loop with the counts reduced** -/
theorem rem_fold (nums' : List ℕ) (check : Bool) : ∀ (l : List ℕ), l.Nodup → ∀ T : Shape K, WF T →
    AdmL n params nums tol T l → (∀ e ∈ l, nums'.getD e 0 ≤ nums.getD e 0) →
    l.foldl (remStepWith rem params nums' tol tol2 check) (l.foldl (insPure params nums tol) T, true)
      = (l.foldl (insPure params (subNums nums nums') tol) T, true)
  | [], _, _, _, _, _ => rfl
  | d :: l, hnd, T, hT, hA, hle => by
    have hdl : d ∉ l := (List.nodup_cons.mp hnd).1
    have hnd' : l.Nodup := (List.nodup_cons.mp hnd).2
    have hle' : ∀ e ∈ l, nums'.getD e 0 ≤ nums.getD e 0 := fun e he => hle e (List.mem_cons_of_mem _ he)
    have hled := hle d List.mem_cons_self
    have hdn := (hA d List.mem_cons_self).1
    rw [List.foldl_cons, List.foldl_cons, List.foldl_cons]
    rcases req_cases params nums d with h | ⟨u, hp, hn⟩
    · have h' : params.getD d none = none ∨ nums'.getD d 0 = 0 := by
        rcases h with h | h
        · exact Or.inl h
        · exact Or.inr (by omega)
      have h'' : params.getD d none = none ∨ (subNums nums nums').getD d 0 = 0 := by
        rcases h with h | h
        · exact Or.inl h
        · exact Or.inr (by rw [subNums_getD]; omega)
      rw [insPure_skip params nums tol T d h, remStepWith_skip rem params nums' tol tol2 check _ d h',
        insPure_skip params _ tol T d h'']
      exact rem_fold nums' check l hnd' T hT hA.tail hle'
    · have hR := (hA d List.mem_cons_self).2 u hp hn
      obtain ⟨hWY, hRY⟩ := fold_inv F params nums l hnd' T hT hA.tail
      have hRYd := hRY d hdl u _ hR
      rw [insPure_req params nums tol T d u hp hn, push F params nums l hnd' T d u _ hdl hdn hT hR hA.tail]
      by_cases ht : nums'.getD d 0 = 0
      · have hsub : (subNums nums nums').getD d 0 = nums.getD d 0 := by rw [subNums_getD]; omega
        rw [remStepWith_skip rem params nums' tol tol2 check _ d (Or.inr ht),
          insPure_req params _ tol T d u hp (by rw [hsub]; exact hn), hsub,
          ← push F params nums l hnd' T d u _ hdl hdn hT hR hA.tail]
        exact rem_fold nums' check l hnd' _ (F.wf T d u _ hT hdn hR) (hA.tail.step d u _ hdl) hle'
      · have hstep : remStepWith rem params nums' tol tol2 check
            (insDirOf (l.foldl (insPure params nums tol) T) d u (nums.getD d 0) tol, true) d
              = (insDirOf (l.foldl (insPure params nums tol) T) d u (nums.getD d 0 - nums'.getD d 0) tol, true) := by
          unfold remStepWith
          simp only [Bool.true_eq_false, if_false, hp, if_neg ht,
            F.round _ d u _ _ check hWY hdn hRYd (by omega) hled]
        rw [hstep]
        by_cases hq : nums.getD d 0 - nums'.getD d 0 = 0
        · rw [hq, F.zero _ d u _ hWY hdn hRYd,
            insPure_skip params _ tol T d (Or.inr (by rw [subNums_getD]; exact hq))]
          exact rem_fold nums' check l hnd' T hT hA.tail hle'
        · have hRq := roundOk_mono T d u _ (nums.getD d 0 - nums'.getD d 0) tol hR (by omega) (by omega)
          rw [insPure_req params _ tol T d u hp (by rw [subNums_getD]; exact hq), subNums_getD,
            ← push F params nums l hnd' T d u _ hdl hdn hT hRq hA.tail]
          exact rem_fold nums' check l hnd' _ (F.wf T d u _ hT hdn hRq) (hA.tail.step d u _ hdl) hle'

/-- `insert_knot` on a well-formed object with admissible requests, as the loop without the error branch -/
theorem insertKnot_pure (check : Bool) (S : Shape K) (hS : WF S) (hA : AdmL n params nums tol S (List.range n)) :
    insertKnot S params nums tol check = ((List.range n).foldl (insPure params nums tol) S, true) := by
  rw [insertKnot_eq, F.pdim S hS]
  exact insFold_pure F params nums check _ List.nodup_range S hS hA

/-- **`insert_knot` then the loop of `remove_knot` (direction step `rem`), any subset of the directions in one call
    each**: the result is what `insert_knot` with the reduced counts returns -/
theorem insertKnot_remFold (nums' : List ℕ) (c1 c2 : Bool) (S : Shape K) (hS : WF S)
    (hA : AdmL n params nums tol S (List.range n)) (hle : ∀ e, e < n → nums'.getD e 0 ≤ nums.getD e 0) :
    (List.range n).foldl (remStepWith rem params nums' tol tol2 c2) ((insertKnot S params nums tol c1).1, true)
      = insertKnot S params (subNums nums nums') tol c1 ∧ (insertKnot S params nums tol c1).1.pdim = n := by
  rw [insertKnot_pure F params nums c1 S hS hA, insertKnot_pure F params _ c1 S hS (hA.sub nums')]
  refine ⟨rem_fold F params nums nums' c2 _ List.nodup_range S hS hA (fun e he => hle e (List.mem_range.mp he)), ?_⟩
  show ((List.range n).foldl (insPure params nums tol) S).degs.length = n
  rw [foldl_insPure_degs]
  exact F.pdim S hS

end

/-- **`insert_knot` then `remove_knot`, any subset of the directions in one call each**: the result is what
    `insert_knot` with the reduced counts returns -/
theorem insertKnot_removeKnot {WF : Shape K → Prop} {n : ℕ} {tol tol2 : K} (F : DirFacts WF n removeKnotDir tol tol2)
    (params : List (Option K)) (nums nums' : List ℕ) (c1 c2 : Bool) (S : Shape K) (hS : WF S)
    (hA : AdmL n params nums tol S (List.range n)) (hle : ∀ e, e < n → nums'.getD e 0 ≤ nums.getD e 0) :
    removeKnot (insertKnot S params nums tol c1).1 params nums' tol tol2 c2
      = insertKnot S params (subNums nums nums') tol c1 := by
  obtain ⟨a, b⟩ := insertKnot_remFold F params nums nums' c1 c2 S hS hA hle
  rw [removeKnot_eq, b]
  exact a

/-- every requested direction (parameter given, count not zero) of a call on an object with `n` directions is an
    admissible insertion request whose computed multiplicity is the true one (`RoundOk`) -/
def RoundCallOk (n : ℕ) (S : Shape K) (params : List (Option K)) (nums : List ℕ) (tol : K) : Prop :=
  ∀ dir, dir < n → ∀ u, params.getD dir none = some u → nums.getD dir 0 ≠ 0 → RoundOk S dir u (nums.getD dir 0) tol

theorem RoundCallOk.admL {n : ℕ} {S : Shape K} {params : List (Option K)} {nums : List ℕ} {tol : K}
    (h : RoundCallOk n S params nums tol) : AdmL n params nums tol S (List.range n) :=
  fun e he => ⟨List.mem_range.mp he, fun u hu hn => h e (List.mem_range.mp he) u hu hn⟩

theorem RoundCallOk.callOk {n : ℕ} {S : Shape K} {params : List (Option K)} {nums : List ℕ} {tol : K}
    (h : RoundCallOk n S params nums tol) : CallOk n S params nums tol :=
  fun dir hd u hu hn => (h dir hd u hu hn).req

theorem RoundCallOk.sub {n : ℕ} {S : Shape K} {params : List (Option K)} {nums : List ℕ} {tol : K}
    (h : RoundCallOk n S params nums tol) (nums' : List ℕ) : RoundCallOk n S params (subNums nums nums') tol :=
  fun dir hd u hu hn => (h.admL.sub nums' dir (List.mem_range.mpr hd)).2 u hu hn

/-- a call all of whose counts are zero does nothing -/
theorem insertKnot_zero (S : Shape K) (params : List (Option K)) (nums : List ℕ) (tol : K) (check : Bool)
    (h : ∀ d, d < S.pdim → nums.getD d 0 = 0) : insertKnot S params nums tol check = (S, true) := by
  rw [insertKnot_eq]
  have : ∀ l : List ℕ, (∀ a ∈ l, a < S.pdim) → l.foldl (insKnotStep params nums tol check) (S, true) = (S, true) := by
    intro l
    induction l with
    | nil => intro _; rfl
    | cons a t ih =>
      intro hl
      rw [List.foldl_cons, insKnotStep_skip params nums tol check _ a (Or.inr (h a (hl a List.mem_cons_self)))]
      exact ih (fun x hx => hl x (List.mem_cons_of_mem _ hx))
  exact this _ (fun a ha => List.mem_range.mp ha)

end Multi
end Geomdl
