/-
  C13: rational sweeps end to end – the explicit split-and-recombine model (`sweepCurveRat` / `sweepSurfaceRat`,
  `Model/LayoutRat.lean`) evaluated with the rational evaluator (`project ∘ surfacePoint / volumePoint`), with an
  arbitrary clamped sweep knot function and with the one the code generates (`knotGenerate 1 2`); witness data
  with weights different from 1.
-/
import NurbsVerif.Lemmas.ConstructRat
import NurbsVerif.Lemmas.ConstructRatSweep
import NurbsVerif.Lemmas.LayoutSweepGen

namespace Geomdl
open Blossom Finset
set_option linter.unusedSectionVars false
variable {K : Type} [Field K] [LinearOrder K] [IsStrictOrderedRing K]

/-- the sections of the swept rational curve, net level, explicit model -/
theorem sweepCurveRat_sections {κ : Type} (vec : List K) (kvGen : κ) (C : Crv (List K) κ) (h : HomOk C.pts)
    (hne : C.pts ≠ []) :
    ∃ S, sweepCurveRat vec kvGen C = some S ∧ S.du = 1 ∧ S.dv = C.deg ∧ S.ku = kvGen ∧ S.kv = C.kv ∧
      S.su = 2 ∧ S.sv = C.pts.length ∧
      extractCurvesV S = [C, { C with pts := C.pts.map (pointTranslateW vec) }] :=
  ⟨_, by rw [sweepCurveRat_eq vec kvGen C h hne]; exact sweepCurve_eq _ kvGen C, rfl, rfl, rfl, rfl, rfl, rfl,
    extractCurvesV_sweep _ kvGen C⟩

/-- the sections of the swept rational surface, net level, explicit model -/
theorem sweepSurfaceRat_sections {κ : Type} (vec : List K) (kvGen : κ) (S : Srf (List K) κ) (hwf : S.WF)
    (h : HomOk S.pts) :
    ∃ V, sweepSurfaceRat vec kvGen S = some V ∧ V.du = S.du ∧ V.dv = S.dv ∧ V.dw = 1 ∧ V.kw = kvGen ∧
      V.su = S.su ∧ V.sv = S.sv ∧ V.sw = 2 ∧
      extractSurfacesUV V = [S, { S with pts := S.pts.map (pointTranslateW vec) }] :=
  ⟨_, by rw [sweepSurfaceRat_eq vec kvGen S h hwf.1 (Nat.mul_pos (by have := hwf.2.1; omega) (by have := hwf.2.2; omega))]
         exact sweepSurface_eq _ kvGen S,
    rfl, rfl, rfl, rfl, rfl, rfl, rfl, extractSurfacesUV_sweep _ kvGen S hwf⟩

/-- swept rational curve, explicit model, projected points -/
theorem sweepCurveRat_boundary (vec : List K) (kvGen : ℕ → K) (C : Crv (List K) (ℕ → K)) (d : ℕ)
    (hn : 2 ≤ C.pts.length) (hU : KnotsOk C.deg C.kv C.pts.length) (hd : NetOk (d+1) C.pts) (hvec : vec.length = d)
    (hwt : ∀ i, i < C.pts.length → 0 < (ptsGet C.pts i).getD d 0)
    (hk : KnotsOk 1 kvGen 2) (hc : ClampedOk 1 kvGen 2) (v : K) (hv1 : C.kv C.deg ≤ v) (hv2 : v ≤ C.kv C.pts.length) :
    ∃ S, sweepCurveRat vec kvGen C = some S ∧
      0 < (curvePoint C.deg C.kv C.pts v).getD d 0 ∧
      project (surfacePoint S.du S.dv S.ku S.kv S.su S.sv S.pts (kvGen 1) v) = project (curvePoint C.deg C.kv C.pts v) ∧
      project (surfacePoint S.du S.dv S.ku S.kv S.su S.sv S.pts (kvGen 2) v)
        = pointTranslate vec (project (curvePoint C.deg C.kv C.pts v)) := by
  rw [sweepCurveRat_eq vec kvGen C (homOk_of_pos d C.pts hd hwt) (by intro h0; rw [h0] at hn; simp at hn)]
  exact sweepCurve_boundary_rat vec kvGen C d hn hU hd hvec hwt hk hc v hv1 hv2

/-- swept rational surface, explicit model, projected points -/
theorem sweepSurfaceRat_boundary (vec : List K) (kvGen : ℕ → K) (S : Srf (List K) (ℕ → K)) (d : ℕ)
    (h : S.WF) (hUu : KnotsOk S.du S.ku S.su) (hUv : KnotsOk S.dv S.kv S.sv) (hd : NetOk (d+1) S.pts)
    (hvec : vec.length = d) (hwt : ∀ i, i < S.pts.length → 0 < (ptsGet S.pts i).getD d 0)
    (hk : KnotsOk 1 kvGen 2) (hc : ClampedOk 1 kvGen 2) (u v : K)
    (hu1 : S.ku S.du ≤ u) (hu2 : u ≤ S.ku S.su) (hv1 : S.kv S.dv ≤ v) (hv2 : v ≤ S.kv S.sv) :
    ∃ V, sweepSurfaceRat vec kvGen S = some V ∧
      0 < (surfacePoint S.du S.dv S.ku S.kv S.su S.sv S.pts u v).getD d 0 ∧
      project (volumePoint V.du V.dv V.dw V.ku V.kv V.kw V.su V.sv V.sw V.pts u v (kvGen 1))
        = project (surfacePoint S.du S.dv S.ku S.kv S.su S.sv S.pts u v) ∧
      project (volumePoint V.du V.dv V.dw V.ku V.kv V.kw V.su V.sv V.sw V.pts u v (kvGen 2))
        = pointTranslate vec (project (surfacePoint S.du S.dv S.ku S.kv S.su S.sv S.pts u v)) := by
  rw [sweepSurfaceRat_eq vec kvGen S (homOk_of_pos d S.pts hd hwt) h.1
    (Nat.mul_pos (by have := h.2.1; omega) (by have := h.2.2; omega))]
  exact sweepSurface_boundary_rat vec kvGen S d h hUu hUv hd hvec hwt hk hc u v hu1 hu2 hv1 hv2

/-- … with the knot vector the code generates: `S(0, v) = C(v)`, `S(1, v) = C(v) + vec` -/
theorem sweepCurveRat_boundary_generated (vec : List K) (tol : K) (htol : tol < 1) (C : Crv (List K) (ℕ → K)) (d : ℕ)
    (hn : 2 ≤ C.pts.length) (hU : KnotsOk C.deg C.kv C.pts.length) (hd : NetOk (d+1) C.pts) (hvec : vec.length = d)
    (hwt : ∀ i, i < C.pts.length → 0 < (ptsGet C.pts i).getD d 0)
    (v : K) (hv1 : C.kv C.deg ≤ v) (hv2 : v ≤ C.kv C.pts.length) :
    ∃ S, sweepCurveRat vec (fnOf (knotGenerate 1 2 true tol : List K)) C = some S ∧
      0 < (curvePoint C.deg C.kv C.pts v).getD d 0 ∧
      project (surfacePoint S.du S.dv S.ku S.kv S.su S.sv S.pts 0 v) = project (curvePoint C.deg C.kv C.pts v) ∧
      project (surfacePoint S.du S.dv S.ku S.kv S.su S.sv S.pts 1 v)
        = pointTranslate vec (project (curvePoint C.deg C.kv C.pts v)) := by
  have h := sweepCurveRat_boundary vec (fnOf (knotGenerate 1 2 true tol : List K)) C d hn hU hd hvec hwt
    (genKv_knotsOk tol htol) (genKv_clampedOk tol htol) v hv1 hv2
  rwa [(genKv_ends tol htol).1, (genKv_ends tol htol).2] at h

/-- … and `V(u, v, 0) = S(u, v)`, `V(u, v, 1) = S(u, v) + vec` -/
theorem sweepSurfaceRat_boundary_generated (vec : List K) (tol : K) (htol : tol < 1) (S : Srf (List K) (ℕ → K)) (d : ℕ)
    (h : S.WF) (hUu : KnotsOk S.du S.ku S.su) (hUv : KnotsOk S.dv S.kv S.sv) (hd : NetOk (d+1) S.pts)
    (hvec : vec.length = d) (hwt : ∀ i, i < S.pts.length → 0 < (ptsGet S.pts i).getD d 0) (u v : K)
    (hu1 : S.ku S.du ≤ u) (hu2 : u ≤ S.ku S.su) (hv1 : S.kv S.dv ≤ v) (hv2 : v ≤ S.kv S.sv) :
    ∃ V, sweepSurfaceRat vec (fnOf (knotGenerate 1 2 true tol : List K)) S = some V ∧
      0 < (surfacePoint S.du S.dv S.ku S.kv S.su S.sv S.pts u v).getD d 0 ∧
      project (volumePoint V.du V.dv V.dw V.ku V.kv V.kw V.su V.sv V.sw V.pts u v 0)
        = project (surfacePoint S.du S.dv S.ku S.kv S.su S.sv S.pts u v) ∧
      project (volumePoint V.du V.dv V.dw V.ku V.kv V.kw V.su V.sv V.sw V.pts u v 1)
        = pointTranslate vec (project (surfacePoint S.du S.dv S.ku S.kv S.su S.sv S.pts u v)) := by
  have h := sweepSurfaceRat_boundary vec (fnOf (knotGenerate 1 2 true tol : List K)) S d h hUu hUv hd hvec hwt
    (genKv_knotsOk tol htol) (genKv_clampedOk tol htol) u v hu1 hu2 hv1 hv2
  rwa [(genKv_ends tol htol).1, (genKv_ends tol htol).2] at h

end Geomdl

namespace C13
open Geomdl

/-- a rational quadratic curve in the plane: Cartesian points `(0,0), (1,2), (3,1)`, weights `1, 2, 1/2`
    (homogeneous points `(x·w, y·w, w)`) -/
def c13RatCrv : Crv (List ℚ) (ℕ → ℚ) :=
  { deg := 2, kv := fnOf [0,0,0,1,1,1], pts := [[0,0,1],[2,4,2],[3/2,1/2,1/2]] }

/-- the same curve with its knot vector as a list (net-level statements) -/
def c13RatCrvL : Crv (List ℚ) (List ℚ) :=
  { deg := 2, kv := [0,0,0,1,1,1], pts := [[0,0,1],[2,4,2],[3/2,1/2,1/2]] }

/-- a rational bilinear surface with 3-D points: Cartesian `(0,0,1), (0,1,2), (1,0,0), (1,1,4)`, weights `1, 2, 1/2, 3` -/
def c13RatSrf : Srf (List ℚ) (ℕ → ℚ) :=
  { du := 1, dv := 1, ku := fnOf [0,0,1,1], kv := fnOf [0,0,1,1], su := 2, sv := 2,
    pts := [[0,0,1,1],[0,2,4,2],[1/2,0,0,1/2],[3,3,12,3]] }

def c13RatSrfL : Srf (List ℚ) (List ℚ) :=
  { du := 1, dv := 1, ku := [0,0,1,1], kv := [0,0,1,1], su := 2, sv := 2,
    pts := [[0,0,1,1],[0,2,4,2],[1/2,0,0,1/2],[3,3,12,3]] }

/-- a second rational surface of the same degrees and sizes (weights `2, 1, 1, 1/3`) -/
def c13RatSrfL2 : Srf (List ℚ) (List ℚ) :=
  { du := 1, dv := 1, ku := [0,0,1/2,1], kv := [0,0,1,1], su := 2, sv := 2,
    pts := [[0,0,4,2],[0,1,3,1],[1,0,2,1],[1/3,1/3,2,1/3]] }

/-- the second surface with knot functions (a `u` knot vector different from the first surface's) -/
def c13RatSrf2 : Srf (List ℚ) (ℕ → ℚ) :=
  { du := 1, dv := 1, ku := fnOf [0,0,1/2,1], kv := fnOf [0,0,1,1], su := 2, sv := 2,
    pts := [[0,0,4,2],[0,1,3,1],[1,0,2,1],[1/3,1/3,2,1/3]] }

theorem c13_kv3_knotsOk : KnotsOk 2 (fnOf ([0,0,0,1,1,1] : List ℚ)) 3 where
  mono := fnOf_monotone_of_isSortedB _ (by decide +kernel)
  pn := by omega
  last := by decide +kernel

theorem c13_kv2_knotsOk : KnotsOk 1 (fnOf ([0,0,1,1] : List ℚ)) 2 where
  mono := fnOf_monotone_of_isSortedB _ (by decide +kernel)
  pn := by omega
  last := by decide +kernel

end C13
