import NurbsVerif.Model.Basis
import Mathlib.Algebra.Order.Field.Basic
import Mathlib.Order.Monotone.Basic
import Mathlib.Tactic.Linarith

/-! `helpers.find_span_linear`: characterisation of the result. -/
namespace Geomdl
variable {K : Type} [Field K] [LinearOrder K] [IsStrictOrderedRing K]

theorem findSpanLinearAux_spec (U : ℕ → K) (n : ℕ) (u : K) : ∀ (fuel s : ℕ), s ≤ n → n - s ≤ fuel →
    let s' := findSpanLinearAux U n u fuel s
    s ≤ s' ∧ s' ≤ n ∧ (s' = n ∨ u < U s') ∧ ∀ i, s ≤ i → i < s' → U i ≤ u := by
  intro fuel
  induction fuel with
  | zero =>
    intro s hs hf
    have : s = n := by omega
    subst this
    simp only [findSpanLinearAux]
    exact ⟨le_refl _, le_refl _, by simp, by intro i h1 h2; omega⟩
  | succ fuel ih =>
    intro s hs hf
    simp only [findSpanLinearAux]
    by_cases hc : s < n ∧ U s ≤ u
    · rw [if_pos hc]
      obtain ⟨h1, h2, h3, h4⟩ := ih (s+1) (by omega) (by omega)
      refine ⟨by omega, h2, h3, ?_⟩
      intro i hi1 hi2
      rcases Nat.eq_or_lt_of_le hi1 with h | h
      · subst h; exact hc.2
      · exact h4 i (by omega) hi2
    · rw [if_neg hc]
      refine ⟨le_refl _, hs, ?_, by intro i h1 h2; omega⟩
      by_cases hsn : s < n
      · right
        have : ¬ (U s ≤ u) := fun h => hc ⟨hsn, h⟩
        exact not_le.mp this
      · left; omega

/-- linear search returns the knot interval containing `u`: `p ≤ k < n`, `U k ≤ u`, and either
    `u < U (k+1)` or `k = n - 1` (parameter at / beyond the last knot of the domain) -/
theorem findSpanLinear_spec (p : ℕ) (U : ℕ → K) (n : ℕ) (u : K) (hpn : p + 1 ≤ n)
    (hm : Monotone U) (hlo : U p ≤ u) :
    let k := findSpanLinear p U n u
    p ≤ k ∧ k < n ∧ U k ≤ u ∧ (u < U (k+1) ∨ k + 1 = n) := by
  intro k
  obtain ⟨h1, h2, h3, h4⟩ := findSpanLinearAux_spec U n u (n+1) (p+1) hpn (by omega)
  have hk : k = findSpanLinearAux U n u (n + 1) (p + 1) - 1 := rfl
  set s' := findSpanLinearAux U n u (n + 1) (p + 1) with hs'
  have hk1 : k + 1 = s' := by omega
  refine ⟨by omega, by omega, ?_, ?_⟩
  · rcases Nat.eq_or_lt_of_le (show p ≤ k by omega) with h | h
    · rw [← h]; exact hlo
    · exact h4 k (by omega) (by omega)
  · rcases h3 with h | h
    · right; omega
    · left; rw [hk1]; exact h

/-- uniqueness of the half-open knot interval containing `u` -/
theorem span_unique (U : ℕ → K) (hm : Monotone U) (u : K) (k k' : ℕ)
    (h1 : U k ≤ u) (h2 : u < U (k+1)) (h1' : U k' ≤ u) (h2' : u < U (k'+1)) : k = k' := by
  by_contra hne
  rcases Nat.lt_or_gt_of_ne hne with h | h
  · have : U (k+1) ≤ U k' := hm (by omega)
    linarith
  · have : U (k'+1) ≤ U k := hm (by omega)
    linarith

/-- for `u` strictly below the last domain knot, the interval found is half-open and is the only one -/
theorem findSpanLinear_unique (p : ℕ) (U : ℕ → K) (n : ℕ) (u : K) (hpn : p + 1 ≤ n)
    (hm : Monotone U) (hlo : U p ≤ u) (hhi : u < U n) (k' : ℕ) (h1' : U k' ≤ u) (h2' : u < U (k'+1)) :
    findSpanLinear p U n u = k' := by
  obtain ⟨_, _, h3, h4⟩ := findSpanLinear_spec p U n u hpn hm hlo
  rcases h4 with h | h
  · exact span_unique U hm u _ _ h3 h h1' h2'
  · exact span_unique U hm u _ _ h3 (by rw [h]; exact hhi) h1' h2'

end Geomdl
