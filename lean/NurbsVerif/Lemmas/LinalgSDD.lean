import NurbsVerif.Lemmas.LU
import Mathlib.Algebra.Order.Field.Basic
import Mathlib.Algebra.Order.Group.Abs
import Mathlib.Algebra.Order.Ring.Abs
import Mathlib.Algebra.Order.BigOperators.Group.Finset
import Mathlib.Algebra.BigOperators.Ring.Finset
import Mathlib.Tactic.Linarith
import Mathlib.Tactic.Ring
import Mathlib.Tactic.NormNum

/-!
Strict row diagonal dominance implies that Doolittle LU factorisation (without pivoting)
never meets a zero pivot.
-/

namespace Lin
open Finset
variable {K : Type} [Field K] [LinearOrder K] [IsStrictOrderedRing K]

/-- strictly (row) diagonally dominant on the leading n×n block -/
def SDD (A : ℕ → ℕ → K) (n : ℕ) : Prop :=
  ∀ i, i < n → ∑ j ∈ (Finset.range n).filter (· ≠ i), |A i j| < |A i i|

/-- One step of Gaussian elimination on a row `a` with pivot row `b` (pivot column `k`) preserves
strict dominance of the entry `i` over the entries indexed by `s`. -/
theorem elim_row (s : Finset ℕ) (a b : ℕ → K) (k i : ℕ)
    (hb : ∑ j ∈ s, |b j| + |b i| < |b k|)
    (ha : ∑ j ∈ s, |a j| + |a k| < |a i|) :
    ∑ j ∈ s, |a j - a k / b k * b j| < |a i - a k / b k * b i| := by
  have hsb : 0 ≤ ∑ j ∈ s, |b j| := sum_nonneg (fun j _ => abs_nonneg _)
  have hbk : 0 < |b k| := by
    have := abs_nonneg (b i)
    linarith
  have hlk : |a k / b k| * |b k| = |a k| := by
    rw [abs_div, div_mul_cancel₀ _ hbk.ne']
  generalize a k / b k = l at hlk ⊢
  have h1 : ∑ j ∈ s, |a j - l * b j| ≤ ∑ j ∈ s, |a j| + |l| * ∑ j ∈ s, |b j| := by
    rw [mul_sum, ← sum_add_distrib]
    apply sum_le_sum
    intro j _
    calc |a j - l * b j| ≤ |a j| + |l * b j| := abs_sub _ _
      _ = |a j| + |l| * |b j| := by rw [abs_mul]
  have h2 : |a i| - |l| * |b i| ≤ |a i - l * b i| := by
    have := abs_sub_abs_le_abs_sub (a i) (l * b i)
    rwa [abs_mul] at this
  have h3 : |l| * (∑ j ∈ s, |b j| + |b i|) ≤ |l| * |b k| :=
    mul_le_mul_of_nonneg_left hb.le (abs_nonneg _)
  rw [mul_add] at h3
  linarith

/-- the `k`-th Schur complement of the final factorisation -/
def schur (A : ℕ → ℕ → K) (n k i j : ℕ) : K :=
  A i j - ∑ t ∈ range k, (doolittle A n).L i t * (doolittle A n).U t j

theorem schur_zero (A : ℕ → ℕ → K) (n i j : ℕ) : schur A n 0 i j = A i j := by
  simp [schur]

theorem schur_succ (A : ℕ → ℕ → K) (n k i j : ℕ) :
    schur A n (k+1) i j
      = schur A n k i j - (doolittle A n).L i k * (doolittle A n).U k j := by
  unfold schur
  rw [sum_range_succ]
  ring

theorem U_eq_schur (A : ℕ → ℕ → K) (n k j : ℕ) (hk : k < n) (hj : j < n) (hkj : k ≤ j) :
    (doolittle A n).U k j = schur A n k k j := by
  have h := (lu_rec A n k j hk hj).1
  rw [h, if_neg (by omega)]
  rfl

theorem L_eq_schur (A : ℕ → ℕ → K) (n k i : ℕ) (hk : k < n) (hi : i < n) (hki : k < i) :
    (doolittle A n).L i k = schur A n k i k / schur A n k k k := by
  have h := (lu_rec A n k i hk hi).2
  rw [h, if_neg (by omega), if_neg (by omega), U_eq_schur A n k k hk hk le_rfl]
  rfl

theorem schur_step (A : ℕ → ℕ → K) (n k i j : ℕ) (hk : k < n) (hi : i < n) (hj : j < n)
    (hki : k < i) (hkj : k ≤ j) :
    schur A n (k+1) i j
      = schur A n k i j - schur A n k i k / schur A n k k k * schur A n k k j := by
  rw [schur_succ, U_eq_schur A n k j hk hj hkj, L_eq_schur A n k i hk hi hki]

/-- every Schur complement of a strictly diagonally dominant matrix is strictly diagonally
dominant -/
theorem sdd_schur (A : ℕ → ℕ → K) (n : ℕ) (h : SDD A n) :
    ∀ k, k ≤ n → ∀ i, k ≤ i → i < n →
      ∑ j ∈ (range n).filter (fun j => k ≤ j ∧ j ≠ i), |schur A n k i j| < |schur A n k i i| := by
  intro k
  induction k with
  | zero =>
    intro _ i _ hi
    have := h i hi
    simpa [schur_zero] using this
  | succ k ih =>
    intro hk i hki hi
    have hkn : k < n := by omega
    have ihi := ih (by omega) i (by omega) hi
    have ihk := ih (by omega) k le_rfl hkn
    set s := (range n).filter (fun j => k + 1 ≤ j ∧ j ≠ i) with hs
    have his : i ∉ s := by simp [hs]
    have hks : k ∉ s := by simp [hs]
    have e1 : (range n).filter (fun j => k ≤ j ∧ j ≠ k) = insert i s := by
      ext j
      simp only [hs, mem_filter, mem_range, mem_insert]
      omega
    have e2 : (range n).filter (fun j => k ≤ j ∧ j ≠ i) = insert k s := by
      ext j
      simp only [hs, mem_filter, mem_range, mem_insert]
      omega
    rw [e1, sum_insert his, add_comm] at ihk
    rw [e2, sum_insert hks, add_comm] at ihi
    have key := elim_row s (schur A n k i) (schur A n k k) k i ihk ihi
    rw [schur_step A n k i i hkn hi hi (by omega) (by omega)]
    have hsum : ∑ j ∈ s, |schur A n (k+1) i j|
        = ∑ j ∈ s, |schur A n k i j - schur A n k i k / schur A n k k k * schur A n k k j| := by
      apply sum_congr rfl
      intro j hj
      simp only [hs, mem_filter, mem_range] at hj
      rw [schur_step A n k i j hkn hi hj.1 (by omega) (by omega)]
    rw [hsum]
    exact key

theorem sdd_pivots_ne_zero (A : ℕ → ℕ → K) (n : ℕ) (h : SDD A n) :
    ∀ j, j < n → (doolittle A n).U j j ≠ 0 := by
  intro j hj
  rw [U_eq_schur A n j j hj hj le_rfl]
  have := sdd_schur A n h j (by omega) j le_rfl hj
  have h0 : 0 ≤ ∑ t ∈ (range n).filter (fun t => j ≤ t ∧ t ≠ j), |schur A n j j t| :=
    sum_nonneg (fun t _ => abs_nonneg _)
  have hpos : 0 < |schur A n j j j| := lt_of_le_of_lt h0 this
  exact abs_pos.mp hpos

/-- non-vacuity: a concrete strictly diagonally dominant matrix -/
example : SDD (fun i j => if i = j then (3:ℚ) else 1) 3 := by
  intro i hi
  have : i = 0 ∨ i = 1 ∨ i = 2 := by omega
  rcases this with rfl | rfl | rfl <;>
    norm_num [Finset.sum_filter, Finset.sum_range_succ]

end Lin
