import NurbsVerif.Lemmas.RatTangent
import Mathlib.Tactic.LinearCombination

/-!
# C02: `operations.tangent` / `operations.normal` with `normalize=True`

`Lin.vectorNormalize v m` is the model of `linalg.vector_normalize(v)` with the value `m` of `vector_magnitude(v)` as an
input (the square root is not a model quantity; the driver ops `tancn` / `tansn` / `nrmsn` receive the double the
implementation computed).  For an EXACT root (`m·m = |v|²`):
* `0 < m`: the result exists, has squared length exactly 1, and is `(1/m)·v` with `1/m > 0` – a positive multiple of `v`;
* `0 ≤ m`: the call is refused (`none`, the `ValueError` of the code) exactly for the zero vector.
`tangentCurveN`, `tangentSurfaceN`, `normalSurfaceN` (what the ops run) return the un-normalised point and these vectors.
-/
namespace Lin
variable {K : Type} [Field K] [LinearOrder K] [IsStrictOrderedRing K]

/-- `vector_normalize` with an exact, positive root: squared length 1, the positive multiple `(1/m)·v` of `v` -/
theorem vectorNormalize_spec (v : List K) (m : K) (hmm : m * m = normSq v) (hm : 0 < m) :
    ∃ n, vectorNormalize v m = some n ∧ normSq n = 1 ∧ n.length = v.length ∧ 0 < 1 / m ∧
      ∀ j, n.getD j 0 = (1 / m) * v.getD j 0 := by
  have h : vectorNormalize v m = some (v.map (fun x => x / m)) := by
    unfold vectorNormalize; rw [if_pos hm]
  refine ⟨_, h, vectorNormalize_unit v _ m hmm h, by simp, by positivity, ?_⟩
  intro j
  by_cases hj : j < v.length
  · rw [List.getD_eq_getElem _ _ (by simpa using hj), List.getD_eq_getElem _ _ hj, List.getElem_map]
    ring
  · rw [List.getD_eq_default _ _ (by simpa using hj), List.getD_eq_default _ _ (by omega)]
    ring

/-- with an exact non-negative root the `ValueError` ("magnitude is zero") is raised exactly for the zero vector -/
theorem vectorNormalize_none_iff (v : List K) (m : K) (hmm : m * m = normSq v) (hm : 0 ≤ m) :
    vectorNormalize v m = none ↔ ∀ x ∈ v, x = 0 := by
  rw [← normSq_eq_zero_iff, ← hmm]
  unfold vectorNormalize
  constructor
  · intro h
    by_cases hp : 0 < m
    · rw [if_pos hp] at h; exact absurd h (by simp)
    · have : m = 0 := le_antisymm (not_lt.mp hp) hm
      rw [this]; ring
  · intro h
    have : m = 0 := mul_self_eq_zero.mp h
    rw [if_neg (by rw [this]; exact lt_irrefl _)]

/-- whatever the supplied magnitude: a result is returned iff it is positive, and then it is `v / m` -/
theorem vectorNormalize_eq (v : List K) (m : K) :
    vectorNormalize v m = if 0 < m then some (v.map (fun x => x / m)) else none := rfl

end Lin

namespace Geomdl
open Blossom Polynomial Finset
open scoped Polynomial.Bivariate
variable {K : Type} [Field K] [LinearOrder K] [IsStrictOrderedRing K]

/-- `tangent(curve, u, normalize=True)` on any derivative table: the point of the un-normalised call and the unit
    vector `T / m` -/
theorem tangentCurveN_spec (ders : List (List K)) (m : K)
    (hmm : m * m = Lin.normSq (tangentCurve ders).2) (hm : 0 < m) :
    ∃ n, tangentCurveN ders m = some ((tangentCurve ders).1, n) ∧ Lin.normSq n = 1 ∧
      n.length = (tangentCurve ders).2.length ∧ ∀ j, m * n.getD j 0 = (tangentCurve ders).2.getD j 0 := by
  obtain ⟨n, h, hu, hl, _, hj⟩ := Lin.vectorNormalize_spec _ m hmm hm
  refine ⟨n, ?_, hu, hl, ?_⟩
  · unfold tangentCurveN; rw [h]; rfl
  · intro j; rw [hj j]; field_simp

/-- … refused exactly when the first derivative vanishes (exact non-negative root) -/
theorem tangentCurveN_none_iff (ders : List (List K)) (m : K)
    (hmm : m * m = Lin.normSq (tangentCurve ders).2) (hm : 0 ≤ m) :
    tangentCurveN ders m = none ↔ ∀ x ∈ (tangentCurve ders).2, x = 0 := by
  rw [← Lin.vectorNormalize_none_iff _ m hmm hm]
  unfold tangentCurveN
  cases Lin.vectorNormalize (tangentCurve ders).2 m <;> simp

/-- `tangent(surface, (u, v), normalize=True)` on any derivative table -/
theorem tangentSurfaceN_spec (skl : List (List (List K))) (mu mv : K)
    (hmu : mu * mu = Lin.normSq (tangentSurface skl).2.1) (hmv : mv * mv = Lin.normSq (tangentSurface skl).2.2)
    (hu : 0 < mu) (hv : 0 < mv) :
    ∃ nu nv, tangentSurfaceN skl mu mv = some ((tangentSurface skl).1, nu, nv) ∧
      Lin.normSq nu = 1 ∧ Lin.normSq nv = 1 ∧
      nu.length = (tangentSurface skl).2.1.length ∧ nv.length = (tangentSurface skl).2.2.length ∧
      (∀ j, mu * nu.getD j 0 = (tangentSurface skl).2.1.getD j 0) ∧
      (∀ j, mv * nv.getD j 0 = (tangentSurface skl).2.2.getD j 0) := by
  obtain ⟨nu, h1, hu1, hl1, _, hj1⟩ := Lin.vectorNormalize_spec _ mu hmu hu
  obtain ⟨nv, h2, hu2, hl2, _, hj2⟩ := Lin.vectorNormalize_spec _ mv hmv hv
  refine ⟨nu, nv, ?_, hu1, hu2, hl1, hl2, ?_, ?_⟩
  · unfold tangentSurfaceN; rw [h1, h2]; rfl
  · intro j; rw [hj1 j]; field_simp
  · intro j; rw [hj2 j]; field_simp

/-- … refused exactly when one of the two first partial derivative vectors vanishes -/
theorem tangentSurfaceN_none_iff (skl : List (List (List K))) (mu mv : K)
    (hmu : mu * mu = Lin.normSq (tangentSurface skl).2.1) (hmv : mv * mv = Lin.normSq (tangentSurface skl).2.2)
    (hu : 0 ≤ mu) (hv : 0 ≤ mv) :
    tangentSurfaceN skl mu mv = none ↔
      (∀ x ∈ (tangentSurface skl).2.1, x = 0) ∨ (∀ x ∈ (tangentSurface skl).2.2, x = 0) := by
  rw [← Lin.vectorNormalize_none_iff _ mu hmu hu, ← Lin.vectorNormalize_none_iff _ mv hmv hv]
  unfold tangentSurfaceN
  cases Lin.vectorNormalize (tangentSurface skl).2.1 mu <;> cases Lin.vectorNormalize (tangentSurface skl).2.2 mv <;> simp

/-- `normal(surface, (u, v), normalize=True)` on any derivative table whose un-normalised normal exists -/
theorem normalSurfaceN_spec (skl : List (List (List K))) (pt nrm : List K) (m : K)
    (h : normalSurface skl = some (pt, nrm)) (hmm : m * m = Lin.normSq nrm) (hm : 0 < m) :
    ∃ n, normalSurfaceN skl m = some (pt, n) ∧ Lin.normSq n = 1 ∧ n.length = nrm.length ∧
      ∀ j, m * n.getD j 0 = nrm.getD j 0 := by
  obtain ⟨n, h1, hu, hl, _, hj⟩ := Lin.vectorNormalize_spec nrm m hmm hm
  refine ⟨n, ?_, hu, hl, ?_⟩
  · unfold normalSurfaceN; rw [h]; simp only []; rw [h1]; rfl
  · intro j; rw [hj j]; field_simp

/-- … refused exactly when the cross product vanishes (or does not exist) -/
theorem normalSurfaceN_none_iff (skl : List (List (List K))) (pt nrm : List K) (m : K)
    (h : normalSurface skl = some (pt, nrm)) (hmm : m * m = Lin.normSq nrm) (hm : 0 ≤ m) :
    normalSurfaceN skl m = none ↔ ∀ x ∈ nrm, x = 0 := by
  rw [← Lin.vectorNormalize_none_iff nrm m hmm hm]
  unfold normalSurfaceN
  rw [h]
  simp only []
  cases Lin.vectorNormalize nrm m <;> simp

theorem normalSurfaceN_of_none (skl : List (List (List K))) (m : K) (h : normalSurface skl = none) :
    normalSurfaceN skl m = none := by
  unfold normalSurfaceN; rw [h]

/-! ### end to end for rational shapes -/

/-- `tangent(curve, u, normalize=True)` of a RATIONAL curve as the op `tancn 1 …` runs it, exact positive root `m`:
    the point `C = A/w`, a vector `n` of squared length 1, and `m·n` solves the Leibniz equation of the first derivative
    (`w·(m·n) + w'·C = A'`): `n` is the derivative of the quotient divided by its length -/
theorem tangentCurveN_rational_domain (p d : ℕ) (Ul : List K) (Pw : List (List K))
    (hC : CurveWF p (d+1) Ul Pw) (hwt : ∀ i, i < Pw.length → 0 < (ptsGet Pw i).getD d 0) (u : K)
    (h1 : fnOf Ul p ≤ u) (h2 : u ≤ fnOf Ul Pw.length) (j : ℕ) (hj : j < d)
    (κ : ℕ) (hκ : κ = findSpanLinear p (fnOf Ul) Pw.length u) (w A : K[X])
    (hw : w = spanPoly p (fnOf Ul) Pw κ d) (hA : A = spanPoly p (fnOf Ul) Pw κ j)
    (m : K) (hmm : m * m = Lin.normSq (tangentCurve (ratCurveDers (curveDersA32 p (fnOf Ul) Pw κ u 1))).2)
    (hm : 0 < m) :
    ∃ pt n, tangentCurveN (ratCurveDers (curveDersA32 p (fnOf Ul) Pw κ u 1)) m = some (pt, n) ∧
      Lin.normSq n = 1 ∧ 0 < eval u w ∧ eval u w * pt.getD j 0 = eval u A ∧
      eval u w * (m * n.getD j 0) + eval u (derivative w) * pt.getD j 0 = eval u (derivative A) := by
  subst hκ hw hA
  obtain ⟨n, h, hu, _, hn⟩ := tangentCurveN_spec _ m hmm hm
  obtain ⟨hpos, k0, k1⟩ := tangentCurve_rational_domain p d Ul Pw hC hwt u h1 h2 j hj
  exact ⟨_, n, h, hu, hpos, k0, by rw [hn j]; exact k1⟩

/-- `tangent(surface, (u, v), normalize=True)` of a RATIONAL surface as the op `tansn 1 …` runs it, exact positive roots -/
theorem tangentSurfaceN_rational_domain (pu pv : ℕ) (Uu Uv : ℕ → K) (su sv : ℕ) (Pw : List (List K)) (u v : K)
    (d c : ℕ) (hUu : KnotsOk pu Uu su) (hUv : KnotsOk pv Uv sv) (hlen : Pw.length = su * sv) (hP : NetOk (d+1) Pw)
    (hwt : ∀ i, i < Pw.length → 0 < (ptsGet Pw i).getD d 0)
    (hu1 : Uu pu ≤ u) (hu2 : u ≤ Uu su) (hv1 : Uv pv ≤ v) (hv2 : v ≤ Uv sv) (hc : c < d)
    (κu κv : ℕ) (hκu : κu = findSpanLinear pu Uu su u) (hκv : κv = findSpanLinear pv Uv sv v) (W A : K[X][Y])
    (hW : W = surfSpanPoly pu pv Uu Uv sv Pw κu κv d) (hA : A = surfSpanPoly pu pv Uu Uv sv Pw κu κv c)
    (mu mv : K)
    (hmu : mu * mu
      = Lin.normSq (tangentSurface (ratSurfaceDers (surfaceDersA36 pu pv Uu Uv sv Pw κu κv u v 1) 1)).2.1)
    (hmv : mv * mv
      = Lin.normSq (tangentSurface (ratSurfaceDers (surfaceDersA36 pu pv Uu Uv sv Pw κu κv u v 1) 1)).2.2)
    (hu : 0 < mu) (hv : 0 < mv) :
    ∃ pt nu nv, tangentSurfaceN (ratSurfaceDers (surfaceDersA36 pu pv Uu Uv sv Pw κu κv u v 1) 1) mu mv
        = some (pt, nu, nv) ∧
      Lin.normSq nu = 1 ∧ Lin.normSq nv = 1 ∧ 0 < W.evalEval u v ∧
      W.evalEval u v * pt.getD c 0 = A.evalEval u v ∧
      W.evalEval u v * (mu * nu.getD c 0) + (pderivU W).evalEval u v * pt.getD c 0 = (pderivU A).evalEval u v ∧
      W.evalEval u v * (mv * nv.getD c 0) + (pderivV W).evalEval u v * pt.getD c 0 = (pderivV A).evalEval u v := by
  obtain ⟨nu, nv, h, hnu, hnv, _, _, hju, hjv⟩ := tangentSurfaceN_spec _ mu mv hmu hmv hu hv
  obtain ⟨hpos, k00, k10, k01⟩ := tangentSurface_rational_domain pu pv Uu Uv su sv Pw u v d c hUu hUv hlen hP hwt
    hu1 hu2 hv1 hv2 hc κu κv hκu hκv W A hW hA
  exact ⟨_, nu, nv, h, hnu, hnv, hpos, k00, by rw [hju c]; exact k10, by rw [hjv c]; exact k01⟩

/-- `normal(surface, (u, v), normalize=True)` of a RATIONAL 3-D surface as the op `nrmsn 1 …` runs it: the point, and
    a vector `n` of squared length 1 with `m·n = S_u × S_v` (the two rational tangent vectors), orthogonal to both -/
theorem normalSurfaceN_rational_domain (pu pv : ℕ) (Uu Uv : ℕ → K) (su sv : ℕ) (Pw : List (List K)) (u v : K)
    (hUu : KnotsOk pu Uu su) (hUv : KnotsOk pv Uv sv) (hlen : Pw.length = su * sv) (hP : NetOk (3+1) Pw)
    (hu1 : Uu pu ≤ u) (hu2 : u ≤ Uu su) (hv1 : Uv pv ≤ v) (hv2 : v ≤ Uv sv)
    (κu κv : ℕ) (hκu : κu = findSpanLinear pu Uu su u) (hκv : κv = findSpanLinear pv Uv sv v)
    (Su Sv : ℕ → K)
    (hSu : ∀ c, Su c = (tangentSurface (ratSurfaceDers (surfaceDersA36 pu pv Uu Uv sv Pw κu κv u v 1) 1)).2.1.getD c 0)
    (hSv : ∀ c, Sv c = (tangentSurface (ratSurfaceDers (surfaceDersA36 pu pv Uu Uv sv Pw κu κv u v 1) 1)).2.2.getD c 0)
    (m : K)
    (hmm : m * m = Lin.normSq [Su 1 * Sv 2 - Su 2 * Sv 1, Su 2 * Sv 0 - Su 0 * Sv 2, Su 0 * Sv 1 - Su 1 * Sv 0]) :
    (0 < m → ∃ n, normalSurfaceN (ratSurfaceDers (surfaceDersA36 pu pv Uu Uv sv Pw κu κv u v 1) 1) m
        = some ((tangentSurface (ratSurfaceDers (surfaceDersA36 pu pv Uu Uv sv Pw κu κv u v 1) 1)).1, n) ∧
      Lin.normSq n = 1 ∧ n.length = 3 ∧
      m * n.getD 0 0 = Su 1 * Sv 2 - Su 2 * Sv 1 ∧ m * n.getD 1 0 = Su 2 * Sv 0 - Su 0 * Sv 2 ∧
      m * n.getD 2 0 = Su 0 * Sv 1 - Su 1 * Sv 0 ∧
      n.getD 0 0 * Su 0 + n.getD 1 0 * Su 1 + n.getD 2 0 * Su 2 = 0 ∧
      n.getD 0 0 * Sv 0 + n.getD 1 0 * Sv 1 + n.getD 2 0 * Sv 2 = 0) ∧
    (0 ≤ m → (normalSurfaceN (ratSurfaceDers (surfaceDersA36 pu pv Uu Uv sv Pw κu κv u v 1) 1) m = none ↔
      Su 1 * Sv 2 - Su 2 * Sv 1 = 0 ∧ Su 2 * Sv 0 - Su 0 * Sv 2 = 0 ∧ Su 0 * Sv 1 - Su 1 * Sv 0 = 0)) := by
  obtain ⟨nrm, hn, hnrm, ho1, ho2⟩ := normalSurface_rational_domain pu pv Uu Uv su sv Pw u v hUu hUv hlen hP
    hu1 hu2 hv1 hv2 κu κv hκu hκv Su Sv hSu hSv
  rw [← hnrm] at hmm
  refine ⟨fun hm => ?_, fun hm => ?_⟩
  · obtain ⟨n, h, hu, hl, hj⟩ := normalSurfaceN_spec _ _ nrm m hn hmm hm
    have hm0 : m ≠ 0 := ne_of_gt hm
    have e0 := hj 0
    have e1 := hj 1
    have e2 := hj 2
    refine ⟨n, h, hu, by rw [hl, hnrm]; rfl, ?_, ?_, ?_, ?_, ?_⟩
    · rw [e0, hnrm]; rfl
    · rw [e1, hnrm]; rfl
    · rw [e2, hnrm]; rfl
    · apply mul_left_cancel₀ hm0
      linear_combination ho1 + Su 0 * e0 + Su 1 * e1 + Su 2 * e2
    · apply mul_left_cancel₀ hm0
      linear_combination ho2 + Sv 0 * e0 + Sv 1 * e1 + Sv 2 * e2
  · rw [normalSurfaceN_none_iff _ _ nrm m hn hmm hm, hnrm]
    simp only [List.mem_cons, List.not_mem_nil, or_false, forall_eq_or_imp, forall_eq]

end Geomdl
