import NurbsVerif.Lemmas.KnotRowsIns
import NurbsVerif.Lemmas.VolLiftPoint

/-! List-of-rows branches, part 3b: the volume computed through the rows evaluates to the same points. -/
namespace Geomdl
namespace Rows
variable {K : Type} [Field K] [LinearOrder K] [IsStrictOrderedRing K]

theorem insertU_rows_preserves_volume (pu pv pw : ℕ) (Uul : List K) (Uv Uw : ℕ → K) (su sv sw : ℕ) (P : List (List K))
    (ub u v w : K) (r s d j : ℕ) (hP : NetOk d P) (hlenP : P.length = su * sv * sw)
    (hm : Monotone (fnOf Uul)) (hlen : Uul.length = su + pu + 1) (hpn : pu + 1 ≤ su)
    (hub1 : fnOf Uul pu ≤ ub) (hub2 : ub < fnOf Uul su)
    (hmult : ∀ x, findSpanLinear pu (fnOf Uul) su ub - s < x → x ≤ findSpanLinear pu (fnOf Uul) su ub → fnOf Uul x = ub)
    (hr1 : 1 ≤ r) (hrs : r + s ≤ pu)
    (hlo : fnOf Uul pu ≤ u) (hhi : u ≤ fnOf Uul su) (hlast : fnOf Uul (su - 1) < fnOf Uul su)
    (hmv : Monotone Uv) (hpnv : pv + 1 ≤ sv) (hlov : Uv pv ≤ v)
    (hmw : Monotone Uw) (hpnw : pw + 1 ≤ sw) (hlow : Uw pw ≤ w) :
    (volumePoint pu pv pw (fnOf (knotInsertionKv Uul ub (findSpanLinear pu (fnOf Uul) su ub) r)) Uv Uw (su + r) sv sw
        (mapVolRows 0 su sv sw P (fun R => knotInsertionRows pu (fnOf Uul) R ub r s (findSpanLinear pu (fnOf Uul) su ub))).1
          u v w).getD j 0
      = (volumePoint pu pv pw (fnOf Uul) Uv Uw su sv sw P u v w).getD j 0 := by
  have hspan := findSpanLinear_range pu (fnOf Uul) su ub hpn
  rw [mapVolRows_insert 0 su sv sw pu (fnOf Uul) P ub r s _ (by omega) (by omega) (by omega) (by omega)
    hspan.1 (by simpa using hspan.2) hrs]
  exact insertU_preserves_volume pu pv pw Uul Uv Uw su sv sw P ub u v w r s d j hP hlenP hm hlen hpn hub1 hub2 hmult hr1 hrs
    hlo hhi hlast hmv hpnv hlov hmw hpnw hlow

end Rows
end Geomdl
