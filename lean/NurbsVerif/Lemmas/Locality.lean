import NurbsVerif.Model.Basis
import NurbsVerif.Lemmas.Diag
import Mathlib.Algebra.Order.Field.Basic
import Mathlib.Tactic.Ring
import Mathlib.Tactic.FieldSimp

namespace Blossom
open Geomdl
variable {K : Type} [Field K]

theorem bfInner_congr (L R L' R' : ℕ → K) (j : ℕ) (N : List K) : ∀ (r : ℕ) (s : K),
    (∀ a, a < N.length → R (r + a + 1) = R' (r + a + 1) ∧ L (j - (r + a)) = L' (j - (r + a))) →
    bfInner L R j r N s = bfInner L' R' j r N s := by
  induction N with
  | nil => intros; rfl
  | cons n ns ih =>
    intro r s h
    have h0 := h 0 (by simp)
    simp only [Nat.add_zero] at h0
    simp only [bfInner]
    rw [h0.1, h0.2]
    congr 1
    apply ih
    intro a ha
    have := h (a+1) (by simp; omega)
    have e1 : r + (a + 1) + 1 = r + 1 + a + 1 := by omega
    have e2 : r + (a + 1) = r + 1 + a := by omega
    rw [e1, e2] at this
    exact this

/-- **window locality**: A2.2 on span `κ` reads the knots only at indices `κ-p+1 .. κ+p` -/
theorem basisFuns_congr (U V : ℕ → K) (κ : ℕ) (u : K) : ∀ (p : ℕ), p ≤ κ →
    (∀ i, κ + 1 ≤ i + p → i ≤ κ + p → U i = V i) →
    basisFuns p U κ u = basisFuns p V κ u := by
  intro p
  induction p with
  | zero => intros; rfl
  | succ p ih =>
    intro hp h
    rw [basisFuns_succ, basisFuns_succ, ih (by omega) (fun i h1 h2 => h i (by omega) (by omega))]
    unfold bfStep
    apply bfInner_congr
    intro a ha
    rw [basisFuns_length] at ha
    unfold left right
    constructor
    · rw [h (κ + (0 + a + 1)) (by omega) (by omega)]
    · rw [h (κ + 1 - (p + 1 - (0 + a))) (by omega) (by omega)]

/-- **affine invariance**: knots `a • U + b`, parameter `a * u + b`, same basis values (`a ≠ 0`) -/
theorem bfInner_scale (L R : ℕ → K) (a : K) (ha : a ≠ 0) (j : ℕ) (N : List K) : ∀ (r : ℕ) (s : K),
    bfInner (fun i => a * L i) (fun i => a * R i) j r N s = bfInner L R j r N s := by
  induction N with
  | nil => intros; rfl
  | cons n ns ih =>
    intro r s
    simp only [bfInner]
    have e1 : a * R (r+1) * (n / (a * R (r+1) + a * L (j - r))) = R (r+1) * (n / (R (r+1) + L (j - r))) := by
      by_cases hd : R (r+1) + L (j - r) = 0
      · have : a * R (r+1) + a * L (j - r) = 0 := by rw [← mul_add, hd, mul_zero]
        rw [hd, this]; simp
      · have : a * R (r+1) + a * L (j - r) ≠ 0 := by rw [← mul_add]; exact mul_ne_zero ha hd
        field_simp
    have e2 : a * L (j - r) * (n / (a * R (r+1) + a * L (j - r))) = L (j - r) * (n / (R (r+1) + L (j - r))) := by
      by_cases hd : R (r+1) + L (j - r) = 0
      · have : a * R (r+1) + a * L (j - r) = 0 := by rw [← mul_add, hd, mul_zero]
        rw [hd, this]; simp
      · have : a * R (r+1) + a * L (j - r) ≠ 0 := by rw [← mul_add]; exact mul_ne_zero ha hd
        field_simp
    rw [e1, e2, ih]

theorem basisFuns_affine (U : ℕ → K) (κ : ℕ) (u a b : K) (ha : a ≠ 0) : ∀ (p : ℕ),
    basisFuns p (fun i => a * U i + b) κ (a * u + b) = basisFuns p U κ u := by
  intro p
  induction p with
  | zero => rfl
  | succ p ih =>
    rw [basisFuns_succ, basisFuns_succ, ih]
    unfold bfStep
    have hl : left (fun i => a * U i + b) κ (a * u + b) = fun i => a * left U κ u i := by
      funext i; unfold left; ring
    have hr : right (fun i => a * U i + b) κ (a * u + b) = fun i => a * right U κ u i := by
      funext i; unfold right; ring
    rw [hl, hr, bfInner_scale _ _ a ha]
end Blossom
