import NurbsVerif.Lemmas.KnotRangeFold

/-!
  C17, knot range: the folds over the directions – `insertKnot`, `removeKnot`, `refineKnotvector` on a shape whose
  knot vectors are ALL mapped affinely (`Shape.affineKvs`), any subset of directions requested.

  `dirStep op` is the common shape of the three loop bodies (`op T d = none`: direction `d` is not requested,
  `some none`: the operation raises, `some (some T')`: the new object state); each model function is shown to BE
  such a fold (`insertKnot_eq_dirFold` … by `rfl` after a case split of the body), so the theorems are about the
  model functions themselves.
-/
set_option linter.unusedSectionVars false

namespace Geomdl
open Blossom
variable {K : Type} [Field K] [LinearOrder K] [IsStrictOrderedRing K]

/-- the common loop body of `insert_knot` / `remove_knot` / `refine_knotvector` -/
def dirStep (op : Shape K → ℕ → Option (Option (Shape K))) (acc : Shape K × Bool) (d : ℕ) : Shape K × Bool :=
  if acc.2 = false then acc else
    match op acc.1 d with
    | none => acc
    | some (some S') => (S', true)
    | some none => (acc.1, false)

/-- **the fold commutes with a shape map `M`** when every single step does (`hop`, under an invariant `Inv d` of
    the current shape that a step along another direction preserves, `hpres`) -/
theorem dirFold_map (M : Shape K → Shape K) (op op' : Shape K → ℕ → Option (Option (Shape K)))
    (Inv : ℕ → Shape K → Prop)
    (hop : ∀ T d, Inv d T → op' (M T) d = (op T d).map (Option.map M))
    (hpres : ∀ T T' d d', op T d = some (some T') → d' ≠ d → Inv d' T → Inv d' T') :
    ∀ (l : List ℕ), l.Nodup → ∀ (T : Shape K) (flag : Bool), (∀ d ∈ l, Inv d T) →
      l.foldl (dirStep op') (M T, flag)
        = (M (l.foldl (dirStep op) (T, flag)).1, (l.foldl (dirStep op) (T, flag)).2)
  | [], _, _, _, _ => rfl
  | d :: l, hnd, T, flag, hInv => by
    have hnd' : l.Nodup := (List.nodup_cons.mp hnd).2
    have hdl : d ∉ l := (List.nodup_cons.mp hnd).1
    have hInv' : ∀ d' ∈ l, Inv d' T := fun d' h => hInv d' (List.mem_cons_of_mem _ h)
    simp only [List.foldl_cons]
    cases flag with
    | false =>
      have e1 : dirStep op' (M T, false) d = (M T, false) := by simp [dirStep]
      have e2 : dirStep op (T, false) d = (T, false) := by simp [dirStep]
      rw [e1, e2]
      exact dirFold_map M op op' Inv hop hpres l hnd' T false hInv'
    | true =>
      have hstep := hop T d (hInv d List.mem_cons_self)
      cases h : op T d with
      | none =>
        have e1 : dirStep op' (M T, true) d = (M T, true) := by simp [dirStep, hstep, h]
        have e2 : dirStep op (T, true) d = (T, true) := by simp [dirStep, h]
        rw [e1, e2]
        exact dirFold_map M op op' Inv hop hpres l hnd' T true hInv'
      | some o =>
        cases o with
        | none =>
          have e1 : dirStep op' (M T, true) d = (M T, false) := by simp [dirStep, hstep, h]
          have e2 : dirStep op (T, true) d = (T, false) := by simp [dirStep, h]
          rw [e1, e2]
          exact dirFold_map M op op' Inv hop hpres l hnd' T false hInv'
        | some T' =>
          have e1 : dirStep op' (M T, true) d = (M T', true) := by simp [dirStep, hstep, h]
          have e2 : dirStep op (T, true) d = (T', true) := by simp [dirStep, h]
          rw [e1, e2]
          refine dirFold_map M op op' Inv hop hpres l hnd' T' true ?_
          intro d' hd'
          exact hpres T T' d d' h (fun e => hdl (e ▸ hd')) (hInv' d' hd')

/-- the parameters of a call, each mapped with the map of its direction -/
def affineParams (a b : ℕ → K) (params : List (Option K)) : List (Option K) :=
  params.mapIdx (fun d o => o.map (fun u => a d * u + b d))

theorem affineParams_getD (a b : ℕ → K) (params : List (Option K)) (d : ℕ) :
    (affineParams a b params).getD d none = (params.getD d none).map (fun u => a d * u + b d) := by
  unfold affineParams
  simp only [List.getD_eq_getElem?_getD, List.getElem?_mapIdx]
  cases params[d]? <;> rfl

/-! ### `insert_knot` -/

def insOp (params : List (Option K)) (nums : List ℕ) (tol : K) (check : Bool) (T : Shape K) (d : ℕ) :
    Option (Option (Shape K)) :=
  match params.getD d none with
  | none => none
  | some u => if nums.getD d 0 = 0 then none else some (insertKnotDir T d u (nums.getD d 0) tol check)

theorem insertKnot_eq_dirFold (S : Shape K) (params : List (Option K)) (nums : List ℕ) (tol : K) (check : Bool) :
    insertKnot S params nums tol check
      = (List.range S.pdim).foldl (dirStep (insOp params nums tol check)) (S, true) := by
  unfold insertKnot
  congr 1
  funext acc d
  unfold dirStep insOp
  by_cases hf : acc.2 = false
  · simp only [hf, if_true]
  · simp only [hf]
    cases params.getD d none with
    | none => rfl
    | some u =>
      simp only []
      by_cases hn : nums.getD d 0 = 0
      · simp only [hn, if_true]
      · simp only [hn, if_false]
        cases insertKnotDir acc.1 d u (nums.getD d 0) tol check <;> rfl

/-- **`operations.insert_knot`, all directions, any subset requested** (general form: the multiplicity search of
    every requested direction answers the same on both knot ranges – `hreq`) -/
theorem insertKnot_affineKvs_gen (S : Shape K) (a b : ℕ → K) (params : List (Option K)) (nums : List ℕ)
    (tol tol' : K) (check : Bool)
    (hreq : ∀ d, d < S.pdim → ∀ u, params.getD d none = some u → nums.getD d 0 ≠ 0 →
      0 < a d ∧ S.kv d ≠ [] ∧
      findMultiplicity (a d * u + b d) ((S.kv d).map (fun x => a d * x + b d)) tol' = findMultiplicity u (S.kv d) tol) :
    insertKnot (S.affineKvs a b) (affineParams a b params) nums tol' check
      = ((insertKnot S params nums tol check).1.affineKvs a b, (insertKnot S params nums tol check).2) := by
  rw [insertKnot_eq_dirFold, insertKnot_eq_dirFold]
  have hpd : (S.affineKvs a b).pdim = S.pdim := rfl
  rw [hpd]
  refine dirFold_map (fun T => T.affineKvs a b) _ _ (fun d T => d < S.pdim ∧ T.kv d = S.kv d) ?_ ?_
    (List.range S.pdim) List.nodup_range S true (fun d hd => ⟨List.mem_range.mp hd, rfl⟩)
  · intro T d ⟨hd, hkv⟩
    unfold insOp
    rw [affineParams_getD]
    cases hp : params.getD d none with
    | none => rfl
    | some u =>
      simp only [Option.map_some]
      by_cases hn : nums.getD d 0 = 0
      · simp only [hn, if_true, Option.map_none]
      · simp only [hn, if_false, Option.map_some]
        obtain ⟨ha, hne, hm⟩ := hreq d hd u hp hn
        rw [← hkv] at hne hm
        rw [insertKnotDir_affineKvs_gen T a b d u _ tol tol' check ha hne hm]
  · intro T T' d d' h hdd ⟨hd', hkv⟩
    refine ⟨hd', ?_⟩
    unfold insOp at h
    cases hp : params.getD d none with
    | none => rw [hp] at h; cases h
    | some u =>
      rw [hp] at h
      simp only [] at h
      split at h
      · cases h
      · injection h with h
        rw [(insertKnotDir_kv_other T T' d u _ tol check h).2 d' hdd, hkv]

/-- tolerance scaled with the range of every requested direction (`tol' = a d · tol` for each: a common factor, or
    `tol = 0`) -/
theorem insertKnot_affineKvs (S : Shape K) (a b : ℕ → K) (params : List (Option K)) (nums : List ℕ)
    (tol tol' : K) (check : Bool)
    (hreq : ∀ d, d < S.pdim → ∀ u, params.getD d none = some u → nums.getD d 0 ≠ 0 →
      0 < a d ∧ S.kv d ≠ [] ∧ tol' = a d * tol) :
    insertKnot (S.affineKvs a b) (affineParams a b params) nums tol' check
      = ((insertKnot S params nums tol check).1.affineKvs a b, (insertKnot S params nums tol check).2) :=
  insertKnot_affineKvs_gen S a b params nums tol tol' check (fun d hd u hu hn => by
    obtain ⟨ha, hne, ht⟩ := hreq d hd u hu hn
    exact ⟨ha, hne, by rw [ht]; exact findMultiplicity_affine u (S.kv d) tol (a d) (b d) ha⟩)

/-- the same tolerance on all ranges, every requested parameter separated from the knots of its direction (or equal
    to them) in both ranges -/
theorem insertKnot_affineKvs_fixed_tol (S : Shape K) (a b : ℕ → K) (params : List (Option K)) (nums : List ℕ)
    (tol : K) (check : Bool) (htol : 0 ≤ tol)
    (hreq : ∀ d, d < S.pdim → ∀ u, params.getD d none = some u → nums.getD d 0 ≠ 0 →
      0 < a d ∧ S.kv d ≠ [] ∧ ∀ y ∈ S.kv d, u = y ∨ (tol < |u - y| ∧ tol < a d * |u - y|)) :
    insertKnot (S.affineKvs a b) (affineParams a b params) nums tol check
      = ((insertKnot S params nums tol check).1.affineKvs a b, (insertKnot S params nums tol check).2) :=
  insertKnot_affineKvs_gen S a b params nums tol tol check (fun d hd u hu hn => by
    obtain ⟨ha, hne, hs⟩ := hreq d hd u hu hn
    exact ⟨ha, hne, findMultiplicity_affine_sep u (S.kv d) tol (a d) (b d) ha htol hs⟩)

/-! ### `remove_knot` -/

def remOp (params : List (Option K)) (nums : List ℕ) (tol tol2 : K) (check : Bool) (T : Shape K) (d : ℕ) :
    Option (Option (Shape K)) :=
  match params.getD d none with
  | none => none
  | some u => if nums.getD d 0 = 0 then none else some (removeKnotDir T d u (nums.getD d 0) tol tol2 check)

theorem removeKnot_eq_dirFold (S : Shape K) (params : List (Option K)) (nums : List ℕ) (tol tol2 : K) (check : Bool) :
    removeKnot S params nums tol tol2 check
      = (List.range S.pdim).foldl (dirStep (remOp params nums tol tol2 check)) (S, true) := by
  unfold removeKnot
  congr 1
  funext acc d
  unfold dirStep remOp
  by_cases hf : acc.2 = false
  · simp only [hf, if_true]
  · simp only [hf]
    cases params.getD d none with
    | none => rfl
    | some u =>
      simp only []
      by_cases hn : nums.getD d 0 = 0
      · simp only [hn, if_true]
      · simp only [hn, if_false]
        cases removeKnotDir acc.1 d u (nums.getD d 0) tol tol2 check <;> rfl

/-- **`operations.remove_knot`, all directions, any subset requested** (general form) -/
theorem removeKnot_affineKvs_gen (S : Shape K) (a b : ℕ → K) (params : List (Option K)) (nums : List ℕ)
    (tol tol' tol2 : K) (check : Bool)
    (hreq : ∀ d, d < S.pdim → ∀ u, params.getD d none = some u → nums.getD d 0 ≠ 0 →
      0 < a d ∧ S.kv d ≠ [] ∧
      findMultiplicity (a d * u + b d) ((S.kv d).map (fun x => a d * x + b d)) tol' = findMultiplicity u (S.kv d) tol) :
    removeKnot (S.affineKvs a b) (affineParams a b params) nums tol' tol2 check
      = ((removeKnot S params nums tol tol2 check).1.affineKvs a b, (removeKnot S params nums tol tol2 check).2) := by
  rw [removeKnot_eq_dirFold, removeKnot_eq_dirFold]
  have hpd : (S.affineKvs a b).pdim = S.pdim := rfl
  rw [hpd]
  refine dirFold_map (fun T => T.affineKvs a b) _ _ (fun d T => d < S.pdim ∧ T.kv d = S.kv d) ?_ ?_
    (List.range S.pdim) List.nodup_range S true (fun d hd => ⟨List.mem_range.mp hd, rfl⟩)
  · intro T d ⟨hd, hkv⟩
    unfold remOp
    rw [affineParams_getD]
    cases hp : params.getD d none with
    | none => rfl
    | some u =>
      simp only [Option.map_some]
      by_cases hn : nums.getD d 0 = 0
      · simp only [hn, if_true, Option.map_none]
      · simp only [hn, if_false, Option.map_some]
        obtain ⟨ha, hne, hm⟩ := hreq d hd u hp hn
        rw [← hkv] at hne hm
        rw [removeKnotDir_affineKvs_gen T a b d u _ tol tol' tol2 check ha hne hm]
  · intro T T' d d' h hdd ⟨hd', hkv⟩
    refine ⟨hd', ?_⟩
    unfold remOp at h
    cases hp : params.getD d none with
    | none => rw [hp] at h; cases h
    | some u =>
      rw [hp] at h
      simp only [] at h
      split at h
      · cases h
      · injection h with h
        rw [(removeKnotDir_kv_other T T' d u _ tol tol2 check h).2 d' hdd, hkv]

theorem removeKnot_affineKvs (S : Shape K) (a b : ℕ → K) (params : List (Option K)) (nums : List ℕ)
    (tol tol' tol2 : K) (check : Bool)
    (hreq : ∀ d, d < S.pdim → ∀ u, params.getD d none = some u → nums.getD d 0 ≠ 0 →
      0 < a d ∧ S.kv d ≠ [] ∧ tol' = a d * tol) :
    removeKnot (S.affineKvs a b) (affineParams a b params) nums tol' tol2 check
      = ((removeKnot S params nums tol tol2 check).1.affineKvs a b, (removeKnot S params nums tol tol2 check).2) :=
  removeKnot_affineKvs_gen S a b params nums tol tol' tol2 check (fun d hd u hu hn => by
    obtain ⟨ha, hne, ht⟩ := hreq d hd u hu hn
    exact ⟨ha, hne, by rw [ht]; exact findMultiplicity_affine u (S.kv d) tol (a d) (b d) ha⟩)

theorem removeKnot_affineKvs_fixed_tol (S : Shape K) (a b : ℕ → K) (params : List (Option K)) (nums : List ℕ)
    (tol tol2 : K) (check : Bool) (htol : 0 ≤ tol)
    (hreq : ∀ d, d < S.pdim → ∀ u, params.getD d none = some u → nums.getD d 0 ≠ 0 →
      0 < a d ∧ S.kv d ≠ [] ∧ ∀ y ∈ S.kv d, u = y ∨ (tol < |u - y| ∧ tol < a d * |u - y|)) :
    removeKnot (S.affineKvs a b) (affineParams a b params) nums tol tol2 check
      = ((removeKnot S params nums tol tol2 check).1.affineKvs a b, (removeKnot S params nums tol tol2 check).2) :=
  removeKnot_affineKvs_gen S a b params nums tol tol tol2 check (fun d hd u hu hn => by
    obtain ⟨ha, hne, hs⟩ := hreq d hd u hu hn
    exact ⟨ha, hne, findMultiplicity_affine_sep u (S.kv d) tol (a d) (b d) ha htol hs⟩)

/-! ### `refine_knotvector` -/

def refOp (dens : List ℕ) (tol : K) (T : Shape K) (d : ℕ) : Option (Option (Shape K)) :=
  if dens.getD d 0 = 0 then none else some (refineDir T d (dens.getD d 0) tol)

theorem refineKnotvector_eq_dirFold (S : Shape K) (dens : List ℕ) (tol : K) :
    refineKnotvector S dens tol = (List.range S.pdim).foldl (dirStep (refOp dens tol)) (S, true) := by
  unfold refineKnotvector
  congr 1
  funext acc d
  unfold dirStep refOp
  by_cases hf : acc.2 = false
  · simp only [hf, if_true]
  · simp only [hf]
    by_cases hn : dens.getD d 0 = 0
    · simp only [hn, if_true]
    · simp only [hn, if_false]
      cases refineDir acc.1 d (dens.getD d 0) tol <;> rfl

/-- **`operations.refine_knotvector`, all directions, any subset requested**: the tolerance of the multiplicity
    search is scaled with the range of every requested direction (`tol' = a d · tol` for each of them: one common
    factor, or `tol = 0`) -/
theorem refineKnotvector_affineKvs (S : Shape K) (a b : ℕ → K) (dens : List ℕ) (tol tol' : K)
    (hreq : ∀ d, d < S.pdim → dens.getD d 0 ≠ 0 → 0 < a d ∧ S.kv d ≠ [] ∧ tol' = a d * tol) :
    refineKnotvector (S.affineKvs a b) dens tol'
      = ((refineKnotvector S dens tol).1.affineKvs a b, (refineKnotvector S dens tol).2) := by
  rw [refineKnotvector_eq_dirFold, refineKnotvector_eq_dirFold]
  have hpd : (S.affineKvs a b).pdim = S.pdim := rfl
  rw [hpd]
  refine dirFold_map (fun T => T.affineKvs a b) _ _ (fun d T => d < S.pdim ∧ T.kv d = S.kv d) ?_ ?_
    (List.range S.pdim) List.nodup_range S true (fun d hd => ⟨List.mem_range.mp hd, rfl⟩)
  · intro T d ⟨hd, hkv⟩
    unfold refOp
    by_cases hn : dens.getD d 0 = 0
    · simp only [hn, if_true, Option.map_none]
    · simp only [hn, if_false, Option.map_some]
      obtain ⟨ha, hne, ht⟩ := hreq d hd hn
      rw [← hkv] at hne
      rw [ht, refineDir_affineKvs T a b d _ tol ha hne]
  · intro T T' d d' h hdd ⟨hd', hkv⟩
    refine ⟨hd', ?_⟩
    unfold refOp at h
    split at h
    · cases h
    · injection h with h
      rw [(refineDir_kv_other T T' d _ tol h).2 d' hdd, hkv]

end Geomdl
