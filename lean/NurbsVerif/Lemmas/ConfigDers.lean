import NurbsVerif.Lemmas.Config
import NurbsVerif.Lemmas.DerivAll
import NurbsVerif.Lemmas.Weights

/-!
  C17, derivatives under an affine change of the knot range (curves, basis tables).

  With knots `a•U + b` and parameter `a·u + b` (`a ≠ 0`; `a > 0` where the span search is involved) the
  basis functions are unchanged and the A3.3 derivative control points of level `k` pick up the factor
  `a⁻ᵏ` (every knot difference is multiplied by `a`), so entry `k` of every derivative list is the
  entry for `U` at `u` times `a⁻ᵏ` – the chain rule for `u ↦ a·u + b`.  No hypothesis on the knots,
  the span index or the control net is needed: the statements are identities of the model functions.
-/
set_option linter.unusedSectionVars false

namespace Geomdl
open Blossom
variable {K : Type} [Field K] [LinearOrder K] [IsStrictOrderedRing K]

/-- the list `[C⁽⁰⁾, C⁽¹⁾, C⁽²⁾, …]` with entry `k` multiplied (coordinatewise) by `cᵏ` -/
def scaleJet (c : K) (L : List (List K)) : List (List K) := L.mapIdx (fun k v => vsmul (c ^ k) v)

theorem cfg_mapIdx_range {α β : Type} (n : ℕ) (F : ℕ → α) (g : ℕ → α → β) :
    ((List.range n).map F).mapIdx g = (List.range n).map (fun k => g k (F k)) := by
  apply List.ext_getElem?
  intro k
  rw [List.getElem?_mapIdx, List.getElem?_map, List.getElem?_map]
  rcases Nat.lt_or_ge k n with h | h
  · rw [List.getElem?_range h]; rfl
  · rw [List.getElem?_eq_none_iff.mpr (by simpa using h)]; rfl

theorem scaleJet_length (c : K) (L : List (List K)) : (scaleJet c L).length = L.length := by
  simp [scaleJet]

theorem scaleJet_getD (c : K) (L : List (List K)) (k : ℕ) :
    (scaleJet c L).getD k [] = vsmul (c ^ k) (L.getD k []) := by
  unfold scaleJet
  rw [List.getD_eq_getElem?_getD, List.getD_eq_getElem?_getD, List.getElem?_mapIdx]
  cases L[k]? <;> simp [vsmul]

/-- entry `k`, coordinate `j` of a scaled jet -/
theorem scaleJet_entry (c : K) (L : List (List K)) (k j : ℕ) :
    ((scaleJet c L).getD k []).getD j 0 = c ^ k * (L.getD k []).getD j 0 := by
  rw [scaleJet_getD, vsmul_getD]

theorem cfg_vsmul_one (v : List K) : vsmul (1 : K) v = v := by
  unfold vsmul; simp

theorem cfg_vsmul_vsmul (c e : K) (v : List K) : vsmul c (vsmul e v) = vsmul (c * e) v := by
  unfold vsmul; simp only [List.map_map]; apply List.map_congr_left; intro x _; simp only [Function.comp]; ring

/-- one level of A3.3 under the affine map: the input scaled by `s` gives the output scaled by `s·a⁻¹` -/
theorem dcStep_affine (p : ℕ) (U : ℕ → K) (a b s : K) (r1 k : ℕ) : ∀ (l : List (List K)) (i : ℕ),
    dcStep p (fun i => a * U i + b) r1 k i (l.map (vsmul s)) = (dcStep p U r1 k i l).map (vsmul (s * a⁻¹))
  | [], i => by simp [dcStep]
  | [x], i => by simp [dcStep]
  | x :: y :: rest, i => by
      have ih := dcStep_affine p U a b s r1 k (y :: rest) (i+1)
      simp only [List.map_cons, dcStep] at ih ⊢
      rw [ih]
      congr 1
      unfold vsmul
      rw [List.zipWith_map, List.map_zipWith]
      congr 1
      funext e1 e2
      have hd : a * U (r1 + i + p + 1) + b - (a * U (r1 + i + k) + b) = a * (U (r1 + i + p + 1) - U (r1 + i + k)) := by
        ring
      rw [hd, div_eq_mul_inv, div_eq_mul_inv, mul_inv]
      ring

/-- level `k` of the A3.3 table under the affine map: scaled by `a⁻ᵏ` -/
theorem pkLevel_affine (p : ℕ) (U : ℕ → K) (P : List (List K)) (r1 r2 : ℕ) (a b : K) : ∀ k,
    pkLevel p (fun i => a * U i + b) P r1 r2 k = (pkLevel p U P r1 r2 k).map (vsmul (a⁻¹ ^ k))
  | 0 => by
      simp only [pkLevel, pow_zero]
      rw [List.map_congr_left (g := id) (fun x _ => cfg_vsmul_one x), List.map_id]
  | k+1 => by
      rw [pkLevel, pkLevel_affine p U P r1 r2 a b k, dcStep_affine, pkLevel, pow_succ]

/-- `helpers.curve_deriv_cpts` with knots `a•U + b`: level `k` is the level for `U` times `a⁻ᵏ` -/
theorem curveDerivCpts_affine (p : ℕ) (U : ℕ → K) (P : List (List K)) (r1 r2 d : ℕ) (a b : K) (k : ℕ) :
    (curveDerivCpts p (fun i => a * U i + b) P r1 r2 d).getD k []
      = ((curveDerivCpts p U P r1 r2 d).getD k []).map (vsmul (a⁻¹ ^ k)) := by
  rw [curveDerivCpts_eq, curveDerivCpts_eq]
  simp only [List.getD_eq_getElem?_getD, List.getElem?_map]
  by_cases hk : k < d + 1
  · simp [List.getElem?_range hk, pkLevel_affine]
  · simp [List.getElem?_eq_none_iff.mpr (by simpa using hk : (List.range (d+1)).length ≤ k)]

/-- **A3.4 on a given span**: with knots `a•U + b` at `a·u + b`, entry `k` is `a⁻ᵏ` times the entry for `U` at `u` -/
theorem curveDersAt_affine (p : ℕ) (U : ℕ → K) (P : List (List K)) (span : ℕ) (u : K) (order : ℕ) (a b : K)
    (ha : a ≠ 0) :
    curveDersAt p (fun i => a * U i + b) P span (a * u + b) order
      = scaleJet a⁻¹ (curveDersAt p U P span u order) := by
  apply List.ext_getElem?
  intro k
  unfold scaleJet
  rw [List.getElem?_mapIdx]
  unfold curveDersAt
  simp only [List.getElem?_map]
  cases hk : (List.range (order + 1))[k]? with
  | none => simp
  | some k' =>
    have : k' = k := by
      have := List.getElem?_range (n := order + 1) (i := k)
      rcases Nat.lt_or_ge k (order + 1) with h | h
      · rw [List.getElem?_range h] at hk; simpa using hk.symm
      · rw [List.getElem?_eq_none_iff.mpr (by simpa using h)] at hk; cases hk
    subst this
    simp only [Option.map_some]
    congr 1
    by_cases hkd : k' ≤ min p order
    · rw [if_pos hkd, if_pos hkd, curveDerivCpts_affine, basisFuns_affine U span u a b ha, linComb_smul]
    · rw [if_neg hkd, if_neg hkd, vsmul_vzero]

/-- **`Curve.derivatives`** (span search + A3.4) under an increasing affine map of the knots and the parameter -/
theorem curveDers_affine (p : ℕ) (U : ℕ → K) (P : List (List K)) (u : K) (order : ℕ) (a b : K) (ha : 0 < a) :
    curveDers p (fun i => a * U i + b) P (a * u + b) order = scaleJet a⁻¹ (curveDers p U P u order) := by
  unfold curveDers
  rw [findSpanLinear_affine p U P.length u a b ha, curveDersAt_affine _ _ _ _ _ _ _ _ (ne_of_gt ha)]

/-! ### the table of basis function derivatives -/

theorem cfg_scaleJet_head (c : K) (L : List (List K)) (k : ℕ) :
    ((scaleJet c L).map (fun v => v.headD 0)).getD k 0 = c ^ k * (L.map (fun v => v.headD 0)).getD k 0 := by
  unfold scaleJet
  simp only [List.getD_eq_getElem?_getD, List.getElem?_map, List.getElem?_mapIdx]
  cases L[k]? with
  | none => simp
  | some v => cases v <;> simp [vsmul]

/-- **`basis_function_ders` (specification table)**: row `k` with knots `a•U + b` at `a·u + b` is `a⁻ᵏ` times
    row `k` for `U` at `u` -/
theorem basisDers_affine (p : ℕ) (U : ℕ → K) (span : ℕ) (u : K) (d : ℕ) (a b : K) (ha : a ≠ 0) :
    basisDers p (fun i => a * U i + b) span (a * u + b) d = scaleJet a⁻¹ (basisDers p U span u d) := by
  apply List.ext_getElem?
  intro k
  unfold scaleJet
  rw [List.getElem?_mapIdx]
  unfold basisDers
  simp only [List.getElem?_map]
  cases hk : (List.range (d + 1))[k]? with
  | none => simp
  | some k' =>
    have : k' = k := by
      rcases Nat.lt_or_ge k (d + 1) with h | h
      · rw [List.getElem?_range h] at hk; simpa using hk.symm
      · rw [List.getElem?_eq_none_iff.mpr (by simpa using h)] at hk; cases hk
    subst this
    simp only [Option.map_some, List.map_map]
    congr 1
    unfold vsmul
    rw [List.map_map]
    apply List.map_congr_left
    intro r _
    simp only [Function.comp]
    rw [curveDersAt_affine _ _ _ _ _ _ _ _ ha, cfg_scaleJet_head]

/-! ### surfaces -/

/-- the table `SKL` with entry `[k][l]` multiplied (coordinatewise) by `cuᵏ·cvˡ` -/
def scaleJet2 (cu cv : K) (T : List (List (List K))) : List (List (List K)) :=
  T.mapIdx (fun k row => row.mapIdx (fun l v => vsmul (cu ^ k * cv ^ l) v))

theorem scaleJet2_getD (cu cv : K) (T : List (List (List K))) (k l : ℕ) :
    ((scaleJet2 cu cv T).getD k []).getD l [] = vsmul (cu ^ k * cv ^ l) ((T.getD k []).getD l []) := by
  unfold scaleJet2
  simp only [List.getD_eq_getElem?_getD, List.getElem?_mapIdx]
  cases T[k]? with
  | none => simp [vsmul]
  | some row =>
    simp only [Option.map_some, Option.getD_some, List.getElem?_mapIdx]
    cases row[l]? <;> simp [vsmul]

/-- entry `[k][l]`, coordinate `j` of a scaled table -/
theorem scaleJet2_entry (cu cv : K) (T : List (List (List K))) (k l j : ℕ) :
    (((scaleJet2 cu cv T).getD k []).getD l []).getD j 0 = cu ^ k * cv ^ l * ((T.getD k []).getD l []).getD j 0 := by
  rw [scaleJet2_getD, vsmul_getD]

theorem cfg_linComb_fold_coef (c : K) : ∀ (l : List (K × List K)) (acc : List K),
    (l.map (fun x => (c * x.1, x.2))).foldl (fun acc x => vadd acc (vsmul x.1 x.2)) (vsmul c acc) =
    vsmul c (l.foldl (fun acc x => vadd acc (vsmul x.1 x.2)) acc)
  | [], _ => rfl
  | x :: l, acc => by
      simp only [List.map_cons, List.foldl_cons]
      rw [← cfg_vsmul_vsmul, vadd_vsmul]
      exact cfg_linComb_fold_coef c l _

/-- a linear combination with scaled coefficients is the scaled linear combination -/
theorem cfg_linComb_coef (d : ℕ) (c : K) (N : List K) (pts : List (List K)) :
    linComb d (vsmul c N) pts = vsmul c (linComb d N pts) := by
  unfold linComb
  have : List.zip (vsmul c N) pts = (List.zip N pts).map (fun x => (c * x.1, x.2)) := by
    unfold vsmul; rw [List.zip_map_left]; rfl
  rw [this, ← vsmul_vzero c d, cfg_linComb_fold_coef, vsmul_vzero]

/-- **`Surface.derivatives` on given spans** (both evaluator variants): with knots `a₁•Uu + b₁`, `a₂•Uv + b₂` at
    `(a₁·u + b₁, a₂·v + b₂)`, entry `[k][l]` is `a₁⁻ᵏ·a₂⁻ˡ` times the entry for `Uu`, `Uv` at `(u, v)` -/
theorem surfaceDersAt_affine (pu pv : ℕ) (Uu Uv : ℕ → K) (sv : ℕ) (P : List (List K)) (spanU spanV : ℕ) (u v : K)
    (order : ℕ) (tri : Bool) (a1 b1 a2 b2 : K) (h1 : a1 ≠ 0) (h2 : a2 ≠ 0) :
    surfaceDersAt pu pv (fun i => a1 * Uu i + b1) (fun i => a2 * Uv i + b2) sv P spanU spanV
        (a1 * u + b1) (a2 * v + b2) order tri
      = scaleJet2 a1⁻¹ a2⁻¹ (surfaceDersAt pu pv Uu Uv sv P spanU spanV u v order tri) := by
  unfold scaleJet2 surfaceDersAt
  simp only []
  rw [basisDers_affine _ _ _ _ _ _ _ h1, basisDers_affine _ _ _ _ _ _ _ h2, cfg_mapIdx_range]
  apply List.map_congr_left
  intro k _
  rw [cfg_mapIdx_range]
  apply List.map_congr_left
  intro l _
  split
  · rw [scaleJet_getD, scaleJet_getD, cfg_linComb_coef]
    have : (List.range (pu+1)).map (fun r => linComb (dimOf P)
          (vsmul (a2⁻¹ ^ l) ((basisDers pv Uv spanV v (min pv order)).getD l []))
          ((List.range (pv+1)).map (fun s => ptsGet P (spanV - pv + s + sv * (spanU - pu + r)))))
        = ((List.range (pu+1)).map (fun r => linComb (dimOf P)
          ((basisDers pv Uv spanV v (min pv order)).getD l [])
          ((List.range (pv+1)).map (fun s => ptsGet P (spanV - pv + s + sv * (spanU - pu + r)))))).map
            (vsmul (a2⁻¹ ^ l)) := by
      rw [List.map_map]
      apply List.map_congr_left
      intro r _
      simp only [Function.comp, cfg_linComb_coef]
    rw [this, linComb_smul, cfg_vsmul_vsmul]
  · rw [vsmul_vzero]

end Geomdl
