import NurbsVerif.Lemmas.InsertSurf
import NurbsVerif.Lemmas.Hull

/-! Lifting curve facts to surfaces through the row decomposition
    `S(u,v) = Σ_a Nu_a(u) · C_a(v)` (`C_a` = iso-curve with control polygon `rowOf … a`). -/
namespace Geomdl
open Blossom Finset
variable {K : Type} [Field K] [LinearOrder K] [IsStrictOrderedRing K]

/-- **Convex hull for surfaces, every separating direction** -/
theorem surfacePointAt_in_hull (pu pv : ℕ) (Uu Uv : ℕ → K) (su sv : ℕ) (P : List (List K)) (ku kv : ℕ) (u v : K) (d : ℕ)
    (hu : SpanOk Uu ku u) (hv : SpanOk Uv kv v)
    (hpu : pu ≤ ku) (hpv : pv ≤ kv) (hku : ku < su) (hkv : kv < sv) (hlen : P.length = su * sv) (hP : NetOk d P)
    (A : ℕ → K) (lo hi : K)
    (hlo : ∀ a b, a ≤ pu → b ≤ pv → lo ≤ ∑ l ∈ range d, A l * (ptsGet P (kv - pv + b + sv * (ku - pu + a))).getD l 0)
    (hhi : ∀ a b, a ≤ pu → b ≤ pv → ∑ l ∈ range d, A l * (ptsGet P (kv - pv + b + sv * (ku - pu + a))).getD l 0 ≤ hi) :
    lo ≤ ∑ l ∈ range d, A l * (surfacePointAt pu pv Uu Uv sv P ku kv u v).getD l 0 ∧
      ∑ l ∈ range d, A l * (surfacePointAt pu pv Uu Uv sv P ku kv u v).getD l 0 ≤ hi := by
  have hrow : ∀ a, a ≤ pu → NetOk d (rowOf sv P (ku - pu + a)) := fun a ha => rowOf_netOk su sv d P hP hlen _ (by omega)
  have hrl : ∀ a, (rowOf sv P (ku - pu + a)).length = sv := by intro a; simp [rowOf]
  have key : ∑ l ∈ range d, A l * (surfacePointAt pu pv Uu Uv sv P ku kv u v).getD l 0
      = ∑ a ∈ range (pu+1), (basisFuns pu Uu ku u).getD a 0 *
          (∑ l ∈ range d, A l * (curvePointAt pv Uv (rowOf sv P (ku - pu + a)) kv v).getD l 0) := by
    rw [linear_comb_coord (pu+1) d (fun a => (basisFuns pu Uu ku u).getD a 0)
          (fun a l => (curvePointAt pv Uv (rowOf sv P (ku - pu + a)) kv v).getD l 0)
          (fun a => ∑ l ∈ range d, A l * (curvePointAt pv Uv (rowOf sv P (ku - pu + a)) kv v).getD l 0) A (fun a _ => rfl)]
    apply Finset.sum_congr rfl
    intro l _
    rw [surfacePointAt_rows pu pv Uu Uv su sv P ku kv u v d l hpu hpv hku hkv hlen hP]
  rw [key]
  apply _root_.convex_bounds (pu+1) _ _ lo hi (basisFuns_sum_range pu hu)
    (fun a ha => basisFuns_getD_nonneg pu hu a ha)
  · intro a ha
    refine (curvePointAt_in_hull pv Uv (rowOf sv P (ku - pu + a)) kv v d hv hpv (by rw [hrl]; exact hkv) (hrow a (by omega)) A lo hi ?_ ?_).1
    · intro b hb; rw [rowOf_get sv P _ _ (by omega)]; exact hlo a b (by omega) hb
    · intro b hb; rw [rowOf_get sv P _ _ (by omega)]; exact hhi a b (by omega) hb
  · intro a ha
    refine (curvePointAt_in_hull pv Uv (rowOf sv P (ku - pu + a)) kv v d hv hpv (by rw [hrl]; exact hkv) (hrow a (by omega)) A lo hi ?_ ?_).2
    · intro b hb; rw [rowOf_get sv P _ _ (by omega)]; exact hlo a b (by omega) hb
    · intro b hb; rw [rowOf_get sv P _ _ (by omega)]; exact hhi a b (by omega) hb

/-- **Affine invariance for surfaces** (non-rational): an affine map applied to every control point
    moves every surface point by the same map -/
theorem surfacePointAt_affine (pu pv : ℕ) (Uu Uv : ℕ → K) (su sv : ℕ) (P Q : List (List K)) (ku kv : ℕ) (u v : K) (d : ℕ)
    (hu : SpanOk Uu ku u) (hv : SpanOk Uv kv v)
    (hpu : pu ≤ ku) (hpv : pv ≤ kv) (hku : ku < su) (hkv : kv < sv)
    (hlenP : P.length = su * sv) (hlenQ : Q.length = su * sv) (hP : NetOk d P) (hQ : NetOk d Q)
    (j : ℕ) (A : ℕ → K) (b : K)
    (hmap : ∀ i, i < su * sv → (ptsGet Q i).getD j 0 = ∑ l ∈ range d, A l * (ptsGet P i).getD l 0 + b) :
    (surfacePointAt pu pv Uu Uv sv Q ku kv u v).getD j 0
      = ∑ l ∈ range d, A l * (surfacePointAt pu pv Uu Uv sv P ku kv u v).getD l 0 + b := by
  have hidx : ∀ a c, a < su → c < sv → c + sv * a < su * sv := by
    intro a c ha hc
    calc c + sv * a < sv + sv * a := by omega
      _ = sv * (a + 1) := by ring
      _ ≤ sv * su := Nat.mul_le_mul_left _ (by omega)
      _ = su * sv := by ring
  rw [surfacePointAt_rows pu pv Uu Uv su sv Q ku kv u v d j hpu hpv hku hkv hlenQ hQ]
  have hrowmap : ∀ a, a ≤ pu →
      (curvePointAt pv Uv (rowOf sv Q (ku - pu + a)) kv v).getD j 0
        = ∑ l ∈ range d, A l * (curvePointAt pv Uv (rowOf sv P (ku - pu + a)) kv v).getD l 0 + b := by
    intro a ha
    apply curvePointAt_affine pv Uv (rowOf sv P (ku - pu + a)) (rowOf sv Q (ku - pu + a)) kv v d hv hpv
      (by simp [rowOf]; exact hkv) (by simp [rowOf]) (rowOf_netOk su sv d P hP hlenP _ (by omega))
      (rowOf_netOk su sv d Q hQ hlenQ _ (by omega)) j A b
    intro i hi
    have hi' : i < sv := by simpa [rowOf] using hi
    rw [rowOf_get sv Q _ i hi', rowOf_get sv P _ i hi']
    exact hmap _ (hidx _ _ (by omega) hi')
  rw [Finset.sum_congr rfl (fun a ha => by rw [hrowmap a (by rw [Finset.mem_range] at ha; omega)])]
  rw [affine_comb_coord (pu+1) d (fun a => (basisFuns pu Uu ku u).getD a 0) (basisFuns_sum_range pu hu)
        (fun a l => (curvePointAt pv Uv (rowOf sv P (ku - pu + a)) kv v).getD l 0)
        (fun a => ∑ l ∈ range d, A l * (curvePointAt pv Uv (rowOf sv P (ku - pu + a)) kv v).getD l 0 + b) A b (fun a _ => rfl)]
  congr 1
  apply Finset.sum_congr rfl
  intro l _
  rw [surfacePointAt_rows pu pv Uu Uv su sv P ku kv u v d l hpu hpv hku hkv hlenP hP]

end Geomdl
