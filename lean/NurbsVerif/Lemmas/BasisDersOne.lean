import NurbsVerif.Model.BasisDersOne
import NurbsVerif.Lemmas.BasisOne

/-!
# A2.5 (`helpers.basis_function_ders_one`) computes the derivative recurrence of the Cox–de Boor functions

`cdbD U d q a u` is Eq. 2.9 of The NURBS Book read as a definition (with `0/0 := 0`):
`N^{(d+1)}_{a,q+1} = (q+1) (N^{(d)}_{a,q} / (U_{a+q+1} − U_a) − N^{(d)}_{a+1,q} / (U_{a+q+2} − U_{a+1}))`.
The literal model of A2.5 returns `cdbD U k p span u` for `k = 0..order` (`order ≤ p`); its zero-detection
branches only skip divisions of zero numerators, and for non-decreasing knots a non-zero numerator has a
non-zero denominator.
-/
namespace Blossom
open Geomdl
variable {K : Type} [Field K] [LinearOrder K] [IsStrictOrderedRing K]

/-- Eq. 2.9 as a recursive definition: `d`-th derivative of `N_{a,q}` at `u` -/
def cdbD (U : ℕ → K) : ℕ → ℕ → ℕ → K → K
  | 0, q, a, u => cdb U q a u
  | _+1, 0, _, _ => 0
  | d+1, q+1, a, u =>
      ((q + 1 : ℕ) : K) * (cdbD U d q a u / (U (a+q+1) - U a) - cdbD U d q (a+1) u / (U (a+q+2) - U (a+1)))

/-- the row `N^{(d)}_{a,q}(u), …, N^{(d)}_{a+len-1,q}(u)` -/
def cdbDList (U : ℕ → K) (d q : ℕ) (u : K) : ℕ → ℕ → List K
  | _, 0 => []
  | a, len+1 => cdbD U d q a u :: cdbDList U d q u (a+1) len

theorem cdbDList_zero (U : ℕ → K) (q : ℕ) (u : K) : ∀ (len a : ℕ), cdbDList U 0 q u a len = cdbList U q u a len
  | 0, _ => rfl
  | len+1, a => by simp only [cdbDList, cdbList, cdbD, cdbDList_zero U q u len]

theorem cdbDList_one (U : ℕ → K) (d q : ℕ) (u : K) (a : ℕ) : cdbDList U d q u a 1 = [cdbD U d q a u] := rfl

/-- inner loop of one differencing level of A2.5 -/
theorem bdoInner_cdbD (U : ℕ → K) (span d q : ℕ) (u : K) : ∀ (len j : ℕ) (saved : K),
    saved = cdbD U d q (span + j) u / (U (span + j + q + 1) - U (span + j)) →
    bdoInner U span (q+1) j (cdbDList U d q u (span + j + 1) len) saved = cdbDList U (d+1) (q+1) u (span + j) len := by
  intro len
  induction len with
  | zero => intro j saved _; simp [cdbDList, bdoInner]
  | succ len ih =>
    intro j saved hs
    simp only [cdbDList, bdoInner]
    have e1 : span + j + (q + 1) + 1 = span + j + q + 2 := by omega
    have e2 : span + (j + 1) + 1 = span + j + 1 + 1 := by omega
    have e3 : span + (j + 1) = span + j + 1 := by omega
    have e4 : span + j + 1 + q + 1 = span + j + q + 2 := by omega
    by_cases h0 : cdbD U d q (span + j + 1) u = 0
    · rw [if_pos h0]
      have ih' := ih (j+1) 0 (by rw [e3, h0, zero_div])
      rw [e2, e3] at ih'
      rw [ih', hs]
      congr 1
      simp only [cdbD, h0, zero_div, sub_zero]
    · rw [if_neg h0]
      have ih' := ih (j+1) (cdbD U d q (span + j + 1) u / (U (span + j + (q + 1) + 1) - U (span + j + 1)))
        (by rw [e3, e1, e4])
      rw [e2, e3] at ih'
      rw [ih', hs]
      simp only [cdbD, e1]

/-- one differencing level of A2.5 -/
theorem bdoLevel_cdbD (U : ℕ → K) (span d q : ℕ) (u : K) (len : ℕ) :
    bdoLevel U span (cdbDList U d q u span (len+1)) (q+1) = cdbDList U (d+1) (q+1) u span len := by
  show bdoInner U span (q+1) 0 (cdbDList U d q u (span+1) len)
    (if cdbD U d q span u = 0 then 0 else cdbD U d q span u / (U (span + (q+1)) - U span)) = _
  have h := bdoInner_cdbD U span d q u len 0
  simp only [Nat.add_zero] at h
  apply h
  have : span + (q + 1) = span + q + 1 := by omega
  split
  · next h0 => rw [h0, zero_div]
  · rw [this]

/-- `r` further differencing levels -/
theorem bdoFold_cdbD (U : ℕ → K) (span : ℕ) (u : K) : ∀ (r d q len : ℕ),
    (List.range' (q+1) r).foldl (bdoLevel U span) (cdbDList U d q u span (len + r))
      = cdbDList U (d + r) (q + r) u span len := by
  intro r
  induction r with
  | zero => intro d q len; simp
  | succ r ih =>
    intro d q len
    have : len + (r + 1) = (len + r) + 1 := by omega
    rw [List.range'_succ, List.foldl_cons, this, bdoLevel_cdbD, ih (d+1) (q+1) len]
    have e1 : d + 1 + r = d + (r + 1) := by omega
    have e2 : q + 1 + r = q + (r + 1) := by omega
    rw [e1, e2]

/-- the table column used for the `k`-th derivative -/
theorem bdoColumn_eq (p : ℕ) (U : ℕ → K) (span : ℕ) (u : K) (k : ℕ) (hk : k ≤ p) :
    bdoColumn p U span u k = cdbList U k u span (p + 1 - k) := by
  unfold bdoColumn
  rw [bfOne_table U span p k u hk, cdbList_eq_map]

/-- `ders[k]` of A2.5 is the `k`-th derivative recurrence of `N_{span,p}` -/
theorem bdoDer_eq (p : ℕ) (U : ℕ → K) (span : ℕ) (u : K) (k : ℕ) (hk : k ≤ p) :
    bdoDer p U span u k = cdbD U k p span u := by
  unfold bdoDer
  rw [bdoColumn_eq p U span u (p - k) (by omega)]
  have e : p + 1 - (p - k) = 1 + k := by omega
  rw [e, ← cdbDList_zero, bdoFold_cdbD U span u k 0 (p - k) 1]
  have e2 : p - k + k = p := by omega
  rw [e2, Nat.zero_add, cdbDList_one]
  rfl

/-- support of the derivative recurrence (non-decreasing knots) -/
theorem cdbD_support (U : ℕ → K) (hm : Monotone U) (u : K) : ∀ (d q a : ℕ),
    cdbD U d q a u ≠ 0 → U a ≤ u ∧ u < U (a + q + 1) := by
  intro d
  induction d with
  | zero => intro q a h; exact cdb_support U hm u q a h
  | succ d ih =>
    intro q a h
    cases q with
    | zero => simp [cdbD] at h
    | succ q =>
      simp only [cdbD] at h
      by_cases h1 : cdbD U d q a u = 0
      · by_cases h2 : cdbD U d q (a+1) u = 0
        · rw [h1, h2] at h; simp at h
        · obtain ⟨x, y⟩ := ih q (a+1) h2
          have : U a ≤ U (a+1) := hm (by omega)
          have e : a + 1 + q + 1 = a + (q + 1) + 1 := by omega
          rw [e] at y
          exact ⟨le_trans this x, y⟩
      · obtain ⟨x, y⟩ := ih q a h1
        have : U (a + q + 1) ≤ U (a + (q + 1) + 1) := hm (by omega)
        exact ⟨x, lt_of_lt_of_le y this⟩

/-- a non-zero entry of a differencing level has a non-zero denominator -/
theorem cdbD_ne_zero_den (U : ℕ → K) (hm : Monotone U) (u : K) (d q a : ℕ) (h : cdbD U d q a u ≠ 0) :
    U (a + q + 1) - U a ≠ 0 := by
  obtain ⟨h1, h2⟩ := cdbD_support U hm u d q a h
  exact ne_of_gt (by linarith)

theorem cdbDList_getD (U : ℕ → K) (d q : ℕ) (u : K) : ∀ (len a j : ℕ), j < len →
    (cdbDList U d q u a len).getD j 0 = cdbD U d q (a + j) u
  | 0, _, _, h => by omega
  | len+1, a, 0, _ => by simp [cdbDList]
  | len+1, a, j+1, h => by
    simp only [cdbDList, List.getD_cons_succ]
    rw [cdbDList_getD U d q u len (a+1) j (by omega)]
    congr 1; omega

/-- the working array `ND` of A2.5 for the `k`-th derivative after `s` differencing levels -/
theorem bdo_table (p : ℕ) (U : ℕ → K) (span : ℕ) (u : K) (k s : ℕ) (hk : k ≤ p) (hs : s ≤ k) :
    (List.range' (p - k + 1) s).foldl (bdoLevel U span) (bdoColumn p U span u (p - k))
      = cdbDList U s (p - k + s) u span (k + 1 - s) := by
  rw [bdoColumn_eq p U span u (p - k) (by omega)]
  have e : p + 1 - (p - k) = (k + 1 - s) + s := by omega
  rw [e, ← cdbDList_zero, bdoFold_cdbD U span u s 0 (p - k) (k + 1 - s), Nat.zero_add]

/-- **no division by zero in the derivative part of A2.5**: entry `j` of `ND` after `s` levels is divided
    (at level `s+1`, only when it is non-zero) by `U (span+j+(p-k+s)+1) - U (span+j)` -/
theorem bdo_division_safe (p : ℕ) (U : ℕ → K) (hm : Monotone U) (span : ℕ) (u : K) (k s j : ℕ) (hk : k ≤ p)
    (hjs : j + s ≤ k)
    (h : ((List.range' (p - k + 1) s).foldl (bdoLevel U span) (bdoColumn p U span u (p - k))).getD j 0 ≠ 0) :
    U (span + j + (p - k + s) + 1) - U (span + j) ≠ 0 := by
  rw [bdo_table p U span u k s hk (by omega), cdbDList_getD U s (p - k + s) u _ span j (by omega)] at h
  exact cdbD_ne_zero_den U hm u s (p - k + s) (span + j) h

/-- **A2.5 in closed form** (`order ≤ p`, non-decreasing knots): the list of the derivative recurrences -/
theorem basisFunDersOne_eq (p : ℕ) (U : ℕ → K) (hm : Monotone U) (span : ℕ) (u : K) (order : ℕ) (ho : order ≤ p) :
    basisFunDersOne p U span u order = (List.range (order + 1)).map (fun k => cdbD U k p span u) := by
  unfold basisFunDersOne
  by_cases hout : u < U span ∨ U (span + p + 1) ≤ u
  · rw [if_pos hout]
    apply List.ext_getElem
    · simp
    · intro i h1 h2
      simp only [List.length_replicate] at h1
      simp only [List.getElem_replicate, List.getElem_map, List.getElem_range]
      by_contra hne
      obtain ⟨a, b⟩ := cdbD_support U hm u i p span (Ne.symm hne)
      rcases hout with h | h
      · exact absurd a (not_le.mpr h)
      · exact absurd b (not_lt.mpr h)
  · rw [if_neg hout, List.range_succ_eq_map, List.map_cons, List.map_map]
    congr 1
    · rw [bdoColumn_eq p U span u p (le_refl _)]
      have : p + 1 - p = 1 := by omega
      rw [this]; rfl
    · rw [List.range'_eq_map_range]
      rw [List.map_map]
      apply List.map_congr_left
      intro k hk
      rw [List.mem_range] at hk
      simp only [Function.comp]
      rw [bdoDer_eq p U span u (1 + k) (by omega)]
      congr 1; omega

end Blossom
