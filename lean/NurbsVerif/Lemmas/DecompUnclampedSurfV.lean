import NurbsVerif.Lemmas.DecompUnclampedSurfU
import NurbsVerif.Lemmas.SplitUnclampedSurfV
import NurbsVerif.Lemmas.SplitSurfVDecompMain

/-! `decompose_surface(…, decompose_dir='v')` for a v knot vector that need NOT be clamped (model with
    exceptions `decomposeDirE 1` on a surface): splitting and decomposing commute with taking rows. -/
set_option linter.unusedSectionVars false
namespace Geomdl
open Blossom
variable {K : Type} [Field K] [LinearOrder K] [IsStrictOrderedRing K]

/-- splitting a surface in v commutes with taking rows, v knot vector clamped or not -/
theorem split_surface_v_rowsU (rat : Bool) (pu pv d : ℕ) (Uu Uv : List K) (su sv : ℕ) (P : List (List K)) (vb tol : K)
    (hP : NetOk d P) (hlenP : P.length = su * sv) (hsu0 : 0 < su)
    (hV : SplitKvWF pv sv Uv) (hlo : fnOf Uv pv < vb) (hhi : vb < fnOf Uv sv)
    (hmx : MultExact pv (fnOf Uv) (findSpanLinear pv (fnOf Uv) sv vb) (findMultiplicity vb Uv tol) vb) :
    ∃ UA nA PA UB nB PB,
      splitDir (surfShape rat pu pv Uu Uv su sv P) 1 vb tol
        = some (surfShape rat pu pv (knotNormalize Uu) UA su nA PA, surfShape rat pu pv (knotNormalize Uu) UB su nB PB) ∧
      PA.length = su * nA ∧ PB.length = su * nB ∧ NetOk d PA ∧ NetOk d PB ∧
      ∀ x, x < su →
        splitDir (curveShape rat pv Uv (rowOf sv P x)) 0 vb tol
          = some (curveShape rat pv UA (rowOf nA PA x), curveShape rat pv UB (rowOf nB PB x)) := by
  have hrowWF : ∀ x, x < su → CurveWF pv d Uv (rowOf sv P x) := fun x hx =>
    hV.toWF (rowOf sv P x) (rowOf_length sv P x) (rowOf_netOk su sv d P hP hlenP x hx)
  obtain ⟨k1, k2, _, _⟩ := findSpanLinear_spec pv (fnOf Uv) sv vb hV.pn hV.mono (le_of_lt hlo)
  obtain ⟨hsz, hlenR, hnetR, hrowsR⟩ := refinedV_rows su sv pv d Uv P vb tol hsu0 hP hlenP k1 k2 hmx.le
  have hrow : ∀ x, x < su →
      CutOkU pv d (refinedV su sv pv Uv P vb tol).1
        (rowOf (sv + (pv - findMultiplicity vb Uv tol)) (refinedV su sv pv Uv P vb tol).2.1 x) vb
        (findSpanLinear pv (fnOf Uv) sv vb + (pv - findMultiplicity vb Uv tol)) := by
    intro x hx
    have := splitRefined_cutU pv d Uv (rowOf sv P x) vb tol (hrowWF x hx) hV.hp
      (by exact hlo) (by rw [rowOf_length]; exact hhi) (by rw [rowOf_length]; exact hmx)
    rw [rowOf_length, (hrowsR x hx).1, ← (hrowsR x hx).2] at this
    exact this
  have hceq : ∀ x, x < su → _ := fun x hx =>
    splitDir_curve_eqU rat pv d Uv (rowOf sv P x) vb tol (hrowWF x hx) hV.hp
      (by exact hlo) (by rw [rowOf_length]; exact hhi) (by rw [rowOf_length]; exact hmx)
  have hnot : ¬ (vb = Uv.getD pv 0 ∨ vb = Uv.getD sv 0) := by
    have hl := hV.len
    rw [fnOf_getD Uv pv (by omega), fnOf_getD Uv sv (by omega)]
    intro h
    rcases h with h | h
    · rw [h] at hlo; exact lt_irrefl _ hlo
    · rw [h] at hhi; exact lt_irrefl _ hhi
  have hcut0 := hrow 0 hsu0
  have hspan : findSpanLinear pv (fnOf (refinedV su sv pv Uv P vb tol).1) (refinedV su sv pv Uv P vb tol).2.2 vb
      = findSpanLinear pv (fnOf Uv) sv vb + (pv - findMultiplicity vb Uv tol) := by
    have := hcut0.span
    rw [rowOf_length] at this
    rw [hsz]; exact this
  have heq := splitDir_surfShape_v rat pu pv Uu Uv su sv P vb tol hnot
  rw [hspan, hsz] at heq
  set k := findSpanLinear pv (fnOf Uv) sv vb with hk
  set s := findMultiplicity vb Uv tol with hs
  set W := (refinedV su sv pv Uv P vb tol).1 with hW
  set Q := (refinedV su sv pv Uv P vb tol).2.1 with hQ
  have hm := hcut0.hm
  have hpm := hcut0.hpm
  rw [rowOf_length] at hm
  have e1 : k - pv + 1 + (pv - s) = k + (pv - s) - pv + 1 := by omega
  have e2 : k + (pv - s) - pv + 1 - 1 = k + (pv - s) - pv := by omega
  rw [e1, e2] at heq
  set fA : List (List K) → List (List K) := fun c => (c.take (k + (pv - s) - pv + 1)).drop 0 with hfA
  set fB : List (List K) → List (List K) := fun c => (c.take (sv + (pv - s))).drop (k + (pv - s) - pv) with hfB
  have hfAlen : ∀ x, x < su → (fA (rowOf (sv + (pv - s)) Q x)).length = k + (pv - s) - pv + 1 := by
    intro x _; simp only [hfA, List.drop_zero, List.length_take, rowOf_length]; omega
  have hfBlen : ∀ x, x < su → (fB (rowOf (sv + (pv - s)) Q x)).length = sv + (pv - s) - (k + (pv - s) - pv) := by
    intro x _; simp only [hfB, List.length_drop, List.length_take, rowOf_length]; omega
  have hrowQ : ∀ x, x < su → NetOk d (rowOf (sv + (pv - s)) Q x) := fun x hx => (hrow x hx).wf.net
  have hfAnet : ∀ x, x < su → NetOk d (fA (rowOf (sv + (pv - s)) Q x)) := by
    intro x hx pt hpt
    exact hrowQ x hx pt (List.mem_of_mem_take (List.mem_of_mem_drop hpt))
  have hfBnet : ∀ x, x < su → NetOk d (fB (rowOf (sv + (pv - s)) Q x)) := by
    intro x hx pt hpt
    exact hrowQ x hx pt (List.mem_of_mem_take (List.mem_of_mem_drop hpt))
  have hszA := mapSurfV_size su (sv + (pv - s)) _ Q fA hsu0 (hfAlen 0 hsu0)
  have hszB := mapSurfV_size su (sv + (pv - s)) _ Q fB hsu0 (hfBlen 0 hsu0)
  obtain ⟨hlenA, hnetA⟩ := mapSurfV_net su (sv + (pv - s)) _ d Q fA hfAlen hfAnet
  obtain ⟨hlenB, hnetB⟩ := mapSurfV_net su (sv + (pv - s)) _ d Q fB hfBlen hfBnet
  have hrowsA := mapSurfV_rows su (sv + (pv - s)) _ Q fA hfAlen
  have hrowsB := mapSurfV_rows su (sv + (pv - s)) _ Q fB hfBlen
  rw [hszA, hszB] at heq
  refine ⟨_, _, _, _, _, _, heq, hlenA, hlenB, hnetA, hnetB, ?_⟩
  intro x hx
  have := hceq x hx
  rw [rowOf_length, (hrowsR x hx).1, ← (hrowsR x hx).2] at this
  rw [this, hrowsA x hx, hrowsB x hx]
  have e : fB (rowOf (sv + (pv - s)) Q x) = (rowOf (sv + (pv - s)) Q x).drop (k + (pv - s) - pv) := by
    simp only [hfB]
    rw [List.take_of_length_le (by rw [rowOf_length])]
  rw [e]
  simp only [hfA, List.drop_zero]
  rfl

theorem decomposeDirE_surf_bezier_v (rat : Bool) (pu pv : ℕ) (Uu Uv : List K) (su sv : ℕ) (P : List (List K))
    (tol : K) (fuel : ℕ) (hlen : Uv.length = sv + pv + 1) (hn : sv = pv + 1) :
    decomposeDirE 1 tol fuel (surfShape rat pu pv Uu Uv su sv P) = some [surfShape rat pu pv Uu Uv su sv P] := by
  cases fuel with
  | zero => rfl
  | succ fuel =>
    have : ((Uv.drop (pv + 1)).take (Uv.length - 2 * (pv + 1))) = [] := by
      have : Uv.length - 2 * (pv + 1) = 0 := by omega
      rw [this]; rfl
    simp only [decomposeDirE, surfShape, Shape.deg, Shape.kv, List.getD_cons_zero, List.getD_cons_succ, this]

theorem decomposeDirE_surf_step_v (rat : Bool) (pu pv : ℕ) (Uu Uv : List K) (su sv : ℕ) (P : List (List K))
    (tol : K) (fuel : ℕ) (hlen : Uv.length = sv + pv + 1) (hn : pv + 1 < sv) (A B : Shape K)
    (hm : findMultiplicity (fnOf Uv (pv + 1)) Uv tol ≤ pv)
    (hs : splitDir (surfShape rat pu pv Uu Uv su sv P) 1 (fnOf Uv (pv + 1)) tol = some (A, B)) :
    decomposeDirE 1 tol (fuel + 1) (surfShape rat pu pv Uu Uv su sv P)
      = (decomposeDirE 1 tol fuel B).map (fun l => A :: l) := by
  obtain ⟨rest, hrest⟩ := interior_head Uv pv sv hlen hn
  have hsE : splitDirE { rat := rat, degs := [pu, pv], kvs := [Uu, Uv], sizes := [su, sv], net := P } 1
      (fnOf Uv (pv + 1)) tol = some (A, B) := by
    have := splitDirE_of_le (surfShape rat pu pv Uu Uv su sv P) 1 (fnOf Uv (pv + 1)) tol
      (by simpa [surfShape, Shape.deg, Shape.kv] using hm)
    rw [← hs, ← this]; rfl
  simp only [decomposeDirE, surfShape, Shape.deg, Shape.kv, List.getD_cons_zero, List.getD_cons_succ, hrest, hsE]

/-- all rows of a surface whose row 0 is admissible are admissible curves -/
theorem DecompWFU.row {pv d : ℕ} {Uv : List K} {su sv : ℕ} {P : List (List K)} {tol : K}
    (h0 : DecompWFU pv d Uv (rowOf sv P 0) tol) (hP : NetOk d P) (hlenP : P.length = su * sv)
    (x : ℕ) (hx : x < su) : DecompWFU pv d Uv (rowOf sv P x) tol := by
  have hl := h0.wf.len
  have hpn := h0.wf.pn
  have hlast := h0.wf.last
  have hmul := h0.mul
  have hunit := h0.unit
  rw [rowOf_length] at hl hpn hlast hmul hunit
  refine ⟨⟨h0.wf.mono, ?_, ?_, ?_, rowOf_netOk su sv d P hP hlenP x hx⟩, h0.hp, h0.first, ?_, ?_, h0.tol0, h0.sep⟩
  all_goals rw [rowOf_length]
  · exact hl
  · exact hpn
  · exact hlast
  · exact hmul
  · exact hunit

/-- the v data of an admissible row as a knot-vector record -/
theorem DecompWFU.toKvRow {pv d : ℕ} {Uv : List K} {sv : ℕ} {P : List (List K)} {tol : K}
    (h0 : DecompWFU pv d Uv (rowOf sv P 0) tol) : SplitKvWF pv sv Uv := by
  have := h0.wf.toSplitKvWF h0.hp
  rw [rowOf_length] at this
  exact this

/-- **rows of the pieces are the pieces of the rows** (u knot vector normalised, so that the pieces keep
    it); the model with exceptions raises on the surface exactly when it does on the rows -/
theorem decompose_surface_v_rowsU (rat : Bool) (pu pv d : ℕ) (tol : K) (Uu : List K) (su : ℕ)
    (hUn : knotNormalize Uu = Uu) (hsu0 : 0 < su) : ∀ (fuel : ℕ) (Uv : List K) (sv : ℕ) (P : List (List K)),
    NetOk d P → P.length = su * sv → DecompWFU pv d Uv (rowOf sv P 0) tol →
    ∃ pieces : List (List K × ℕ × List (List K)),
      decomposeDirE 1 tol fuel (surfShape rat pu pv Uu Uv su sv P)
        = some (pieces.map (fun q => surfShape rat pu pv Uu q.1 su q.2.1 q.2.2)) ∧
      (∀ q ∈ pieces, q.2.2.length = su * q.2.1 ∧ NetOk d q.2.2) ∧
      ∀ x, x < su → decomposeDirE 0 tol fuel (curveShape rat pv Uv (rowOf sv P x))
        = some (pieces.map (fun q => curveShape rat pv q.1 (rowOf q.2.1 q.2.2 x))) := by
  intro fuel
  induction fuel with
  | zero =>
    intro Uv sv P hP hlenP _
    exact ⟨[(Uv, sv, P)], rfl, by intro q hq; simp only [List.mem_singleton] at hq; rw [hq]; exact ⟨hlenP, hP⟩,
      fun x _ => rfl⟩
  | succ fuel ih =>
    intro Uv sv P hP hlenP h0
    have hUlen : Uv.length = sv + pv + 1 := by have := h0.wf.len; rw [rowOf_length] at this; exact this
    have hpn : pv + 1 ≤ sv := by have := h0.wf.pn; rw [rowOf_length] at this; exact this
    by_cases hn : pv + 1 < sv
    · have hV : SplitKvWF pv sv Uv := h0.toKvRow
      obtain ⟨hlo, hhi, hmx, _, _⟩ := decomp_factsU pv d Uv (rowOf sv P 0) tol h0 (by rw [rowOf_length]; exact hn)
      rw [rowOf_length] at hhi hmx
      obtain ⟨UA, nA, PA, UB, nB, PB, hsplit, hlenA, hlenB, hnetA, hnetB, hrows⟩ :=
        split_surface_v_rowsU rat pu pv d Uu Uv su sv P (fnOf Uv (pv + 1)) tol hP hlenP hsu0 hV hlo hhi hmx
      rw [hUn] at hsplit
      have hB0 : DecompWFU pv d UB (rowOf nB PB 0) tol := by
        have hrem := remainder_wfU pv d Uv (rowOf sv P 0) tol h0 (by rw [rowOf_length]; exact hn)
        have heq := splitDir_curve_eqU rat pv d Uv (rowOf sv P 0) (fnOf Uv (pv + 1)) tol h0.wf h0.hp
          hlo (by rw [rowOf_length]; exact hhi) (by rw [rowOf_length]; exact hmx)
        rw [hrows 0 hsu0] at heq
        have hinj := curveShape_inj (Prod.mk.inj (Option.some.inj heq)).2
        rw [hinj.1, hinj.2]
        exact hrem
      obtain ⟨piecesB, hdecB, hokB, hrowsB⟩ := ih UB nB PB hnetB hlenB hB0
      refine ⟨(UA, nA, PA) :: piecesB, ?_, ?_, ?_⟩
      · rw [decomposeDirE_surf_step_v rat pu pv Uu Uv su sv P tol fuel hUlen hn _ _ hmx.le hsplit, hdecB]; rfl
      · intro q hq
        rcases List.mem_cons.mp hq with e | hq'
        · rw [e]; exact ⟨hlenA, hnetA⟩
        · exact hokB q hq'
      · intro x hx
        rw [decomposeDirE_step rat pv Uv (rowOf sv P x) tol fuel (by rw [rowOf_length]; exact hUlen)
              (by rw [rowOf_length]; exact hn) _ _ hmx.le (hrows x hx), hrowsB x hx]
        rfl
    · have hsv : sv = pv + 1 := by omega
      refine ⟨[(Uv, sv, P)], ?_, ?_, ?_⟩
      · rw [decomposeDirE_surf_bezier_v rat pu pv Uu Uv su sv P tol (fuel + 1) hUlen hsv]; rfl
      · intro q hq; simp only [List.mem_singleton] at hq; rw [hq]; exact ⟨hlenP, hP⟩
      · intro x _
        rw [decomposeDirE_bezier rat pv Uv (rowOf sv P x) tol (fuel + 1) (by rw [rowOf_length]; exact hUlen)
              (by rw [rowOf_length]; exact hsv)]
        rfl

end Geomdl
