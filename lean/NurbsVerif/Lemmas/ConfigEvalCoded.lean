import NurbsVerif.Lemmas.ConfigEval
import NurbsVerif.Lemmas.ConfigDersRat
import NurbsVerif.Lemmas.SurfLoopsTrue
import NurbsVerif.Lemmas.AssembleSpan

/-!
  C17, the evaluator option and the knot range for the evaluators AS CODED: `curveDersA32`
  (`CurveEvaluator.derivatives`, the default of `BSpline.Curve` / `NURBS.Curve`), `surfaceDersA36`
  (`SurfaceEvaluator.derivatives`, the default), `surfaceDersA38` (`SurfaceEvaluator2.derivatives`), `curveDersAt`
  (`CurveEvaluator2.derivatives`, A3.3/A3.4).
-/
set_option linter.unusedSectionVars false

namespace Geomdl
open Blossom Polynomial Finset
variable {K : Type} [Field K] [LinearOrder K] [IsStrictOrderedRing K]

/-- curves: the two evaluators as coded agree in every entry `k ≤ order` (also above the degree), every coordinate -/
theorem curve_evaluators_as_coded_agree (p : ℕ) (U : ℕ → K) (P : List (List K)) (κ : ℕ) (u : K) (d j order k : ℕ)
    (hp : p ≤ κ) (hκ : κ < P.length) (hP : NetOk d P)
    (hm : Monotone U) (hspan : U κ < U (κ+1)) (hk : k ≤ order) :
    ((curveDersA32 p U P κ u order).getD k []).getD j 0 = ((curveDersAt p U P κ u order).getD k []).getD j 0 := by
  rw [curveDersA32_true p U P κ u d j order k hp hκ hP hm hspan hk,
    curveDersAt_all p U P κ u d j order k hp hκ hP hm hspan hk]

/-- surfaces: the two evaluators as coded agree wherever A3.8 computes an entry (`k + l ≤ order`) -/
theorem surface_evaluators_as_coded_agree (pu pv : ℕ) (Uu Uv : ℕ → K) (su sv : ℕ) (P : List (List K))
    (κu κv : ℕ) (u v : K) (d order k l : ℕ)
    (hpu : pu ≤ κu) (hpv : pv ≤ κv) (hκu : κu < su) (hκv : κv < sv) (hlen : P.length = su * sv) (hP : NetOk d P)
    (hmu : Monotone Uu) (hmv : Monotone Uv) (hspu : Uu κu < Uu (κu+1)) (hspv : Uv κv < Uv (κv+1))
    (hkl : k + l ≤ order) :
    ((surfaceDersA38 pu pv Uu Uv su sv P κu κv u v order).getD k []).getD l []
      = ((surfaceDersA36 pu pv Uu Uv sv P κu κv u v order).getD k []).getD l [] := by
  rw [surfaceDersA38_eq pu pv Uu Uv su sv P κu κv u v d order hpu hpv hκu hκv hlen hP hmu hmv hspu hspv,
    surfaceDersA36_eq pu pv Uu Uv su sv P κu κv u v d order hpu hpv hκu hκv hlen hP]
  exact surface_evaluators_agree pu pv Uu Uv sv P κu κv u v order k l hkl

theorem monotone_affine (U : ℕ → K) (a b : K) (ha : 0 < a) (hm : Monotone U) : Monotone (fun i => a * U i + b) :=
  fun x y h => by
    have := mul_le_mul_of_nonneg_left (hm h) ha.le
    simp only; linarith

/-- **the default curve evaluator as coded under an affine knot map**, through the span search, closed domain:
    entry `k` picks up `a⁻ᵏ` -/
theorem curveDersA32_affine (p : ℕ) (U : ℕ → K) (P : List (List K)) (u : K) (d order k j : ℕ) (a b : K)
    (ha : 0 < a) (hP : NetOk d P) (hU : KnotsOk p U P.length) (hlo : U p ≤ u) (hhi : u ≤ U P.length) (hk : k ≤ order) :
    ((curveDersA32 p (fun i => a * U i + b) P (findSpanLinear p (fun i => a * U i + b) P.length (a * u + b)) (a * u + b)
        order).getD k []).getD j 0
      = a⁻¹ ^ k * ((curveDersA32 p U P (findSpanLinear p U P.length u) u order).getD k []).getD j 0 := by
  obtain ⟨hs, hp, hκ⟩ := findSpanLinear_dom hU u hlo hhi
  have hm := hU.mono
  have hspan := hs.nonempty
  rw [findSpanLinear_affine p U P.length u a b ha]
  have hm' := monotone_affine U a b ha hm
  have hspan' : (fun i => a * U i + b) (findSpanLinear p U P.length u)
      < (fun i => a * U i + b) (findSpanLinear p U P.length u + 1) := by
    have := mul_lt_mul_of_pos_left hspan ha
    simp only; linarith
  rw [curveDersA32_true p _ P _ _ d j order k hp hκ hP hm' hspan' hk,
    ← curveDersAt_all p _ P _ _ d j order k hp hκ hP hm' hspan' hk,
    curveDersA32_true p U P _ u d j order k hp hκ hP hm hspan hk,
    ← curveDersAt_all p U P _ u d j order k hp hκ hP hm hspan hk,
    curveDersAt_affine p U P _ u order a b ha.ne', scaleJet_entry]

/-- **the default surface evaluator as coded under affine knot maps**, through the span searches, closed domain:
    the whole table, entry `[k][l]` multiplied by `a₁⁻ᵏ·a₂⁻ˡ` -/
theorem surfaceDersA36_affine (pu pv : ℕ) (Uu Uv : ℕ → K) (su sv : ℕ) (P : List (List K)) (u v : K) (d order : ℕ)
    (a1 b1 a2 b2 : K) (h1 : 0 < a1) (h2 : 0 < a2) (hlen : P.length = su * sv) (hP : NetOk d P)
    (hUu : KnotsOk pu Uu su) (hUv : KnotsOk pv Uv sv)
    (hu1 : Uu pu ≤ u) (hu2 : u ≤ Uu su) (hv1 : Uv pv ≤ v) (hv2 : v ≤ Uv sv) :
    surfaceDersA36 pu pv (fun i => a1 * Uu i + b1) (fun i => a2 * Uv i + b2) sv P
        (findSpanLinear pu (fun i => a1 * Uu i + b1) su (a1 * u + b1))
        (findSpanLinear pv (fun i => a2 * Uv i + b2) sv (a2 * v + b2)) (a1 * u + b1) (a2 * v + b2) order
      = scaleJet2 a1⁻¹ a2⁻¹ (surfaceDersA36 pu pv Uu Uv sv P (findSpanLinear pu Uu su u) (findSpanLinear pv Uv sv v)
          u v order) := by
  obtain ⟨_, hpu, hκu⟩ := findSpanLinear_dom hUu u hu1 hu2
  obtain ⟨_, hpv, hκv⟩ := findSpanLinear_dom hUv v hv1 hv2
  rw [surfaceDersA36_eq pu pv Uu Uv su sv P _ _ u v d order hpu hpv hκu hκv hlen hP,
    ← surfaceDers_affine pu pv Uu Uv su sv P u v order false a1 b1 a2 b2 h1 h2]
  rw [findSpanLinear_affine pu Uu su u a1 b1 h1, findSpanLinear_affine pv Uv sv v a2 b2 h2]
  exact surfaceDersA36_eq pu pv _ _ su sv P _ _ _ _ d order hpu hpv hκu hκv hlen hP

end Geomdl
