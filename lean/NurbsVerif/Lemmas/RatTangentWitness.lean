import NurbsVerif.Lemmas.RatTangentNorm
import NurbsVerif.Lemmas.RatTangentReal
import NurbsVerif.Lemmas.SurfDerivWitness
import NurbsVerif.Lemmas.FitParams

/-!
Concrete RATIONAL shapes (weights not all 1) for the non-vacuity examples of the tangent / normal theorems of
Props/C02.lean:

* `exU`, `exV`, `exP` (of `SurfDerivWitness`) as a well-formed surface with positive weights;
* `rtLU`, `rtLPw`: a rational line segment whose tangent at `u = 0` is `(6, 8)` – length exactly 10;
* `rtZU`, `rtZPw`: a rational quadratic whose first two control points coincide – the tangent at `u = 0` vanishes;
* `rtSU`, `rtSPw`: a rational bilinear patch with `S_u(0,0) = (6, 8, 0)`, `S_v(0,0) = (0, 0, 15)`, normal `(120, -90, 0)`
  of lengths exactly 10, 15, 150;
* `rcUR`, `rcPwR`: the rational quadratic `rcU`, `rcPw` of `RatCurveTrue` over `ℝ`.
-/
namespace C02
open Geomdl

theorem exU_knotsOk : KnotsOk 2 exU 3 := ⟨exU_mono, by omega, by decide +kernel⟩
theorem exV_knotsOk : KnotsOk 1 exV 2 := ⟨exV_mono, by omega, by decide +kernel⟩
theorem exP_weights : ∀ i, i < exP.length → 0 < (ptsGet exP i).getD 3 0 := by
  intro i hi
  simp only [exP, List.length_cons, List.length_nil] at hi
  have : i = 0 ∨ i = 1 ∨ i = 2 ∨ i = 3 ∨ i = 4 ∨ i = 5 := by omega
  rcases this with rfl | rfl | rfl | rfl | rfl | rfl <;> simp [exP, ptsGet]

def rtLU : List ℚ := [0, 0, 1, 1]
def rtLPw : List (List ℚ) := [[0, 0, 1], [6, 8, 2]]

theorem rtL_wf : CurveWF 1 (2+1) rtLU rtLPw where
  mono := fnOf_monotone_of_isSortedB rtLU (by decide +kernel)
  len := by decide
  pn := by decide
  last := by decide +kernel
  net := by intro pt hpt; simp [rtLPw] at hpt; rcases hpt with h | h <;> simp [h]

theorem rtL_weights : ∀ i, i < rtLPw.length → 0 < (ptsGet rtLPw i).getD 2 0 := by
  intro i hi
  simp only [rtLPw, List.length_cons, List.length_nil] at hi
  have : i = 0 ∨ i = 1 := by omega
  rcases this with rfl | rfl <;> simp [rtLPw, ptsGet]

def rtZU : List ℚ := [0, 0, 0, 1, 1, 1]
def rtZPw : List (List ℚ) := [[1, 1, 1], [2, 2, 2], [5, 3, 1]]

def rtSU : List ℚ := [0, 0, 1, 1]
def rtSPw : List (List ℚ) := [[0, 0, 0, 1], [0, 0, 15, 3], [6, 8, 0, 2], [1/2, 1/2, 1/2, 1/2]]

theorem rtSU_knotsOk : KnotsOk 1 (fnOf rtSU) 2 :=
  ⟨fnOf_monotone_of_isSortedB rtSU (by decide +kernel), by omega, by decide +kernel⟩
theorem rtSPw_ok : NetOk (3+1) rtSPw := by
  intro pt hpt; simp [rtSPw] at hpt; rcases hpt with h | h | h | h <;> simp [h]
theorem rtSPw_weights : ∀ i, i < rtSPw.length → 0 < (ptsGet rtSPw i).getD 3 0 := by
  intro i hi
  simp only [rtSPw, List.length_cons, List.length_nil] at hi
  have : i = 0 ∨ i = 1 ∨ i = 2 ∨ i = 3 := by omega
  rcases this with rfl | rfl | rfl | rfl <;> simp [rtSPw, ptsGet]

/-! the rational quadratic with an interior knot and weights `1, 2, 1/2, 3`, over `ℝ` -/
noncomputable def rcUR : List ℝ := [0, 0, 0, 1/2, 1, 1, 1]
noncomputable def rcPwR : List (List ℝ) := [[0, 0, 1], [2, 4, 2], [1, 0, 1/2], [9, 3, 3]]

theorem rcR_wf : CurveWF 2 (2+1) rcUR rcPwR where
  mono := by
    apply monotone_nat_of_le_succ
    intro n
    rcases n with _|_|_|_|_|_|_|n <;> simp [rcUR, fnOf, List.getD] <;> norm_num
  len := by simp [rcUR, rcPwR]
  pn := by simp [rcPwR]
  last := by simp [rcUR, rcPwR, fnOf, List.getD]; norm_num
  net := by intro pt hpt; simp [rcPwR] at hpt; rcases hpt with h | h | h | h <;> simp [h]

theorem rcR_weights : ∀ i, i < rcPwR.length → 0 < (ptsGet rcPwR i).getD 2 0 := by
  intro i hi
  simp only [rcPwR, List.length_cons, List.length_nil] at hi
  have : i = 0 ∨ i = 1 ∨ i = 2 ∨ i = 3 := by omega
  rcases this with rfl | rfl | rfl | rfl <;> simp [rcPwR, ptsGet]

theorem rcR_dom : fnOf rcUR 2 ≤ (1/2 : ℝ) ∧ (1/2 : ℝ) ≤ fnOf rcUR rcPwR.length := by
  constructor <;> simp [rcUR, rcPwR, fnOf, List.getD] <;> norm_num

end C02
