import NurbsVerif.Model.RefineA54
import Mathlib.Data.List.Basic
import Mathlib.Data.List.Nodup
import Mathlib.Data.List.Range

/-! Array lemmas for the literal A5.4 model: folds of in-place updates (`List.set`) have the closed
    forms one reads off the Python loops. -/
namespace Geomdl

section generic
variable {α ι : Type}

theorem getD_set_eq (l : List α) (i : ℕ) (v dflt : α) (h : i < l.length) : (l.set i v).getD i dflt = v := by
  simp [List.getD_eq_getElem?_getD, h]

theorem getD_set_of_ne (l : List α) (i j : ℕ) (v dflt : α) (h : i ≠ j) : (l.set i v).getD j dflt = l.getD j dflt := by
  simp [List.getD_eq_getElem?_getD, h]

/-- a `for` loop of in-place writes keeps the length -/
theorem foldl_set_length (g : ι → ℕ) (f : List α → ι → α) : ∀ (js : List ι) (c0 : List α),
    (js.foldl (fun c j => c.set (g j) (f c j)) c0).length = c0.length := by
  intro js
  induction js with
  | nil => intro c0; rfl
  | cons j js ih => intro c0; simp only [List.foldl_cons]; rw [ih]; simp

/-- positions no iteration writes to keep their value -/
theorem foldl_set_getD_miss (g : ι → ℕ) (f : List α → ι → α) (d : α) (t : ℕ) : ∀ (js : List ι) (c0 : List α),
    (∀ j ∈ js, g j ≠ t) → (js.foldl (fun c j => c.set (g j) (f c j)) c0).getD t d = c0.getD t d := by
  intro js
  induction js with
  | nil => intro c0 _; rfl
  | cons j js ih =>
    intro c0 h
    simp only [List.foldl_cons]
    rw [ih _ (fun j' hj' => h j' (by simp [hj'])), getD_set_of_ne _ _ _ _ _ (h j (by simp))]

/-- a written position holds the value written (values independent of the array, one writer per position) -/
theorem foldl_set_getD_hit (g : ι → ℕ) (f : ι → α) (d : α) : ∀ (js : List ι) (c0 : List α) (j0 : ι),
    j0 ∈ js → (∀ j ∈ js, g j = g j0 → f j = f j0) → g j0 < c0.length →
    (js.foldl (fun c j => c.set (g j) (f j)) c0).getD (g j0) d = f j0 := by
  intro js
  induction js with
  | nil => intro c0 j0 h; simp at h
  | cons j js ih =>
    intro c0 j0 hmem huniq hlen
    simp only [List.foldl_cons]
    by_cases hex : ∃ j' ∈ js, g j' = g j0
    · obtain ⟨j', hj', e⟩ := hex
      have := ih (c0.set (g j) (f j)) j' hj'
        (fun j'' hj'' e'' => by
          rw [huniq j'' (by simp [hj'']) (by rw [e'', e]), huniq j' (by simp [hj']) e])
        (by rw [List.length_set, e]; exact hlen)
      rw [e] at this
      rw [this]; exact huniq j' (by simp [hj']) e
    · have hmiss : ∀ j' ∈ js, g j' ≠ g j0 := fun j' hj' e => hex ⟨j', hj', e⟩
      have hj : j0 = j := by
        rcases List.mem_cons.mp hmem with h | h
        · exact h
        · exact absurd rfl (hmiss j0 h)
      subst hj
      rw [foldl_set_getD_miss g (fun _ j => f j) d (g j0) js _ hmiss, getD_set_eq _ _ _ _ hlen]

/-- two lists of the same length with the same entries are equal (entries read with a default) -/
theorem list_ext_getD (a b : List α) (d : α) (hl : a.length = b.length) (h : ∀ j, j < a.length → a.getD j d = b.getD j d) :
    a = b := by
  apply List.ext_getElem hl
  intro j h1 h2
  have := h j h1
  simpa [List.getD_eq_getElem?_getD, List.getElem?_eq_getElem h1, List.getElem?_eq_getElem h2] using this

end generic

section init
variable {K : Type} [Add K] [Sub K] [Mul K] [Div K] [Neg K] [Zero K] [One K] [NatCast K]
  [LT K] [LE K] [DecidableRel (α := K) (· < ·)] [DecidableRel (α := K) (· ≤ ·)] [DecidableEq K]

/-- `for j in range(0, n): arr[j] = f(j)` -/
theorem fill_left {α : Type} (f : ℕ → α) (d : α) (n : ℕ) (c0 : List α) (t : ℕ) (hlen : t < c0.length) :
    ((List.range n).foldl (fun c j => c.set j (f j)) c0).getD t d = if t < n then f t else c0.getD t d := by
  by_cases h : t < n
  · rw [if_pos h]
    exact foldl_set_getD_hit (fun j => j) f d (List.range n) c0 t (List.mem_range.mpr h)
      (fun j _ e => by rw [e]) hlen
  · rw [if_neg h]
    exact foldl_set_getD_miss (fun j => j) (fun _ j => f j) d t (List.range n) c0
      (fun j hj e => h (by rw [← e]; exact List.mem_range.mp hj))

/-- `for j in range(s, s + n): arr[j + off] = f(j)` -/
theorem fill_right {α : Type} (f : ℕ → α) (d : α) (s n off : ℕ) (c0 : List α) (t : ℕ) (hlen : t < c0.length) :
    ((List.range' s n).foldl (fun c j => c.set (j + off) (f j)) c0).getD t d
      = if s + off ≤ t ∧ t < s + n + off then f (t - off) else c0.getD t d := by
  by_cases h : s + off ≤ t ∧ t < s + n + off
  · rw [if_pos h]
    have hm : t - off ∈ List.range' s n := by rw [List.mem_range'_1]; omega
    have := foldl_set_getD_hit (fun j => j + off) f d (List.range' s n) c0 (t - off) hm
      (fun j _ e => by
        have e' : j + off = t - off + off := e
        have : j = t - off := by omega
        rw [this]) (show t - off + off < c0.length by omega)
    have e2 : t - off + off = t := by omega
    rw [e2] at this
    exact this
  · rw [if_neg h]
    exact foldl_set_getD_miss (fun j => j + off) (fun _ j => f j) d t (List.range' s n) c0
      (fun j hj e => h (by
        rw [List.mem_range'_1] at hj
        have e' : j + off = t := e
        omega))

end init
end Geomdl
