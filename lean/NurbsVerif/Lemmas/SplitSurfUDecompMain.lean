import NurbsVerif.Lemmas.SplitSurfUDecomp

/-! `decompose_surface(…, decompose_dir='u')` end to end. -/
set_option linter.unusedSectionVars false
namespace Geomdl
open Blossom Finset
variable {K : Type} [Field K] [LinearOrder K] [IsStrictOrderedRing K]

/-- columns version of `surface_cols_eval` without normalisation of the v knot vector -/
theorem surface_cols_eval' (pu pv d : ℕ) (UA Uu Uv : List K) (nA su sv : ℕ) (PA P : List (List K)) (t u v : K) (j : ℕ)
    (hVm : Monotone (fnOf Uv)) (hsv : pv + 1 ≤ sv) (hv : fnOf Uv pv ≤ v)
    (hPA : NetOk d PA) (hlenA : PA.length = nA * sv) (hP : NetOk d P) (hlenP : P.length = su * sv)
    (hA : pu ≤ findSpanLinear pu (fnOf UA) nA t ∧ findSpanLinear pu (fnOf UA) nA t < nA)
    (hU : pu ≤ findSpanLinear pu (fnOf Uu) su u ∧ findSpanLinear pu (fnOf Uu) su u < su)
    (hcols : ∀ y, y < sv → (curvePoint pu (fnOf UA) (colOf nA sv PA y) t).getD j 0
        = (curvePoint pu (fnOf Uu) (colOf su sv P y) u).getD j 0) :
    (surfacePoint pu pv (fnOf UA) (fnOf Uv) nA sv PA t v).getD j 0
      = (surfacePoint pu pv (fnOf Uu) (fnOf Uv) su sv P u v).getD j 0 := by
  obtain ⟨a1, a2, _, _⟩ := findSpanLinear_spec pv (fnOf Uv) sv v hsv hVm hv
  unfold surfacePoint
  rw [surfacePointAt_cols pu pv _ _ nA sv PA _ _ t _ d j hA.1 a1 hA.2 a2 hlenA hPA]
  rw [surfacePointAt_cols pu pv _ _ su sv P _ _ u v d j hU.1 a1 hU.2 a2 hlenP hP]
  apply Finset.sum_congr rfl
  intro b hb
  rw [Finset.mem_range] at hb
  congr 1
  have := hcols (findSpanLinear pv (fnOf Uv) sv v - pv + b) (by omega)
  unfold curvePoint at this
  rw [colOf_length, colOf_length] at this
  exact this

/-- all columns of an admissible surface are admissible curves -/
theorem DecompWF.col {pu d : ℕ} {Uu : List K} {su sv : ℕ} {P : List (List K)} {tol : K}
    (h0 : DecompWF pu d Uu (colOf su sv P 0) tol) (hP : NetOk d P) (hlenP : P.length = su * sv)
    (y : ℕ) (hy : y < sv) : DecompWF pu d Uu (colOf su sv P y) tol := by
  have hl := h0.cl.wf.len
  have hpn := h0.cl.wf.pn
  have hlast := h0.cl.wf.last
  have hc1 := h0.cl.c1
  have hmul := h0.mul
  have hunit := h0.unit
  rw [colOf_length] at hl hpn hlast hc1 hmul hunit
  refine ⟨⟨⟨h0.cl.wf.mono, ?_, ?_, ?_, colOf_netOk su sv d P hP hlenP y hy⟩, h0.cl.hp, h0.cl.c0, ?_⟩, ?_, ?_, h0.tol0, h0.sep⟩
  all_goals rw [colOf_length]
  · exact hl
  · exact hpn
  · exact hlast
  · exact hc1
  · exact hmul
  · exact hunit

/-- **`decompose_surface` in u, end to end**: one piece per non-empty u interval, in order; each piece
    is a clamped Bézier strip (`pu+1` control points in u, same v data) that coincides with the
    original on `[breaks i, breaks (i+1)] × (v domain)` under the affine map of its own u domain. -/
theorem decompose_surface_u_all (rat : Bool) (pu pv d : ℕ) (tol : K) (fuel : ℕ) (Uu Uv : List K) (su sv : ℕ)
    (P : List (List K)) (hP : NetOk d P) (hlenP : P.length = su * sv)
    (hVm : Monotone (fnOf Uv)) (hsv : pv + 1 ≤ sv) (hVn : knotNormalize Uv = Uv)
    (h0 : DecompWF pu d Uu (colOf su sv P 0) tol)
    (hfuel : (spanStarts pu (fnOf Uu) su).length ≤ fuel + 1) :
    ∃ pieces : List (List K × ℕ × List (List K)),
      decomposeDir 0 tol fuel (surfShape rat pu pv Uu Uv su sv P)
        = pieces.map (fun q => surfShape rat pu pv q.1 Uv q.2.1 sv q.2.2) ∧
      pieces.length = (spanStarts pu (fnOf Uu) su).length ∧
      ((pu + 1 < su ∨ (fnOf Uu pu = 0 ∧ fnOf Uu su = 1)) → ∀ q ∈ pieces, q.1 = bezKv pu) ∧
      ∀ i, i < pieces.length →
        (pieces.getD i ([], 0, [])).2.1 = pu + 1 ∧
        ClampedKv pu (pu + 1) (pieces.getD i ([], 0, [])).1 ∧
        (pieces.getD i ([], 0, [])).2.2.length = (pu + 1) * sv ∧ NetOk d (pieces.getD i ([], 0, [])).2.2 ∧
        ∀ v, fnOf Uv pv ≤ v → ∀ t, 0 ≤ t → t ≤ 1 → ∀ j,
          (surfacePoint pu pv (fnOf (pieces.getD i ([], 0, [])).1) (fnOf Uv) (pu + 1) sv
              (pieces.getD i ([], 0, [])).2.2
              (fnOf (pieces.getD i ([], 0, [])).1 pu
                + t * (fnOf (pieces.getD i ([], 0, [])).1 (pu + 1) - fnOf (pieces.getD i ([], 0, [])).1 pu)) v).getD j 0
            = (surfacePoint pu pv (fnOf Uu) (fnOf Uv) su sv P
                ((breaks pu (fnOf Uu) su).getD i 0
                  + t * ((breaks pu (fnOf Uu) su).getD (i + 1) 0 - (breaks pu (fnOf Uu) su).getD i 0)) v).getD j 0 := by
  have hsv0 : 0 < sv := by omega
  obtain ⟨pieces, hdec, hok, hcols⟩ :=
    decompose_surface_u_cols rat pu pv d tol Uv sv hVn hsv0 fuel Uu su P hP hlenP h0
  -- the curve theorem on every column
  have hcurve : ∀ y, y < sv → DecompResult rat pu d tol fuel Uu (colOf su sv P y) := fun y hy =>
    decompose_curve_all rat pu d tol fuel Uu (colOf su sv P y) (h0.col hP hlenP y hy)
      (by rw [colOf_length]; exact hfuel)
  -- matching the two descriptions of the column pieces
  have hmatch : ∀ y, y < sv → ∀ (py : List (List K × List (List K))),
      pieces.map (fun q => curveShape rat pu q.1 (colOf q.2.1 sv q.2.2 y)) = py.map (fun q => curveShape rat pu q.1 q.2) →
      pieces.length = py.length ∧ ∀ i, i < pieces.length →
        py.getD i ([], []) = ((pieces.getD i ([], 0, [])).1,
          colOf (pieces.getD i ([], 0, [])).2.1 sv (pieces.getD i ([], 0, [])).2.2 y) := by
    intro y hy py hm
    have hl : pieces.length = py.length := by
      have := congrArg List.length hm
      simpa using this
    refine ⟨hl, ?_⟩
    intro i hi
    have h1 : (pieces.map (fun q => curveShape rat pu q.1 (colOf q.2.1 sv q.2.2 y))).getD i (curveShape rat pu [] [])
        = (py.map (fun q => curveShape rat pu q.1 q.2)).getD i (curveShape rat pu [] []) := by rw [hm]
    rw [getD_map_lt _ pieces i ([], 0, []) _ hi, getD_map_lt _ py i ([], []) _ (by omega)] at h1
    have := curveShape_inj h1
    exact Prod.ext this.1.symm this.2.symm
  obtain ⟨py0, hpy0, hlen0, hbez0, _⟩ := hcurve 0 hsv0
  rw [hcols 0 hsv0] at hpy0
  obtain ⟨hl0, hel0⟩ := hmatch 0 hsv0 py0 hpy0
  refine ⟨pieces, hdec, ?_, ?_, ?_⟩
  · rw [hl0, hlen0, colOf_length]
  · intro hc q hq
    obtain ⟨i, hi, rfl⟩ := List.getElem_of_mem hq
    have hq0 : py0.getD i ([], []) ∈ py0 := by
      rw [List.getD_eq_getElem _ _ (by omega)]; exact List.getElem_mem _
    have := hbez0 (by rw [colOf_length]; exact hc) _ hq0
    rw [hel0 i hi] at this
    rw [← List.getD_eq_getElem pieces ([], 0, []) hi]
    exact this
  · intro i hi
    -- per column facts about piece `i`
    have hpc : ∀ y, y < sv →
        BezPiece pu d (curveFn pu Uu (colOf su sv P y)) ((breaks pu (fnOf Uu) su).getD i 0)
          ((breaks pu (fnOf Uu) su).getD (i + 1) 0)
          ((pieces.getD i ([], 0, [])).1, colOf (pieces.getD i ([], 0, [])).2.1 sv (pieces.getD i ([], 0, [])).2.2 y) := by
      intro y hy
      obtain ⟨py, hpy, _, _, hB⟩ := hcurve y hy
      rw [hcols y hy] at hpy
      obtain ⟨hl, hel⟩ := hmatch y hy py hpy
      have := hB i (by omega)
      rw [hel i hi, colOf_length] at this
      exact this
    obtain ⟨c0, n0, _⟩ := hpc 0 hsv0
    have hn : (pieces.getD i ([], 0, [])).2.1 = pu + 1 := by
      simp only [colOf_length] at n0; exact n0
    have hqmem : pieces.getD i ([], 0, []) ∈ pieces := by
      rw [List.getD_eq_getElem _ _ hi]; exact List.getElem_mem _
    obtain ⟨hqlen, hqnet⟩ := hok _ hqmem
    have kq := c0.toKv
    simp only [colOf_length] at kq
    rw [hn] at kq hqlen
    refine ⟨hn, kq, hqlen, hqnet, ?_⟩
    intro v hv t ht0 ht1 j
    have hbr := breaks_getD_range pu su (fnOf Uu) h0.cl.wf.mono (by have := h0.cl.wf.pn; rw [colOf_length] at this; omega) 0
    have hcnt : (breaks pu (fnOf Uu) su).length = pieces.length + 1 := by
      rw [breaks_length, hl0, hlen0, colOf_length]
    have ra := hbr i (by omega)
    have rb := hbr (i + 1) (by omega)
    have hpn : pu + 1 ≤ su := by have := h0.cl.wf.pn; rw [colOf_length] at this; exact this
    apply surface_cols_eval' pu pv d _ Uu Uv (pu + 1) su sv _ P _ _ v j hVm hsv hv hqnet hqlen hP hlenP
    · have hq0 : fnOf (pieces.getD i ([], 0, [])).1 pu ≤ fnOf (pieces.getD i ([], 0, [])).1 (pu + 1) := kq.mono (by omega)
      obtain ⟨b1, b2, _, _⟩ := findSpanLinear_spec pu (fnOf (pieces.getD i ([], 0, [])).1) (pu + 1)
        (fnOf (pieces.getD i ([], 0, [])).1 pu
          + t * (fnOf (pieces.getD i ([], 0, [])).1 (pu + 1) - fnOf (pieces.getD i ([], 0, [])).1 pu))
        (le_refl _) kq.mono (by nlinarith)
      exact ⟨b1, b2⟩
    · obtain ⟨b1, b2, _, _⟩ := findSpanLinear_spec pu (fnOf Uu) su
        ((breaks pu (fnOf Uu) su).getD i 0
          + t * ((breaks pu (fnOf Uu) su).getD (i + 1) 0 - (breaks pu (fnOf Uu) su).getD i 0))
        hpn h0.cl.wf.mono (by nlinarith [ra.1, rb.1])
      exact ⟨b1, b2⟩
    · intro y hy
      obtain ⟨_, _, h3⟩ := hpc y hy
      have := h3 t ht0 ht1 j
      rw [hn] at this
      exact this

end Geomdl
