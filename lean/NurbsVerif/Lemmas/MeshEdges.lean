import NurbsVerif.Lemmas.MeshGeom

/-!
# Edge incidences of the grid triangulation (C15)

No directed edge is used by two triangles; which listed edges occur in which direction.
-/
namespace Geomdl.Mesh

/-- the six directed edges of the two triangles of cell `(i, j)` -/
def cellDirEdges (nv i j : ℕ) : List (ℕ × ℕ) := (polygonTriangulate (quadCell nv i j)).flatMap triDirEdges

theorem cellDirEdges_eq (nv i j : ℕ) :
    cellDirEdges nv i j =
      [(gridVid nv i j, gridVid nv i j + nv), (gridVid nv i j + nv, gridVid nv i j + nv + 1),
       (gridVid nv i j + nv + 1, gridVid nv i j), (gridVid nv i j, gridVid nv i j + nv + 1),
       (gridVid nv i j + nv + 1, gridVid nv i j + 1), (gridVid nv i j + 1, gridVid nv i j)] := by
  have e1 : j + (i + 1) * nv = gridVid nv i j + nv := by unfold gridVid; ring
  have e2 : j + 1 + (i + 1) * nv = gridVid nv i j + nv + 1 := by unfold gridVid; ring
  have e3 : j + 1 + i * nv = gridVid nv i j + 1 := by unfold gridVid; ring
  have e0 : j + i * nv = gridVid nv i j := rfl
  unfold cellDirEdges quadCell
  rw [e1, e2, e3, e0]
  rfl

theorem flatten_map_flatMap {α β : Type} (L : List ℕ) (h : ℕ → List α) (g : α → List β) :
    ((L.map h).flatten).flatMap g = (L.map fun j => (h j).flatMap g).flatten := by
  induction L with
  | nil => simp
  | cons a L ih => simp [List.flatMap_append, ih]

theorem flatten_flatMap_grid2 {α β : Type} (n m : ℕ) (f : ℕ → ℕ → List α) (g : α → List β) :
    ((meshGrid2 n m f).flatten).flatMap g = (meshGrid2 n m fun i j => (f i j).flatMap g).flatten := by
  induction n with
  | zero => simp [meshGrid2]
  | succ n ih =>
    rw [grid2_succ, grid2_succ, List.flatten_append, List.flatMap_append, ih, List.flatten_append,
      flatten_map_flatMap]

theorem meshDirEdges_eq (nu nv : ℕ) :
    meshDirEdges nu nv = (meshGrid2 (nu - 1) (nv - 1) (cellDirEdges nv)).flatten := by
  unfold meshDirEdges meshTriangles
  rw [flatten_flatMap_grid2]; rfl

theorem mem_meshDirEdges {nu nv : ℕ} {e : ℕ × ℕ} :
    e ∈ meshDirEdges nu nv ↔ ∃ i, i < nu - 1 ∧ ∃ j, j < nv - 1 ∧ e ∈ cellDirEdges nv i j := by
  rw [meshDirEdges_eq]
  simp only [List.mem_flatten, mem_grid2]
  constructor
  · rintro ⟨l, ⟨i, hi, j, hj, rfl⟩, he⟩; exact ⟨i, hi, j, hj, he⟩
  · rintro ⟨i, hi, j, hj, he⟩; exact ⟨_, ⟨i, hi, j, hj, rfl⟩, he⟩

/-- lists indexed by a grid, pairwise disjoint and each without repetition -/
theorem nodup_flatten_map_range {α : Type} (m : ℕ) (h : ℕ → List α) (hn : ∀ j, j < m → (h j).Nodup)
    (hd : ∀ j j' x, j < m → j' < m → x ∈ h j → x ∈ h j' → j = j') :
    (((List.range m).map h).flatten).Nodup := by
  induction m with
  | zero => simp
  | succ m ih =>
    rw [List.range_succ, List.map_append, List.flatten_append, List.nodup_append]
    refine ⟨ih (fun j hj => hn j (by omega)) (fun j j' x hj hj' => hd j j' x (by omega) (by omega)), ?_, ?_⟩
    · simpa using hn m (by omega)
    · intro a ha b hb hab
      subst hab
      simp only [List.mem_flatten, List.mem_map, List.mem_range] at ha
      obtain ⟨l, ⟨j, hj, rfl⟩, ha⟩ := ha
      simp only [List.map_cons, List.map_nil, List.flatten_cons, List.flatten_nil, List.append_nil] at hb
      have := hd j m a (by omega) (by omega) ha hb
      omega

theorem nodup_flatten_grid2 {α : Type} (n m : ℕ) (f : ℕ → ℕ → List α)
    (hn : ∀ i j, i < n → j < m → (f i j).Nodup)
    (hd : ∀ i j i' j' x, i < n → j < m → i' < n → j' < m → x ∈ f i j → x ∈ f i' j' → i = i' ∧ j = j') :
    ((meshGrid2 n m f).flatten).Nodup := by
  induction n with
  | zero => simp [meshGrid2]
  | succ n ih =>
    rw [grid2_succ, List.flatten_append, List.nodup_append]
    refine ⟨ih (fun i j hi hj => hn i j (by omega) hj)
      (fun i j i' j' x hi hj hi' hj' => hd i j i' j' x (by omega) hj (by omega) hj'), ?_, ?_⟩
    · exact nodup_flatten_map_range m (f n) (fun j hj => hn n j (by omega) hj)
        (fun j j' x hj hj' h1 h2 => (hd n j n j' x (by omega) hj (by omega) hj' h1 h2).2)
    · intro a ha b hb hab
      subst hab
      simp only [List.mem_flatten, mem_grid2] at ha
      obtain ⟨l, ⟨i, hi, j, hj, rfl⟩, ha⟩ := ha
      simp only [List.mem_flatten, List.mem_map, List.mem_range] at hb
      obtain ⟨l, ⟨j', hj', rfl⟩, hb⟩ := hb
      have := (hd i j n j' a (by omega) hj (by omega) hj' ha hb).1
      omega

theorem cellDirEdges_nodup (nv i j : ℕ) (hv : 1 ≤ nv) : (cellDirEdges nv i j).Nodup := by
  rw [cellDirEdges_eq]
  simp only [List.nodup_cons, List.mem_cons, List.not_mem_nil, Prod.mk.injEq, or_false, not_or,
    List.nodup_nil, and_true]
  generalize gridVid nv i j = g
  simp only [true_and, not_false_eq_true, and_true]
  omega

theorem mem_cellDirEdges {nv i j : ℕ} {e : ℕ × ℕ} :
    e ∈ cellDirEdges nv i j ↔
      e = (gridVid nv i j, gridVid nv i j + nv) ∨ e = (gridVid nv i j + nv, gridVid nv i j + nv + 1) ∨
      e = (gridVid nv i j + nv + 1, gridVid nv i j) ∨ e = (gridVid nv i j, gridVid nv i j + nv + 1) ∨
      e = (gridVid nv i j + nv + 1, gridVid nv i j + 1) ∨ e = (gridVid nv i j + 1, gridVid nv i j) := by
  rw [cellDirEdges_eq]; simp

/-- a directed edge determines its cell -/
theorem cellDirEdges_disjoint {nv i j i' j' : ℕ} (hv : 2 ≤ nv) (hj : j < nv - 1) (hj' : j' < nv - 1)
    {e : ℕ × ℕ} (h1 : e ∈ cellDirEdges nv i j) (h2 : e ∈ cellDirEdges nv i' j') : i = i' ∧ j = j' := by
  rw [mem_cellDirEdges] at h1 h2
  have key : gridVid nv i j = gridVid nv i' j' := by
    rcases h1 with rfl | rfl | rfl | rfl | rfl | rfl <;>
      rcases h2 with h2 | h2 | h2 | h2 | h2 | h2 <;>
      simp only [Prod.mk.injEq] at h2 <;> omega
  exact gridVid_inj (by omega) (by omega) key

/-- no directed edge is used by two triangles (consistent orientation; at most two triangles per edge) -/
theorem meshDirEdges_nodup (nu nv : ℕ) (hv : 2 ≤ nv) : (meshDirEdges nu nv).Nodup := by
  rw [meshDirEdges_eq]
  apply nodup_flatten_grid2
  · intro i j _ _; exact cellDirEdges_nodup nv i j (by omega)
  · intro i j i' j' x _ hj _ hj' h1 h2
    exact cellDirEdges_disjoint hv hj hj' h1 h2

/-! ### which listed edges occur in which direction -/

/-- u-direction edge `(i,j) → (i+1,j)`: used forwards by the cell above it … -/
theorem uEdge_fwd {nu nv i j : ℕ} (hv : 2 ≤ nv) (hi : i < nu - 1) (hj : j < nv) :
    (gridVid nv i j, gridVid nv (i + 1) j) ∈ meshDirEdges nu nv ↔ j < nv - 1 := by
  constructor
  · intro h
    obtain ⟨i', hi', j', hj', hc⟩ := mem_meshDirEdges.1 h
    rw [mem_cellDirEdges, gridVid_succ_left] at hc
    rcases hc with hc | hc | hc | hc | hc | hc <;> simp only [Prod.mk.injEq] at hc <;>
      first
      | omega
      | (obtain ⟨rfl, rfl⟩ := gridVid_inj hj (by omega) hc.1; exact hj')
  · intro h
    exact mem_meshDirEdges.2 ⟨i, hi, j, h, mem_cellDirEdges.2 (Or.inl (by rw [gridVid_succ_left]))⟩

/-- … and backwards by the cell below it -/
theorem uEdge_bwd {nu nv i j : ℕ} (hv : 2 ≤ nv) (hi : i < nu - 1) (hj : j < nv) :
    (gridVid nv (i + 1) j, gridVid nv i j) ∈ meshDirEdges nu nv ↔ 0 < j := by
  constructor
  · intro h
    obtain ⟨i', hi', j', hj', hc⟩ := mem_meshDirEdges.1 h
    rw [mem_cellDirEdges, gridVid_succ_left] at hc
    rcases hc with hc | hc | hc | hc | hc | hc <;> simp only [Prod.mk.injEq] at hc <;>
      first
      | omega
      | (have e : gridVid nv i j = gridVid nv i' (j' + 1) := by rw [gridVid_succ_right]; omega
         obtain ⟨rfl, rfl⟩ := gridVid_inj hj (by omega) e; omega)
  · intro h
    obtain ⟨j', rfl⟩ : ∃ j', j = j' + 1 := ⟨j - 1, by omega⟩
    refine mem_meshDirEdges.2 ⟨i, hi, j', by omega, mem_cellDirEdges.2 ?_⟩
    rw [gridVid_succ_left, gridVid_succ_right]
    right; right; right; right; left
    rw [Prod.mk.injEq]; omega

/-- v-direction edge `(i,j) → (i,j+1)`: used forwards by the cell on its lower-u side … -/
theorem vEdge_fwd {nu nv i j : ℕ} (hv : 2 ≤ nv) (hi : i < nu) (hj : j < nv - 1) :
    (gridVid nv i j, gridVid nv i (j + 1)) ∈ meshDirEdges nu nv ↔ 0 < i := by
  constructor
  · intro h
    obtain ⟨i', hi', j', hj', hc⟩ := mem_meshDirEdges.1 h
    rw [mem_cellDirEdges, gridVid_succ_right] at hc
    rcases hc with hc | hc | hc | hc | hc | hc <;> simp only [Prod.mk.injEq] at hc <;>
      first
      | omega
      | (have e : gridVid nv i j = gridVid nv (i' + 1) j' := by rw [gridVid_succ_left]; omega
         obtain ⟨rfl, rfl⟩ := gridVid_inj (by omega) (by omega) e; omega)
  · intro h
    obtain ⟨i', rfl⟩ : ∃ i', i = i' + 1 := ⟨i - 1, by omega⟩
    refine mem_meshDirEdges.2 ⟨i', by omega, j, hj, mem_cellDirEdges.2 ?_⟩
    rw [gridVid_succ_right, gridVid_succ_left]
    right; left; rfl

/-- … and backwards by the cell on its higher-u side -/
theorem vEdge_bwd {nu nv i j : ℕ} (hv : 2 ≤ nv) (hi : i < nu) (hj : j < nv - 1) :
    (gridVid nv i (j + 1), gridVid nv i j) ∈ meshDirEdges nu nv ↔ i < nu - 1 := by
  constructor
  · intro h
    obtain ⟨i', hi', j', hj', hc⟩ := mem_meshDirEdges.1 h
    rw [mem_cellDirEdges, gridVid_succ_right] at hc
    rcases hc with hc | hc | hc | hc | hc | hc <;> simp only [Prod.mk.injEq] at hc <;>
      first
      | omega
      | (obtain ⟨rfl, rfl⟩ := gridVid_inj (by omega) (by omega) hc.2; exact hi')
  · intro h
    refine mem_meshDirEdges.2 ⟨i, h, j, hj, mem_cellDirEdges.2 ?_⟩
    rw [gridVid_succ_right]
    right; right; right; right; right; rfl

/-- every cell diagonal is used in both directions -/
theorem diag_both {nu nv i j : ℕ} (hi : i < nu - 1) (hj : j < nv - 1) :
    (gridVid nv i j, gridVid nv (i + 1) (j + 1)) ∈ meshDirEdges nu nv ∧
    (gridVid nv (i + 1) (j + 1), gridVid nv i j) ∈ meshDirEdges nu nv := by
  have e : gridVid nv (i + 1) (j + 1) = gridVid nv i j + nv + 1 := by
    rw [gridVid_succ_left, gridVid_succ_right]; omega
  rw [e]
  exact ⟨mem_meshDirEdges.2 ⟨i, hi, j, hj, mem_cellDirEdges.2 (by right; right; right; left; rfl)⟩,
         mem_meshDirEdges.2 ⟨i, hi, j, hj, mem_cellDirEdges.2 (by right; right; left; rfl)⟩⟩

end Geomdl.Mesh
