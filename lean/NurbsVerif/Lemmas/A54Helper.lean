import NurbsVerif.Lemmas.A54Order
import NurbsVerif.Lemmas.RefineX

/-! The list `X` that `helpers.knot_refinement` computes satisfies the hypotheses of the A5.4 theorems;
    hence the whole-call model with A5.4 as coded equals the specification-level model. -/
namespace Geomdl
open Blossom
variable {K : Type} [Field K] [LinearOrder K] [IsStrictOrderedRing K]

theorem flatMap_replicate_sorted (g : K → ℕ) : ∀ (l : List K), l.Pairwise (· < ·) →
    (l.flatMap (fun a => List.replicate (g a) a)).Pairwise (· ≤ ·) := by
  intro l
  induction l with
  | nil => intro _; simp
  | cons a l ih =>
    intro h
    rw [List.pairwise_cons] at h
    rw [List.flatMap_cons, List.pairwise_append]
    refine ⟨?_, ih h.2, ?_⟩
    · rw [List.pairwise_replicate]; exact Or.inr (le_refl _)
    · intro x hx y hy
      rw [List.mem_replicate] at hx
      rw [List.mem_flatMap] at hy
      obtain ⟨b, hb, hy⟩ := hy
      rw [List.mem_replicate] at hy
      rw [hx.2, hy.2]
      exact le_of_lt (h.1 b hb)

/-- the list `X` generated from a base list inside the domain: sorted, strictly inside `[U_p, U_n)`,
    tolerance separated from the old knots, final multiplicities `≤ p` -/
theorem genX_hyps (p d : ℕ) (U : List K) (P : List (List K)) (L : List K) (density : ℕ) (tol : K)
    (hwf : CurveWF p d U P) (hend : ∀ i, P.length ≤ i → fnOf U i = fnOf U P.length)
    (hL : ∀ a ∈ L, fnOf U p ≤ a ∧ a ≤ fnOf U P.length)
    (h0 : 0 ≤ tol) (hsep : SepBy tol (U ++ genKnots L density)) :
    (genX p U L density tol).Pairwise (· ≤ ·) ∧
    (∀ x ∈ genX p U L density tol, fnOf U p ≤ x ∧ x < fnOf U P.length) ∧
    SepBy tol (U ++ genX p U L density tol) ∧
    (∀ x ∈ genX p U L density tol, U.count x + (genX p U L density tol).count x ≤ p) := by
  have hmulS : ∀ x, x ∈ U ++ genKnots L density → findMultiplicity x U tol = U.count x := by
    intro x hx
    exact findMultiplicity_eq_count tol h0 x U (fun y hy => hsep x hx y (by simp [hy]))
  refine ⟨flatMap_replicate_sorted _ _ (genKnots_sorted L density), ?_, ?_, ?_⟩
  · intro x hx
    rw [mem_genX] at hx
    obtain ⟨hb1, hb2⟩ := genKnots_bounds L density _ _ hL x hx.1
    refine ⟨hb1, lt_of_le_of_ne hb2 ?_⟩
    intro e
    have e : x = fnOf U P.length := e
    have hc := count_end p d U P hwf hend
    have hm := hmulS x (List.mem_append_right _ hx.1)
    have := hx.2
    rw [hm, e] at this
    omega
  · apply hsep.mono
    intro a ha
    rcases List.mem_append.mp ha with h | h
    · exact List.mem_append_left _ h
    · rw [mem_genX] at h; exact List.mem_append_right _ h.1
  · intro x hx
    rw [count_genX]
    rw [mem_genX] at hx
    rw [if_pos hx.1, hmulS x (List.mem_append_right _ hx.1)]
    have := hx.2
    rw [hmulS x (List.mem_append_right _ hx.1)] at this
    show U.count x + (p - U.count x) ≤ p
    omega

/-- **`helpers.knot_refinement` with A5.4 as coded = the specification-level model** (explicit
    `knot_list` / `add_knot_list` inside the domain, any density): for a well-formed curve clamped at
    both ends whose knots occur at most `p + 1` times and are, together with the bisection knots,
    tolerance separated, the literal transcription of the code (`knotRefinementA54`: the list `X`, then
    the A5.4 loops) returns exactly what the fold of single knot insertions (`knotRefinementOf`) returns. -/
theorem knotRefinementA54_eq_model (p d : ℕ) (U : List K) (P : List (List K)) (kl : Option (List K))
    (add : List K) (density : ℕ) (tol : K)
    (hwf : CurveWF p d U P) (hend : ∀ i, P.length ≤ i → fnOf U i = fnOf U P.length)
    (hclamp : fnOf U 0 = fnOf U p) (hmult : ∀ y ∈ U, U.count y ≤ p + 1)
    (hkl : ∀ l, kl = some l → ∀ a ∈ l, fnOf U p ≤ a ∧ a ≤ fnOf U P.length)
    (hadd : ∀ a ∈ add, fnOf U p ≤ a ∧ a ≤ fnOf U P.length)
    (h0 : 0 ≤ tol) (hsep : SepBy tol (U ++ genKnots (baseList p U kl add) density)) :
    knotRefinementA54 p U P kl add density tol = knotRefinementOf p U P kl add density tol := by
  have hL : ∀ a ∈ baseList p U kl add, fnOf U p ≤ a ∧ a ≤ fnOf U P.length := by
    intro a ha
    rcases List.mem_append.mp ha with h' | h'
    · cases kl with
      | none => exact slice_bounds p d U P hwf a h'
      | some l => exact hkl l rfl a h'
    · exact hadd a h'
  obtain ⟨g1, g2, g3, g4⟩ := genX_hyps p d U P _ density tol hwf hend hL h0 hsep
  unfold knotRefinementA54 knotRefinementOf
  simp only
  rw [refineXOf_eq_genX]
  by_cases hX : (genX p U (baseList p U kl add) density tol).isEmpty = true
  · rw [if_pos hX, if_pos hX]
  · rw [if_neg hX, if_neg hX]
    have hne : genX p U (baseList p U kl add) density tol ≠ [] := by
      intro e; rw [e] at hX; simp at hX
    rw [refineA54_eq_fold p d U P _ tol hwf hne g1 g2 h0 g3 g4 hclamp hmult]

/-- the default call (`knot_list = U[p:-p]`, no additional knots) -/
theorem knotRefinementA54_eq_model_default (p d : ℕ) (U : List K) (P : List (List K)) (density : ℕ) (tol : K)
    (hwf : CurveWF p d U P) (hend : ∀ i, P.length ≤ i → fnOf U i = fnOf U P.length)
    (hclamp : fnOf U 0 = fnOf U p) (hmult : ∀ y ∈ U, U.count y ≤ p + 1)
    (h0 : 0 ≤ tol) (hsep : SepBy tol (U ++ refineKnots p U density)) :
    knotRefinementA54 p U P none [] density tol = knotRefinement p U P density tol := by
  have e : knotRefinement p U P density tol = knotRefinementOf p U P none [] density tol := by
    unfold knotRefinement knotRefinementOf refineX refineXOf
    simp only [List.append_nil]
  rw [e]
  apply knotRefinementA54_eq_model p d U P none [] density tol hwf hend hclamp hmult
    (fun l hl => by cases hl) (fun a ha => by simp at ha) h0
  have : baseList p U none [] = (U.drop p).take (U.length - 2 * p) := by simp [baseList]
  rw [this]
  exact hsep

end Geomdl
