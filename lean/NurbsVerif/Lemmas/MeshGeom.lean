import NurbsVerif.Lemmas.Mesh
import NurbsVerif.Model.Basis
import Mathlib.Data.List.Nodup

/-!
# Parameters, orientation, areas, edges, export offsets and facet normals of the tessellation (C15)
-/
namespace Geomdl.Mesh
variable {K : Type} [Field K] [LinearOrder K] [IsStrictOrderedRing K]

/-! ### vertex parameters -/

/-- the accumulated parameter is `i · jump` (exact arithmetic) -/
theorem accParam_eq (jump : K) (i : ℕ) : accParam jump i = (i : K) * jump := by
  induction i with
  | zero => simp [accParam]
  | succ i ih => simp only [accParam, ih]; push_cast; ring

theorem meshJump_pos {size s : ℕ} (h : 2 ≤ size) (hs : 0 < s) : (0 : K) < meshJump size s := by
  unfold meshJump
  have h1 : (0 : K) < ((size - 1 : ℕ) : K) := by exact_mod_cast (by omega : 0 < size - 1)
  have h2 : (0 : K) < (s : K) := by exact_mod_cast hs
  positivity

theorem accParam_strictMono {jump : K} (hj : 0 < jump) : StrictMono (accParam jump) := by
  apply strictMono_nat_of_lt_succ
  intro n
  simp only [accParam]; linarith

/-- the last grid line is at parameter 1 when the spacing divides `size - 1` -/
theorem accParam_last (k s : ℕ) (hk : 0 < k) (hs : 0 < s) :
    accParam (meshJump (k * s + 1) s : K) k = 1 := by
  rw [accParam_eq]; unfold meshJump
  have h1 : (k : K) ≠ 0 := by exact_mod_cast hk.ne'
  have h2 : (s : K) ≠ 0 := by exact_mod_cast hs.ne'
  simp only [Nat.add_sub_cancel]; push_cast
  field_simp

/-- the parameter stored in grid line `i` is the parameter `linspace(0, 1, size)[i·s]` at which the
    evaluated points of that line were computed -/
theorem accParam_eq_linspace (size s i : ℕ) (hi : i * s < size) :
    accParam (meshJump size s : K) i = (linspaceCore (0 : K) 1 size).getD (i * s) 0 := by
  rw [accParam_eq]; unfold meshJump linspaceCore
  rw [List.getD_eq_getElem?_getD, List.getElem?_map, List.getElem?_range hi]
  simp only [Option.map_some, Option.getD_some]
  push_cast; ring

theorem meshVertices_length (su sv s : ℕ) :
    (meshVertices (K := K) su sv s).length = gridCount su s * gridCount sv s := by
  unfold meshVertices; rw [grid2_length]

theorem meshVertices_getElem? (su sv s i j : ℕ) (hi : i < gridCount su s) (hj : j < gridCount sv s) :
    (meshVertices (K := K) su sv s)[gridVid (gridCount sv s) i j]? =
      some ((accParam (meshJump su s) i, accParam (meshJump sv s) j), j * s + (i * s) * sv) := by
  unfold meshVertices gridVid; rw [grid2_getElem? _ _ _ _ _ hi hj]

/-- with at least two grid lines per direction `make_triangle_mesh` returns all grid vertices (ids in
    list order) and the cell triangles unchanged -/
theorem makeTriangleMesh_eq (su sv s : ℕ) (hu : 2 ≤ gridCount su s) (hv : 2 ≤ gridCount sv s) :
    makeTriangleMesh (K := K) su sv s =
      ({ uv := (meshVertices (K := K) su sv s).map (·.1), src := (meshVertices (K := K) su sv s).map (·.2),
         faces := meshTriangles (gridCount su s) (gridCount sv s) } : TriMesh K) := by
  have hl := meshVertices_length (K := K) su sv s
  unfold makeTriangleMesh
  simp only [hl, fixNumbering_grid hu hv]
  rw [← hl, filterMap_getElem?_range]

/-- parameter pair of vertex id `k` of the mesh -/
def meshUV (su sv s : ℕ) (k : ℕ) : K × K := ((makeTriangleMesh (K := K) su sv s).uv)[k]?.getD (0, 0)

theorem meshUV_gridVid (su sv s i j : ℕ) (hu : 2 ≤ gridCount su s) (hv : 2 ≤ gridCount sv s)
    (hi : i < gridCount su s) (hj : j < gridCount sv s) :
    meshUV (K := K) su sv s (gridVid (gridCount sv s) i j) =
      ((i : K) * meshJump su s, (j : K) * meshJump sv s) := by
  unfold meshUV
  rw [makeTriangleMesh_eq su sv s hu hv]
  simp only [List.getElem?_map, meshVertices_getElem? su sv s i j hi hj, Option.map_some, Option.getD_some,
    accParam_eq]

/-! ### orientation and area -/

/-- both triangles of every cell have doubled signed parametric area `u_jump · v_jump` -/
theorem triArea2_mesh (su sv s : ℕ) (hu : 2 ≤ gridCount su s) (hv : 2 ≤ gridCount sv s)
    {t : List ℕ} (ht : t ∈ meshTriangles (gridCount su s) (gridCount sv s)) :
    triArea2 (meshUV (K := K) su sv s) t = meshJump su s * meshJump sv s := by
  obtain ⟨i, hi, j, hj, h⟩ := mem_meshTriangles.1 ht
  have e1 := meshUV_gridVid (K := K) su sv s i j hu hv (by omega) (by omega)
  have e2 := meshUV_gridVid (K := K) su sv s (i + 1) j hu hv (by omega) (by omega)
  have e3 := meshUV_gridVid (K := K) su sv s (i + 1) (j + 1) hu hv (by omega) (by omega)
  have e4 := meshUV_gridVid (K := K) su sv s i (j + 1) hu hv (by omega) (by omega)
  rcases h with rfl | rfl
  · simp only [triArea2, e1, e2, e3]; push_cast; ring
  · simp only [triArea2, e1, e3, e4]; push_cast; ring

theorem sum_map_const {α : Type} (l : List α) (f : α → K) (c : K) (h : ∀ x ∈ l, f x = c) :
    (l.map f).sum = (l.length : K) * c := by
  induction l with
  | nil => simp
  | cons a l ih =>
    rw [List.map_cons, List.sum_cons, ih (fun x hx => h x (List.mem_cons_of_mem _ hx)), h a List.mem_cons_self]
    simp only [List.length_cons]; push_cast; ring

/-- the doubled areas of all triangles sum to twice `((nu-1)·u_jump) · ((nv-1)·v_jump)` -/
theorem area_sum (su sv s : ℕ) (hu : 2 ≤ gridCount su s) (hv : 2 ≤ gridCount sv s) :
    ((meshTriangles (gridCount su s) (gridCount sv s)).map (triArea2 (meshUV (K := K) su sv s))).sum =
      2 * ((((gridCount su s - 1 : ℕ) : K) * meshJump su s) * (((gridCount sv s - 1 : ℕ) : K) * meshJump sv s)) := by
  rw [sum_map_const _ _ _ (fun t ht => triArea2_mesh su sv s hu hv ht), meshTriangles_length]
  push_cast; ring

/-! ### one cell: the two triangles partition it -/

/-- doubled signed area of `(a, b, p)` -/
def cellCross2 (a b p : K × K) : K := (b.1 - a.1) * (p.2 - a.2) - (p.1 - a.1) * (b.2 - a.2)

/-- closed, positively oriented triangle -/
def inTriangle (a b c p : K × K) : Prop := 0 ≤ cellCross2 a b p ∧ 0 ≤ cellCross2 b c p ∧ 0 ≤ cellCross2 c a p

/-- a point of the cell `[x0,x1]×[y0,y1]` lies in `(v1,v2,v3)` or in `(v1,v3,v4)` -/
theorem cell_cover (x0 x1 y0 y1 x y : K) (hx0 : x0 ≤ x) (hx1 : x ≤ x1) (hy0 : y0 ≤ y) (hy1 : y ≤ y1) :
    inTriangle (x0, y0) (x1, y0) (x1, y1) (x, y) ∨ inTriangle (x0, y0) (x1, y1) (x0, y1) (x, y) := by
  have hX : x0 ≤ x1 := le_trans hx0 hx1
  have hY : y0 ≤ y1 := le_trans hy0 hy1
  rcases le_total 0 ((x0 - x1) * (y - y1) - (x - x1) * (y0 - y1)) with h | h
  · left
    refine ⟨?_, ?_, ?_⟩ <;> simp only [cellCross2]
    · have := mul_nonneg (sub_nonneg.2 hX) (sub_nonneg.2 hy0); nlinarith
    · have := mul_nonneg (sub_nonneg.2 hx1) (sub_nonneg.2 hY); nlinarith
    · exact h
  · right
    refine ⟨?_, ?_, ?_⟩ <;> simp only [cellCross2]
    · nlinarith
    · have := mul_nonneg (sub_nonneg.2 hX) (sub_nonneg.2 hy1); nlinarith
    · have := mul_nonneg (sub_nonneg.2 hx0) (sub_nonneg.2 hY); nlinarith

/-- a point in both triangles of a cell lies on the common diagonal -/
theorem cell_overlap_diag (x0 x1 y0 y1 x y : K)
    (h1 : inTriangle (x0, y0) (x1, y0) (x1, y1) (x, y)) (h2 : inTriangle (x0, y0) (x1, y1) (x0, y1) (x, y)) :
    cellCross2 (x0, y0) (x1, y1) (x, y) = 0 := by
  obtain ⟨_, _, a⟩ := h1
  obtain ⟨b, _, _⟩ := h2
  simp only [cellCross2] at a b ⊢
  apply le_antisymm <;> nlinarith

/-- a point of a cell triangle lies in the cell (so triangles of different cells overlap at most in
    grid lines, the grid lines being strictly increasing) -/
theorem cell_tri_sub (x0 x1 y0 y1 x y : K) (hX : x0 < x1) (hY : y0 < y1)
    (h : inTriangle (x0, y0) (x1, y0) (x1, y1) (x, y) ∨ inTriangle (x0, y0) (x1, y1) (x0, y1) (x, y)) :
    x0 ≤ x ∧ x ≤ x1 ∧ y0 ≤ y ∧ y ≤ y1 := by
  have hX' : 0 < x1 - x0 := sub_pos.2 hX
  have hY' : 0 < y1 - y0 := sub_pos.2 hY
  rcases h with ⟨a, b, c⟩ | ⟨a, b, c⟩ <;> simp only [cellCross2] at a b c
  · have hy : y0 ≤ y := by
      by_contra hc; rw [not_le] at hc
      have := mul_pos hX' (sub_pos.2 hc); nlinarith
    have hx : x ≤ x1 := by
      by_contra hc; rw [not_le] at hc
      have := mul_pos (sub_pos.2 hc) hY'; nlinarith
    refine ⟨?_, hx, hy, ?_⟩
    · by_contra hc; rw [not_le] at hc
      have := mul_pos (sub_pos.2 hc) hY'
      have := mul_nonneg (sub_nonneg.2 hy) hX'.le
      nlinarith
    · by_contra hc; rw [not_le] at hc
      have := mul_pos (sub_pos.2 hc) hX'
      have := mul_nonneg (sub_nonneg.2 hx) hY'.le
      nlinarith
  · have hy : y ≤ y1 := by
      by_contra hc; rw [not_le] at hc
      have := mul_pos hX' (sub_pos.2 hc); nlinarith
    have hx : x0 ≤ x := by
      by_contra hc; rw [not_le] at hc
      have := mul_pos (sub_pos.2 hc) hY'; nlinarith
    refine ⟨hx, ?_, ?_, hy⟩
    · by_contra hc; rw [not_le] at hc
      have := mul_pos (sub_pos.2 hc) hY'
      have := mul_nonneg (sub_nonneg.2 hy) hX'.le
      nlinarith
    · by_contra hc; rw [not_le] at hc
      have := mul_pos (sub_pos.2 hc) hX'
      have := mul_nonneg (sub_nonneg.2 hx) hY'.le
      nlinarith

/-! ### edges and Euler's formula -/

theorem meshEdges_length (nu nv : ℕ) :
    (meshEdges nu nv).length = (nu - 1) * nv + nu * (nv - 1) + (nu - 1) * (nv - 1) := by
  unfold meshEdges; simp only [List.length_append, grid2_length]

/-- `V - E + F = 1` (written without subtraction) -/
theorem euler_grid (nu nv : ℕ) (hu : 1 ≤ nu) (hv : 1 ≤ nv) :
    nu * nv + (meshTriangles nu nv).length = (meshEdges nu nv).length + 1 := by
  rw [meshTriangles_length, meshEdges_length]
  obtain ⟨a, rfl⟩ : ∃ a, nu = a + 1 := ⟨nu - 1, by omega⟩
  obtain ⟨b, rfl⟩ : ∃ b, nv = b + 1 := ⟨nv - 1, by omega⟩
  simp only [Nat.add_sub_cancel]; ring

theorem mem_meshEdges {nu nv : ℕ} {e : ℕ × ℕ} :
    e ∈ meshEdges nu nv ↔
      (∃ i, i < nu - 1 ∧ ∃ j, j < nv ∧ (gridVid nv i j, gridVid nv (i + 1) j) = e) ∨
      (∃ i, i < nu ∧ ∃ j, j < nv - 1 ∧ (gridVid nv i j, gridVid nv i (j + 1)) = e) ∨
      (∃ i, i < nu - 1 ∧ ∃ j, j < nv - 1 ∧ (gridVid nv i j, gridVid nv (i + 1) (j + 1)) = e) := by
  unfold meshEdges; simp only [List.mem_append, mem_grid2, or_assoc]

/-- every (directed) edge of every face is a listed edge or the reverse of one -/
theorem face_edges_listed {nu nv : ℕ} {t : List ℕ} (ht : t ∈ meshTriangles nu nv) :
    ∀ e ∈ triDirEdges t, e ∈ meshEdges nu nv ∨ e.swap ∈ meshEdges nu nv := by
  obtain ⟨i, hi, j, hj, h⟩ := mem_meshTriangles.1 ht
  rcases h with rfl | rfl <;> intro e he <;>
    simp only [triDirEdges, List.mem_cons, List.not_mem_nil, or_false] at he
  · rcases he with rfl | rfl | rfl
    · exact Or.inl (mem_meshEdges.2 (Or.inl ⟨i, hi, j, by omega, rfl⟩))
    · exact Or.inl (mem_meshEdges.2 (Or.inr (Or.inl ⟨i + 1, by omega, j, hj, rfl⟩)))
    · exact Or.inr (mem_meshEdges.2 (Or.inr (Or.inr ⟨i, hi, j, hj, rfl⟩)))
  · rcases he with rfl | rfl | rfl
    · exact Or.inl (mem_meshEdges.2 (Or.inr (Or.inr ⟨i, hi, j, hj, rfl⟩)))
    · exact Or.inr (mem_meshEdges.2 (Or.inl ⟨i, hi, j + 1, by omega, rfl⟩))
    · exact Or.inr (mem_meshEdges.2 (Or.inr (Or.inl ⟨i, by omega, j, hj, rfl⟩)))

/-- every listed edge is an edge (in one of the two directions) of some face -/
theorem listed_edge_in_face {nu nv : ℕ} (hu : 2 ≤ nu) (hv : 2 ≤ nv) {e : ℕ × ℕ} (he : e ∈ meshEdges nu nv) :
    ∃ t ∈ meshTriangles nu nv, e ∈ triDirEdges t ∨ e.swap ∈ triDirEdges t := by
  rcases mem_meshEdges.1 he with ⟨i, hi, j, hj, rfl⟩ | ⟨i, hi, j, hj, rfl⟩ | ⟨i, hi, j, hj, rfl⟩
  · by_cases h : j + 1 < nv
    · exact ⟨_, mem_meshTriangles.2 ⟨i, hi, j, by omega, Or.inl rfl⟩, Or.inl (by simp [triDirEdges])⟩
    · obtain ⟨j', rfl⟩ : ∃ j', j = j' + 1 := ⟨j - 1, by omega⟩
      exact ⟨_, mem_meshTriangles.2 ⟨i, hi, j', by omega, Or.inr rfl⟩, Or.inr (by simp [triDirEdges])⟩
  · by_cases h : i + 1 < nu
    · exact ⟨_, mem_meshTriangles.2 ⟨i, by omega, j, hj, Or.inr rfl⟩, Or.inr (by simp [triDirEdges])⟩
    · obtain ⟨i', rfl⟩ : ∃ i', i = i' + 1 := ⟨i - 1, by omega⟩
      exact ⟨_, mem_meshTriangles.2 ⟨i', by omega, j, hj, Or.inl rfl⟩, Or.inl (by simp [triDirEdges])⟩
  · exact ⟨_, mem_meshTriangles.2 ⟨i, hi, j, hj, Or.inr rfl⟩, Or.inl (by simp [triDirEdges])⟩

/-! ### export / container offsets -/

theorem offsetFaces_length (base off : ℕ) (ms : List (ℕ × List (List ℕ))) :
    (offsetFaces base off ms).length = (ms.map (·.2.length)).sum := by
  induction ms generalizing off with
  | nil => simp [offsetFaces]
  | cons m ms ih => obtain ⟨nV, fs⟩ := m; simp [offsetFaces, ih]

/-- if every mesh references only its own vertices, every written index lies in
    `[base + off, base + off + total number of vertices)` -/
theorem offsetFaces_range (base off : ℕ) (ms : List (ℕ × List (List ℕ)))
    (h : ∀ m ∈ ms, ∀ t ∈ m.2, ∀ v ∈ t, v < m.1) :
    ∀ t ∈ offsetFaces base off ms, ∀ v ∈ t, base + off ≤ v ∧ v < base + off + meshTotalVerts ms := by
  induction ms generalizing off with
  | nil => intro t ht; simp [offsetFaces] at ht
  | cons m ms ih =>
    obtain ⟨nV, fs⟩ := m
    intro t ht v hv
    simp only [offsetFaces, List.mem_append, List.mem_map] at ht
    have htot : meshTotalVerts ((nV, fs) :: ms) = nV + meshTotalVerts ms := by simp [meshTotalVerts]
    rcases ht with ⟨t0, ht0, rfl⟩ | ht
    · obtain ⟨v0, hv0, rfl⟩ := List.mem_map.1 hv
      have := h (nV, fs) List.mem_cons_self t0 ht0 v0 hv0
      simp only at this
      omega
    · have := ih (off + nV) (fun m hm => h m (List.mem_cons_of_mem _ hm)) t ht v hv
      omega

/-- the faces of the first mesh occupy its own vertex block `[base + off, base + off + nV)` -/
theorem offsetFaces_head_block (base off nV : ℕ) (fs : List (List ℕ)) (ms : List (ℕ × List (List ℕ)))
    (h : ∀ t ∈ fs, ∀ v ∈ t, v < nV) (k : ℕ) (hk : k < fs.length) :
    ∀ v ∈ (offsetFaces base off ((nV, fs) :: ms)).getD k [], base + off ≤ v ∧ v < base + off + nV := by
  intro v hv
  simp only [offsetFaces] at hv
  rw [List.getD_eq_getElem?_getD, List.getElem?_append_left (by simpa using hk), List.getElem?_map] at hv
  rw [List.getElem?_eq_getElem hk] at hv
  simp only [Option.map_some, Option.getD_some, List.mem_map] at hv
  obtain ⟨v0, hv0, rfl⟩ := hv
  have := h _ (List.getElem_mem hk) v0 hv0
  omega

/-! ### STL facet normal -/

theorem triangleNormal_orth1 (p0 p1 p2 : List K) : triDot3 (triangleNormal p0 p1 p2) (triVecGen p0 p1) = 0 := by
  simp [triangleNormal, triVecCross, triVecGen, triDot3]; ring

theorem triangleNormal_orth2 (p0 p1 p2 : List K) : triDot3 (triangleNormal p0 p1 p2) (triVecGen p1 p2) = 0 := by
  simp [triangleNormal, triVecCross, triVecGen, triDot3]; ring

/-- `triangle_normal` (cross product of consecutive edges) is the usual `(p1 - p0) × (p2 - p0)` -/
theorem triangleNormal_eq (p0 p1 p2 : List K) :
    triangleNormal p0 p1 p2 = triVecCross (triVecGen p0 p1) (triVecGen p0 p2) := by
  simp [triangleNormal, triVecCross, triVecGen]
  refine ⟨?_, ?_, ?_⟩ <;> ring

/-! ### the edge list has no duplicates -/

theorem gridVid_succ_left (nv i j : ℕ) : gridVid nv (i + 1) j = gridVid nv i j + nv := by
  unfold gridVid; ring

theorem gridVid_succ_right (nv i j : ℕ) : gridVid nv i (j + 1) = gridVid nv i j + 1 := by
  unfold gridVid; ring

theorem gridVid_inj {nv i j i' j' : ℕ} (hj : j < nv) (hj' : j' < nv)
    (h : gridVid nv i j = gridVid nv i' j') : i = i' ∧ j = j' := by
  unfold gridVid at h
  have hm := congrArg (· % nv) h
  simp only [Nat.add_mul_mod_self_right, Nat.mod_eq_of_lt hj, Nat.mod_eq_of_lt hj'] at hm
  subst hm
  have hnv : 0 < nv := by omega
  have : i * nv = i' * nv := by omega
  exact ⟨Nat.eq_of_mul_eq_mul_right hnv this, rfl⟩

theorem grid2_nodup {α : Type} (n m : ℕ) (f : ℕ → ℕ → α)
    (hinj : ∀ i j i' j', i < n → j < m → i' < n → j' < m → f i j = f i' j' → i = i' ∧ j = j') :
    (meshGrid2 n m f).Nodup := by
  induction n with
  | zero => simp [meshGrid2]
  | succ n ih =>
    rw [grid2_succ, List.nodup_append]
    refine ⟨ih (fun i j i' j' hi hj hi' hj' => hinj i j i' j' (by omega) hj (by omega) hj'), ?_, ?_⟩
    · refine List.Nodup.map_on ?_ List.nodup_range
      intro a ha b hb hab
      exact (hinj n a n b (by omega) (List.mem_range.1 ha) (by omega) (List.mem_range.1 hb) hab).2
    · intro a ha b hb hab
      obtain ⟨i, hi, j, hj, rfl⟩ := mem_grid2.1 ha
      obtain ⟨j', hj', rfl⟩ := List.mem_map.1 hb
      have := (hinj i j n j' (by omega) hj (by omega) (List.mem_range.1 hj') hab).1
      omega

/-- the explicit edge list has no repetitions, so its length is the number of edges -/
theorem meshEdges_nodup (nu nv : ℕ) : (meshEdges nu nv).Nodup := by
  unfold meshEdges
  rw [List.nodup_append, List.nodup_append]
  refine ⟨⟨?_, ?_, ?_⟩, ?_, ?_⟩
  · apply grid2_nodup
    intro i j i' j' _ hj _ hj' h
    exact gridVid_inj hj hj' (Prod.mk.inj h).1
  · apply grid2_nodup
    intro i j i' j' _ hj _ hj' h
    exact gridVid_inj (by omega) (by omega) (Prod.mk.inj h).1
  · intro a ha b hb hab
    obtain ⟨i, hi, j, hj, rfl⟩ := mem_grid2.1 ha
    obtain ⟨i', hi', j', hj', rfl⟩ := mem_grid2.1 hb
    have h := Prod.mk.inj hab
    rw [gridVid_succ_left, gridVid_succ_right] at h
    omega
  · apply grid2_nodup
    intro i j i' j' _ hj _ hj' h
    exact gridVid_inj (by omega) (by omega) (Prod.mk.inj h).1
  · intro a ha b hb hab
    obtain ⟨i', hi', j', hj', rfl⟩ := mem_grid2.1 hb
    rcases List.mem_append.1 ha with ha | ha
    · obtain ⟨i, hi, j, hj, rfl⟩ := mem_grid2.1 ha
      have h := Prod.mk.inj hab
      rw [gridVid_succ_left, gridVid_succ_left, gridVid_succ_right] at h
      omega
    · obtain ⟨i, hi, j, hj, rfl⟩ := mem_grid2.1 ha
      have h := Prod.mk.inj hab
      rw [gridVid_succ_right, gridVid_succ_left, gridVid_succ_right] at h
      omega

/-! ### quads -/

theorem makeQuadFaces_length (su sv : ℕ) : (makeQuadFaces su sv).length = (su - 1) * (sv - 1) := by
  unfold makeQuadFaces; rw [grid2_length]

theorem mem_makeQuadFaces {su sv : ℕ} {t : List ℕ} :
    t ∈ makeQuadFaces su sv ↔ ∃ i, i < su - 1 ∧ ∃ j, j < sv - 1 ∧
      t = [gridVid sv i j, gridVid sv (i + 1) j, gridVid sv (i + 1) (j + 1), gridVid sv i (j + 1)] := by
  unfold makeQuadFaces
  rw [mem_grid2]
  constructor
  · rintro ⟨i, hi, j, hj, rfl⟩
    exact ⟨i, hi, j, hj, by simp [quadCell, gridVid, Nat.add_comm, Nat.add_left_comm, Nat.add_assoc]⟩
  · rintro ⟨i, hi, j, hj, rfl⟩
    exact ⟨i, hi, j, hj, by simp [quadCell, gridVid, Nat.add_comm, Nat.add_left_comm, Nat.add_assoc]⟩

theorem makeQuadFaces_index_lt {su sv : ℕ} {t : List ℕ} (ht : t ∈ makeQuadFaces su sv) :
    ∀ v ∈ t, v < su * sv := by
  obtain ⟨i, hi, j, hj, rfl⟩ := mem_makeQuadFaces.1 ht
  have h1 : gridVid sv i j < su * sv := gridVid_lt (by omega) (by omega)
  have h2 : gridVid sv (i + 1) j < su * sv := gridVid_lt (by omega) (by omega)
  have h3 : gridVid sv (i + 1) (j + 1) < su * sv := gridVid_lt (by omega) (by omega)
  have h4 : gridVid sv i (j + 1) < su * sv := gridVid_lt (by omega) (by omega)
  intro v hv; simp at hv; rcases hv with rfl | rfl | rfl | rfl <;> assumption

end Geomdl.Mesh
