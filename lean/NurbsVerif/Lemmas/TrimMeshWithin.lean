import NurbsVerif.Lemmas.TrimMeshGrid
import NurbsVerif.Lemmas.WindingSegment

/-!
# Trimmed tessellation (C15): "within one sampling cell"

A cell of the loop whose sample points (the four offset points of each of its four corners and the centres of its
two candidate triangles) are not separated by any trim edge is treated as a whole: dropped when it lies in a trim,
emitted as the two triangles of the untrimmed tessellation otherwise.  Only cells where some trim edge crosses a
segment between two of these sample points can be tessellated differently.
-/
set_option linter.unusedSectionVars false
namespace Geomdl.Trim
open Geomdl Geomdl.Mesh
variable {K : Type} [Field K] [LinearOrder K] [IsStrictOrderedRing K]

/-- the four offset points the routine may test for a grid vertex (one per position the vertex takes in a cell) -/
def offsetPoints (tols : K) (uv : K × K) : List (K × K) :=
  [cornerPoint tols 0 uv false, cornerPoint tols 1 uv false, cornerPoint tols 2 uv false, cornerPoint tols 3 uv false]

/-- the points at which the routine samples the trims for a cell with corner parameters `c1 … c4` -/
def cellSamples (tols : K) (c1 c2 c3 c4 : K × K) : List (K × K) :=
  offsetPoints tols c1 ++ offsetPoints tols c2 ++ offsetPoints tols c3 ++ offsetPoints tols c4
    ++ [triCenterUV c1 c2 c3, triCenterUV c1 c3 c4]

/-- no edge of any trim crosses the segment `p q` -/
def NoTrimCrossing (trims : List (Trim K)) (p q : K × K) : Prop :=
  ∀ tr ∈ trims, ∀ e ∈ polySegments tr.pts, ¬ Crosses e.1 e.2 p q

theorem inSomeTrim_iff_of_noCrossing (trims : List (Trim K)) (hcl : ∀ tr ∈ trims, tr.pts.head? = tr.pts.getLast?)
    (p q : K × K) (h : NoTrimCrossing trims p q) : InSomeTrim trims q ↔ InSomeTrim trims p := by
  have e : ∀ tr ∈ trims, wnPoly p tr.pts = wnPoly q tr.pts := fun tr htr =>
    wnPoly_eq_of_no_crossing p q tr.pts (hcl tr htr) (h tr htr)
  constructor
  · rintro ⟨tr, htr, hh⟩; exact ⟨tr, htr, by rw [e tr htr]; exact hh⟩
  · rintro ⟨tr, htr, hh⟩; exact ⟨tr, htr, by rw [← e tr htr]; exact hh⟩

theorem nearInside_iff (tols : K) (trims : List (Trim K)) (uv : K × K) :
    NearInside tols trims uv ↔ ∃ s ∈ offsetPoints tols uv, InSomeTrim trims s := by
  constructor
  · rintro ⟨idx, hidx, tr, htr, hh⟩
    have : idx = 0 ∨ idx = 1 ∨ idx = 2 ∨ idx = 3 := by omega
    rcases this with rfl | rfl | rfl | rfl
    · exact ⟨_, by simp [offsetPoints], tr, htr, hh⟩
    · exact ⟨_, by simp [offsetPoints], tr, htr, hh⟩
    · exact ⟨_, by simp [offsetPoints], tr, htr, hh⟩
    · exact ⟨_, by simp [offsetPoints], tr, htr, hh⟩
  · rintro ⟨s, hs, tr, htr, hh⟩
    simp only [offsetPoints, List.mem_cons, List.not_mem_nil, or_false] at hs
    rcases hs with rfl | rfl | rfl | rfl
    · exact ⟨0, by omega, tr, htr, hh⟩
    · exact ⟨1, by omega, tr, htr, hh⟩
    · exact ⟨2, by omega, tr, htr, hh⟩
    · exact ⟨3, by omega, tr, htr, hh⟩

/-- **Within one sampling cell.**  All trims non-reversed closed polylines.  If no trim edge crosses any segment
    from the hub sample point `p0` (the offset point of the first corner that this cell tests) to another sample
    point of the cell `(i, j)`, then the cell is treated as a whole, according to where `p0` lies:
    in a trim - the call returns nothing; in no trim - it returns exactly the two triangles of the untrimmed
    tessellation. -/
theorem loopCell_whole (tt : TrimTol K) (sq : K → K) (trims : List (Trim K)) (hnr : ∀ tr ∈ trims, tr.reversed = false)
    (hcl : ∀ tr ∈ trims, tr.pts.head? = tr.pts.getLast?)
    (uvs : List (K × K)) (nv : ℕ) (st : TrimLoop K) (hst : FlagsOK tt.tols trims uvs st.flags) (i j : ℕ)
    (hno : ∀ s ∈ cellSamples tt.tols (uvs.getD (j + i * nv) (0, 0)) (uvs.getD (j + (i + 1) * nv) (0, 0))
        (uvs.getD (j + 1 + (i + 1) * nv) (0, 0)) (uvs.getD (j + 1 + i * nv) (0, 0)),
      NoTrimCrossing trims (cornerPoint tt.tols 0 (uvs.getD (j + i * nv) (0, 0)) false) s) :
    (InSomeTrim trims (cornerPoint tt.tols 0 (uvs.getD (j + i * nv) (0, 0)) false) →
      (loopCell tt sq trims uvs nv st (i, j)).verts = [] ∧ (loopCell tt sq trims uvs nv st (i, j)).tris = []) ∧
    (¬ InSomeTrim trims (cornerPoint tt.tols 0 (uvs.getD (j + i * nv) (0, 0)) false) →
      (loopCell tt sq trims uvs nv st (i, j)).tris.map (·.2) = polygonTriangulate (quadCell nv i j) ∧
      (loopCell tt sq trims uvs nv st (i, j)).tris
        = [(st.tidx, [j + i * nv, j + (i + 1) * nv, j + 1 + (i + 1) * nv]),
           (st.tidx + 1, [j + i * nv, j + 1 + (i + 1) * nv, j + 1 + i * nv])]) := by
  have same : ∀ s ∈ cellSamples tt.tols (uvs.getD (j + i * nv) (0, 0)) (uvs.getD (j + (i + 1) * nv) (0, 0))
      (uvs.getD (j + 1 + (i + 1) * nv) (0, 0)) (uvs.getD (j + 1 + i * nv) (0, 0)),
      (InSomeTrim trims s ↔ InSomeTrim trims (cornerPoint tt.tols 0 (uvs.getD (j + i * nv) (0, 0)) false)) :=
    fun s hs => inSomeTrim_iff_of_noCrossing trims hcl _ s (hno s hs)
  constructor
  · intro hin
    apply loopCell_omitted tt sq trims hnr uvs nv st i j
    · exact hin
    · exact (same _ (by simp [cellSamples, offsetPoints])).mpr hin
    · exact (same _ (by simp [cellSamples, offsetPoints])).mpr hin
    · exact (same _ (by simp [cellSamples, offsetPoints])).mpr hin
  · intro hout
    have near : ∀ c, (∀ s ∈ offsetPoints tt.tols c, s ∈ cellSamples tt.tols (uvs.getD (j + i * nv) (0, 0))
        (uvs.getD (j + (i + 1) * nv) (0, 0)) (uvs.getD (j + 1 + (i + 1) * nv) (0, 0)) (uvs.getD (j + 1 + i * nv) (0, 0))) →
        ¬ NearInside tt.tols trims c := by
      intro c hc hn
      obtain ⟨s, hs, hin⟩ := (nearInside_iff tt.tols trims c).mp hn
      exact hout ((same s (hc s hs)).mp hin)
    have r := loopCell_untrimmed tt sq trims hnr uvs nv st hst i j
      (near _ (fun s hs => by simp only [cellSamples, List.mem_append]; tauto))
      (near _ (fun s hs => by simp only [cellSamples, List.mem_append]; tauto))
      (near _ (fun s hs => by simp only [cellSamples, List.mem_append]; tauto))
      (near _ (fun s hs => by simp only [cellSamples, List.mem_append]; tauto))
      (fun hin => hout ((same _ (by simp [cellSamples])).mp hin))
      (fun hin => hout ((same _ (by simp [cellSamples])).mp hin))
    exact ⟨r.2.2, r.2.1⟩

/-- the same for the cell loop as a whole: the trace entry of cell `(i, j)` -/
theorem trimCells_cell_whole (tt : TrimTol K) (sq : K → K) (trims : List (Trim K)) (hnr : ∀ tr ∈ trims, tr.reversed = false)
    (hcl : ∀ tr ∈ trims, tr.pts.head? = tr.pts.getLast?) (uvs : List (K × K)) (nu nv i j : ℕ)
    (hi : i < nu - 1) (hj : j < nv - 1)
    (hno : ∀ s ∈ cellSamples tt.tols (uvs.getD (j + i * nv) (0, 0)) (uvs.getD (j + (i + 1) * nv) (0, 0))
        (uvs.getD (j + 1 + (i + 1) * nv) (0, 0)) (uvs.getD (j + 1 + i * nv) (0, 0)),
      NoTrimCrossing trims (cornerPoint tt.tols 0 (uvs.getD (j + i * nv) (0, 0)) false) s) :
    ∃ r, (trimCells tt sq trims uvs nu nv).trace[j + i * (nv - 1)]? = some r ∧
      (InSomeTrim trims (cornerPoint tt.tols 0 (uvs.getD (j + i * nv) (0, 0)) false) → r.verts = [] ∧ r.tris = []) ∧
      (¬ InSomeTrim trims (cornerPoint tt.tols 0 (uvs.getD (j + i * nv) (0, 0)) false) →
        r.tris.map (·.2) = polygonTriangulate (quadCell nv i j)) := by
  refine ⟨_, trimCells_trace tt sq trims uvs nu nv i j hi hj, ?_⟩
  have h := loopCell_whole tt sq trims hnr hcl uvs nv _
    (flagsOK_stateAt tt sq trims hnr uvs nv (meshGrid2 (nu - 1) (nv - 1) fun i j => (i, j)) (j + i * (nv - 1))) i j hno
  exact ⟨h.1, fun ho => (h.2 ho).1⟩

theorem trimCells_cell_omitted (tt : TrimTol K) (sq : K → K) (trims : List (Trim K)) (hnr : ∀ tr ∈ trims, tr.reversed = false)
    (uvs : List (K × K)) (nu nv i j : ℕ) (hi : i < nu - 1) (hj : j < nv - 1)
    (h1 : InSomeTrim trims (cornerPoint tt.tols 0 (uvs.getD (j + i * nv) (0, 0)) false))
    (h2 : InSomeTrim trims (cornerPoint tt.tols 1 (uvs.getD (j + (i + 1) * nv) (0, 0)) false))
    (h3 : InSomeTrim trims (cornerPoint tt.tols 2 (uvs.getD (j + 1 + (i + 1) * nv) (0, 0)) false))
    (h4 : InSomeTrim trims (cornerPoint tt.tols 3 (uvs.getD (j + 1 + i * nv) (0, 0)) false)) :
    ∃ r, (trimCells tt sq trims uvs nu nv).trace[j + i * (nv - 1)]? = some r ∧ r.verts = [] ∧ r.tris = [] :=
  ⟨_, trimCells_trace tt sq trims uvs nu nv i j hi hj, loopCell_omitted tt sq trims hnr uvs nv _ i j h1 h2 h3 h4⟩

theorem trimCells_cell_untrimmed (tt : TrimTol K) (sq : K → K) (trims : List (Trim K)) (hnr : ∀ tr ∈ trims, tr.reversed = false)
    (uvs : List (K × K)) (nu nv i j : ℕ) (hi : i < nu - 1) (hj : j < nv - 1)
    (h1 : ¬ NearInside tt.tols trims (uvs.getD (j + i * nv) (0, 0)))
    (h2 : ¬ NearInside tt.tols trims (uvs.getD (j + (i + 1) * nv) (0, 0)))
    (h3 : ¬ NearInside tt.tols trims (uvs.getD (j + 1 + (i + 1) * nv) (0, 0)))
    (h4 : ¬ NearInside tt.tols trims (uvs.getD (j + 1 + i * nv) (0, 0)))
    (hc1 : ¬ InSomeTrim trims (triCenterUV (uvs.getD (j + i * nv) (0, 0)) (uvs.getD (j + (i + 1) * nv) (0, 0))
      (uvs.getD (j + 1 + (i + 1) * nv) (0, 0))))
    (hc2 : ¬ InSomeTrim trims (triCenterUV (uvs.getD (j + i * nv) (0, 0)) (uvs.getD (j + 1 + (i + 1) * nv) (0, 0))
      (uvs.getD (j + 1 + i * nv) (0, 0)))) :
    ∃ r, (trimCells tt sq trims uvs nu nv).trace[j + i * (nv - 1)]? = some r ∧
      r.verts = [(j + i * nv, uvs.getD (j + i * nv) (0, 0)), (j + (i + 1) * nv, uvs.getD (j + (i + 1) * nv) (0, 0)),
         (j + 1 + (i + 1) * nv, uvs.getD (j + 1 + (i + 1) * nv) (0, 0)), (j + 1 + i * nv, uvs.getD (j + 1 + i * nv) (0, 0))] ∧
      r.tris.map (·.2) = polygonTriangulate (quadCell nv i j) := by
  have h := loopCell_untrimmed tt sq trims hnr uvs nv _
    (flagsOK_stateAt tt sq trims hnr uvs nv (meshGrid2 (nu - 1) (nv - 1) fun i j => (i, j)) (j + i * (nv - 1)))
    i j h1 h2 h3 h4 hc1 hc2
  exact ⟨_, trimCells_trace tt sq trims uvs nu nv i j hi hj, h.1, h.2.2⟩

/-- a new vertex lies within `tol` (per coordinate) of a point of a cell edge (extended by the parameter tolerance) -/
theorem isHit_snap_close (tt : TrimTol K) (htol : 0 ≤ tt.tol) (c1 c2 c3 c4 : K × K) (is : ℕ × K × (K × K))
    (h : IsHit tt c1 c2 c3 c4 is) :
    ∃ a b t, (is.1, a, b) ∈ cellEdges c1 c2 c3 c4 ∧ 0 - tt.tol < t ∧ t < tt.hi ∧
      |(snapUV tt.tol is.2.2).1 - (rayEval2 a b t).1| ≤ tt.tol ∧ |(snapUV tt.tol is.2.2).2 - (rayEval2 a b t).2| ≤ tt.tol := by
  obtain ⟨a, b, he, h1, h2, h3⟩ := h
  refine ⟨a, b, is.2.1, he, h1, h2, ?_, ?_⟩
  · rw [← h3]; exact snap1_close tt.tol _ htol
  · rw [← h3]; exact snap1_close tt.tol _ htol

end Geomdl.Trim
