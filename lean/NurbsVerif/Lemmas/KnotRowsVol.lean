import NurbsVerif.Lemmas.KnotRows

/-! List-of-rows branches, part 2: the gather / scatter of `operations.*` for volumes (`volRows`,
    `volUnrows`, `mapVolRows`) against the per-iso-curve formulation `mapVol`: if every iso-curve
    (column) of `F rows` is `f` of that iso-curve, then `mapVolRows … F = mapVol … f`. -/
namespace Geomdl
namespace Rows
open RemInv
variable {K : Type} [Field K] [LinearOrder K] [IsStrictOrderedRing K]

/-- all rows have `m` points -/
def RectW (m : ℕ) (R : List (List (List K))) : Prop := ∀ row ∈ R, row.length = m

theorem RectW.rowGet {m : ℕ} {R : List (List (List K))} (h : RectW m R) (i : ℕ) (hi : i < R.length) :
    (rowGet R i).length = m := by
  unfold Geomdl.rowGet
  rw [List.getD_eq_getElem?_getD, List.getElem?_eq_getElem hi]
  exact h _ (List.getElem_mem hi)

theorem rectW_of_get {m : ℕ} {R : List (List (List K))} (h : ∀ i, i < R.length → (rowGet R i).length = m) :
    RectW m R := by
  intro row hrow
  obtain ⟨i, hi, rfl⟩ := List.getElem_of_mem hrow
  have := h i hi
  unfold Geomdl.rowGet at this
  rwa [List.getD_eq_getElem?_getD, List.getElem?_eq_getElem hi] at this

theorem rowGet_map_range (g : ℕ → List (List K)) (n i : ℕ) (h : i < n) :
    rowGet ((List.range n).map g) i = g i := by
  unfold rowGet
  exact getD_map_range g n i [] h

theorem headD_mem_length' {m : ℕ} {R : List (List (List K))} (h : RectW m R) (hne : 0 < R.length) :
    (R.headD []).length = m := by
  cases R with
  | nil => simp at hne
  | cons a t => exact h a (by simp)

/-! ### the gather -/

theorem volRows0_length (su sv sw : ℕ) (P : List (List K)) : (volRows 0 su sv sw P).length = su := by
  simp [volRows]

theorem volRows1_length (su sv sw : ℕ) (P : List (List K)) : (volRows 1 su sv sw P).length = sv := by
  simp [volRows]

theorem volRows2_length (dir su sv sw : ℕ) (hdir : 2 ≤ dir) (P : List (List K)) :
    (volRows dir su sv sw P).length = sw := by
  unfold volRows
  rw [if_neg (by omega), if_neg (by omega)]; simp

theorem volRows0_rect (su sv sw : ℕ) (P : List (List K)) : RectW (sv * sw) (volRows 0 su sv sw P) := by
  intro row hrow
  unfold volRows at hrow
  rw [if_pos rfl] at hrow
  obtain ⟨u, _, rfl⟩ := List.mem_map.mp hrow
  rw [length_tab2, Nat.mul_comm]

theorem volRows1_rect (su sv sw : ℕ) (P : List (List K)) : RectW (su * sw) (volRows 1 su sv sw P) := by
  intro row hrow
  unfold volRows at hrow
  rw [if_neg (by omega), if_pos rfl] at hrow
  obtain ⟨u, _, rfl⟩ := List.mem_map.mp hrow
  rw [length_tab2, Nat.mul_comm]

theorem volRows2_rect (dir su sv sw : ℕ) (hdir : 2 ≤ dir) (P : List (List K)) :
    RectW (su * sv) (volRows dir su sv sw P) := by
  intro row hrow
  unfold volRows at hrow
  rw [if_neg (by omega), if_neg (by omega)] at hrow
  obtain ⟨u, _, rfl⟩ := List.mem_map.mp hrow
  simp

/-- iso-curve `(v, w)` of the u-rows is the u-line of the net -/
theorem isoCol_volRows0 (su sv sw : ℕ) (P : List (List K)) (v w : ℕ) (hv : v < sv) (hw : w < sw) :
    isoCol (v + sv * w) (volRows 0 su sv sw P) = lineU su sv P v w := by
  unfold volRows lineU
  rw [if_pos rfl, isoCol_map_range]
  apply List.map_congr_left
  intro u _
  unfold ptsGet
  rw [getD_tab2 _ hw hv]
  congr 1; ring

theorem isoCol_volRows1 (su sv sw : ℕ) (P : List (List K)) (u w : ℕ) (hu : u < su) (hw : w < sw) :
    isoCol (u + su * w) (volRows 1 su sv sw P) = lineV su sv P u w := by
  unfold volRows lineV
  rw [if_neg (by omega), if_pos rfl, isoCol_map_range]
  apply List.map_congr_left
  intro v _
  unfold ptsGet
  rw [getD_tab2 _ hw hu]
  congr 1; ring

theorem isoCol_volRows2 (dir su sv sw : ℕ) (hdir : 2 ≤ dir) (P : List (List K)) (u v : ℕ) (hu : u < su) (hv : v < sv) :
    isoCol (v + sv * u) (volRows dir su sv sw P) = lineW su sv sw P u v := by
  unfold volRows lineW
  rw [if_neg (by omega), if_neg (by omega), isoCol_map_range]
  apply List.map_congr_left
  intro w _
  have hlt : v + sv * u < su * sv := flatIdx2_lt hu hv
  rw [ptsGet_map_range_lt _ _ _ hlt]
  congr 1; ring

/-! ### gather, one call on the rows, scatter = `mapVol` of the per-iso-curve function -/

theorem mapVolRows0_eq (su sv sw : ℕ) (P : List (List K)) (F : List (List (List K)) → List (List (List K)))
    (f : List (List K) → List (List K)) (hsv : 0 < sv) (hsw : 0 < sw)
    (hcol : ∀ v w, v < sv → w < sw → isoCol (v + sv * w) (F (volRows 0 su sv sw P)) = f (lineU su sv P v w)) :
    mapVolRows 0 su sv sw P F = mapVol 0 su sv sw P f := by
  rw [mapVol0_eq su sv sw P f hsv hsw]
  have hlen : (F (volRows 0 su sv sw P)).length = (f (lineU su sv P 0 0)).length := by
    rw [← hcol 0 0 hsv hsw, isoCol_length]
  unfold mapVolRows volUnrows
  simp only [if_pos rfl, hlen]
  apply Prod.ext
  · apply tab3_congr
    intro w hw u hu v hv
    show ptsGet (rowGet (F (volRows 0 su sv sw P)) u) (v + w * sv) = _
    rw [← ptsGet_isoCol, Nat.mul_comm w sv, hcol v w hv hw]
  · rfl

theorem mapVolRows1_eq (su sv sw : ℕ) (P : List (List K)) (F : List (List (List K)) → List (List (List K)))
    (f : List (List K) → List (List K)) (hsu : 0 < su) (hsw : 0 < sw)
    (hcol : ∀ u w, u < su → w < sw → isoCol (u + su * w) (F (volRows 1 su sv sw P)) = f (lineV su sv P u w)) :
    mapVolRows 1 su sv sw P F = mapVol 1 su sv sw P f := by
  rw [mapVol1_eq su sv sw P f hsu hsw]
  have hlen : (F (volRows 1 su sv sw P)).length = (f (lineV su sv P 0 0)).length := by
    rw [← hcol 0 0 hsu hsw, isoCol_length]
  unfold mapVolRows volUnrows
  simp only [if_neg (show ¬ (1 = 0) by omega), if_pos rfl, hlen]
  apply Prod.ext
  · apply tab3_congr
    intro w hw u hu v hv
    show ptsGet (rowGet (F (volRows 1 su sv sw P)) v) (u + w * su) = _
    rw [← ptsGet_isoCol, Nat.mul_comm w su, hcol u w hu hw]
  · rfl

/-- a row of `su * sv` points is its own `for u: for v:` table -/
theorem row_eq_tab2 (su sv : ℕ) (row : List (List K)) (h : row.length = su * sv) :
    row = tab2 su sv (fun u v => ptsGet row (v + sv * u)) :=
  (tab2_getD_self (α := List K) h).symm

theorem mapVolRows2_eq (dir su sv sw : ℕ) (hdir : 2 ≤ dir) (P : List (List K))
    (F : List (List (List K)) → List (List (List K)))
    (f : List (List K) → List (List K)) (hsu : 0 < su) (hsv : 0 < sv)
    (hw : RectW (su * sv) (F (volRows dir su sv sw P)))
    (hcol : ∀ u v, u < su → v < sv → isoCol (v + sv * u) (F (volRows dir su sv sw P)) = f (lineW su sv sw P u v)) :
    mapVolRows dir su sv sw P F = mapVol dir su sv sw P f := by
  rw [mapVol2_eq dir su sv sw hdir P f hsu hsv]
  have hlen : (F (volRows dir su sv sw P)).length = (f (lineW su sv sw P 0 0)).length := by
    rw [← hcol 0 0 hsu hsv, isoCol_length]
  unfold mapVolRows volUnrows
  simp only [if_neg (show ¬ (dir = 0) by omega), if_neg (show ¬ (dir = 1) by omega)]
  apply Prod.ext
  · show (List.range _).flatMap _ = tab3 _ su sv _
    rw [← hlen]
    unfold tab3
    apply List.flatMap_congr
    intro w hwr
    have hwl : w < (F (volRows dir su sv sw P)).length := List.mem_range.mp hwr
    rw [row_eq_tab2 su sv _ (hw.rowGet w hwl)]
    apply tab2_congr
    intro u hu v hv
    rw [← ptsGet_isoCol, hcol u v hu hv]
  · exact hlen

end Rows
end Geomdl
