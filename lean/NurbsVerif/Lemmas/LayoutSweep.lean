/-
  Lemmas for C13, part 4: what `sweep_vector` does to a homogeneous control point is the
  translation of the projected point (weights non-zero).
-/
import NurbsVerif.Model.Layout
import NurbsVerif.Model.Eval
import Mathlib.Algebra.Field.Basic
import Mathlib.Tactic.FieldSimp

namespace Geomdl
variable {K : Type} [Field K]

theorem project_pointTranslateW (vec xs : List K) (w : K) (hw : w ≠ 0) :
    project (pointTranslateW vec (xs ++ [w])) = pointTranslate vec (project (xs ++ [w])) := by
  unfold project pointTranslateW pointTranslate
  simp only [List.getLastD_concat, List.dropLast_concat, List.map_zipWith, List.zipWith_map_left]
  congr 1
  funext c t
  field_simp

theorem pointTranslateW_weight (vec xs : List K) (w : K) :
    (pointTranslateW vec (xs ++ [w])).getLastD 0 = w := by
  unfold pointTranslateW; simp

end Geomdl
