import NurbsVerif.Lemmas.DerivModel

/-! All derivative orders: the A3.3/A3.4 model `curveDersAt` returns the `k`-th derivative of the
    span polynomial for every `k` (zero above the degree). -/
namespace Geomdl
open Blossom Polynomial Finset
variable {K : Type} [Field K] [LinearOrder K] [IsStrictOrderedRing K]

/-- the scaled difference of Eq. 3.8 at level `q` (denominator spans `q` knots) -/
def dscal (U : ℕ → K) (q : ℕ) (c : ℕ → K) (m : ℕ) : K := (c m - c (m-1)) / (U (m+q) - U m)

/-- `k`-fold scaled differences with the factors `p, p-1, …` (the control points of the `k`-th
    derivative, as a function of the GLOBAL control point index) -/
def dIter (U : ℕ → K) (p : ℕ) : ℕ → (ℕ → K) → (ℕ → K)
  | 0, c => c
  | k+1, c => fun m => ((p - k : ℕ) : K) * dscal U (p - k) (dIter U p k c) m

/-! ### polynomial side -/

theorem polP_zero_fun (t : ℕ → K) (n q i : ℕ) : polP t q n (fun _ => (0 : K[X])) i = 0 := by
  have := polP_smul t 0 n q (fun _ => (1 : K[X])) i
  simpa using this

/-- the `k`-th derivative of the degree-`p` span polynomial is the degree-`(p-k)` span polynomial of
    the `k`-fold scaled differences, on the same span -/
theorem iterate_derivative_spanPoly (U : ℕ → K) (κ p : ℕ) (hsep : Sep U κ) (hp : p ≤ κ) (c : ℕ → K) :
    ∀ k, k ≤ p →
      derivative^[k] (polP U p p (fun m => C (c m)) κ)
        = polP U (p - k) (p - k) (fun m => C (dIter U p k c m)) κ := by
  intro k
  induction k with
  | zero => intro _; simp [dIter]
  | succ k ih =>
    intro hk
    rw [Function.iterate_succ_apply', ih (by omega)]
    rw [deriv_polP U κ hsep (p - k) (p - k) _ κ (by omega) (le_refl _) (by omega)]
    simp only [derivative_C]
    rw [polP_zero_fun, zero_add]
    have e1 : p - k - 1 = p - (k + 1) := by omega
    rw [e1]
    rw [← polP_smul]
    apply polP_congr
    intro j _ _
    unfold dl
    simp only [dIter, dscal]
    rw [← C_sub, ← C_mul, ← C_eq_natCast, ← C_mul]
    congr 1
    rw [div_eq_inv_mul]

/-- above the degree every derivative of the span polynomial vanishes -/
theorem iterate_derivative_spanPoly_above (U : ℕ → K) (κ p : ℕ) (hsep : Sep U κ) (hp : p ≤ κ) (c : ℕ → K)
    (k : ℕ) (hk : p < k) : derivative^[k] (polP U p p (fun m => C (c m)) κ) = 0 := by
  obtain ⟨e, rfl⟩ : ∃ e, k = e + 1 + p := ⟨k - 1 - p, by omega⟩
  rw [Function.iterate_add_apply, iterate_derivative_spanPoly U κ p hsep hp c p (le_refl _)]
  simp only [Nat.sub_self, polP]
  rw [Function.iterate_succ_apply, derivative_C]
  exact Polynomial.iterate_derivative_zero

end Geomdl

namespace Geomdl
open Blossom Polynomial Finset
variable {K : Type} [Field K] [LinearOrder K] [IsStrictOrderedRing K]

/-! ### model side: closed form of `helpers.curve_deriv_cpts` -/

/-- level `k` of the A3.3 table, computed level by level as the code does -/
def pkLevel (p : ℕ) (U : ℕ → K) (P : List (List K)) (r1 r2 : ℕ) : ℕ → List (List K)
  | 0 => (List.range (r2 - r1 + 1)).map (fun i => ptsGet P (r1 + i))
  | k+1 => dcStep p U r1 (k+1) 0 (pkLevel p U P r1 r2 k)

theorem curveDerivCpts_eq (p : ℕ) (U : ℕ → K) (P : List (List K)) (r1 r2 : ℕ) : ∀ d,
    curveDerivCpts p U P r1 r2 d = (List.range (d+1)).map (pkLevel p U P r1 r2) := by
  have key : ∀ d, (List.range' 1 d).foldl (fun (acc : List (List (List K)) × List (List K)) k =>
        (acc.1 ++ [dcStep p U r1 k 0 acc.2], dcStep p U r1 k 0 acc.2))
        ([pkLevel p U P r1 r2 0], pkLevel p U P r1 r2 0)
      = ((List.range (d+1)).map (pkLevel p U P r1 r2), pkLevel p U P r1 r2 d) := by
    intro d
    induction d with
    | zero => simp
    | succ d ih =>
      rw [List.range'_1_concat, List.foldl_append, ih]
      simp only [List.foldl_cons, List.foldl_nil]
      rw [List.range_succ (n := d + 1), List.map_append]
      simp [pkLevel, Nat.add_comm]
  intro d
  unfold curveDerivCpts
  simp only []
  have := key d
  simp only [pkLevel] at this
  rw [this]

/-- vector-valued scaled differences, as a function of the global control point index -/
def vIter (p : ℕ) (U : ℕ → K) (P : List (List K)) : ℕ → ℕ → List K
  | 0, m => ptsGet P m
  | k+1, m => List.zipWith (fun e1 e2 => ((p - k : ℕ) : K) * (e1 - e2) / (U (m + (p - k)) - U m))
                (vIter p U P k m) (vIter p U P k (m - 1))

theorem vIter_length (p : ℕ) (U : ℕ → K) (P : List (List K)) (d : ℕ) (hP : NetOk d P) :
    ∀ k m, m < P.length → (vIter p U P k m).length = d := by
  intro k
  induction k with
  | zero => intro m hm; exact ptsGet_length hP m hm
  | succ k ih =>
    intro m hm
    simp only [vIter, List.length_zipWith]
    rw [ih m hm, ih (m-1) (by omega)]; simp

theorem vIter_coord (p : ℕ) (U : ℕ → K) (P : List (List K)) (d j : ℕ) (hP : NetOk d P) :
    ∀ k m, m < P.length → (vIter p U P k m).getD j 0 = dIter U p k (fun i => (ptsGet P i).getD j 0) m := by
  intro k
  induction k with
  | zero => intro m _; rfl
  | succ k ih =>
    intro m hm
    simp only [vIter, dIter, dscal]
    rw [zipWith_getD_gen _ (by simp) _ _ j (by rw [vIter_length p U P d hP k m hm, vIter_length p U P d hP k (m-1) (by omega)])]
    rw [ih m hm, ih (m-1) (by omega)]
    ring

theorem pkLevel_eq (p : ℕ) (U : ℕ → K) (P : List (List K)) (r1 n : ℕ) : ∀ k, k ≤ n → k ≤ p →
    pkLevel p U P r1 (r1 + n) k = (List.range' 0 (n + 1 - k)).map (fun i => vIter p U P k (r1 + i + k)) := by
  intro k
  induction k with
  | zero =>
    intro _ _
    simp only [pkLevel, vIter, Nat.add_zero, Nat.sub_zero]
    rw [List.range_eq_range']
    congr 2
    omega
  | succ k ih =>
    intro hk hkp
    simp only [pkLevel]
    rw [ih (by omega) (by omega)]
    have e : n + 1 - k = (n + 1 - (k + 1)) + 1 := by omega
    rw [e, dcStep_map p U r1 (k+1) (fun i => vIter p U P k (r1 + i + k)) (n + 1 - (k+1)) 0]
    apply List.map_congr_left
    intro i _
    simp only [vIter]
    have e1 : r1 + (i + 1) + k = r1 + i + (k + 1) := by omega
    have e2 : r1 + i + k = r1 + i + (k + 1) - 1 := by omega
    have e3 : p - (k + 1) + 1 = p - k := by omega
    rw [e1, e3]
    have e4 : r1 + i + (k + 1) + (p - k) = r1 + i + p + 1 := by omega
    have e5 : r1 + i + (k + 1) - 1 = r1 + i + k := by omega
    rw [e4, e5]

end Geomdl

namespace Geomdl
open Blossom Polynomial Finset
variable {K : Type} [Field K] [LinearOrder K] [IsStrictOrderedRing K]

/-- **All derivative orders (curves)**: entry `k` of the model of `Curve.derivatives(u, order)`
    (A3.3 + A3.4; both evaluator families are tied to it by the correspondence) is the `k`-th
    derivative of the span polynomial at `u` – for every degree, knots, span, parameter, dimension,
    requested order and every `k ≤ order` (zero above the degree). -/
theorem curveDersAt_all (p : ℕ) (U : ℕ → K) (P : List (List K)) (κ : ℕ) (u : K) (d j order k : ℕ)
    (hp : p ≤ κ) (hκ : κ < P.length) (hP : NetOk d P)
    (hm : Monotone U) (hspan : U κ < U (κ+1)) (hk : k ≤ order) :
    ((curveDersAt p U P κ u order).getD k []).getD j 0 = eval u (derivative^[k] (spanPoly p U P κ j)) := by
  have hsep : Sep U κ := sep_of_mono U κ hm hspan
  unfold spanPoly
  by_cases hkp : k ≤ p
  · -- polynomial side
    rw [iterate_derivative_spanPoly U κ p hsep hp _ k hkp, eval_polP]
    simp only [eval_C]
    rw [← diag U κ u (p - k) (by omega), wsum_eq_sum, Blossom.basisFuns_length]
    -- model side
    have hkm : k ≤ min p order := by omega
    have hrow : (curveDersAt p U P κ u order).getD k []
        = linComb d (basisFuns (p - k) U κ u) ((List.range' 0 (p + 1 - k)).map (fun i => vIter p U P k (κ - p + i + k))) := by
      unfold curveDersAt
      simp only [List.getD_eq_getElem?_getD, List.getElem?_map]
      rw [List.getElem?_range (by omega)]
      simp only [Option.map_some, Option.getD_some, hkm, if_true]
      rw [dimOf_eq hP (by omega), curveDerivCpts_eq]
      simp only [List.getElem?_map]
      rw [List.getElem?_range (by omega)]
      simp only [Option.map_some, Option.getD_some]
      have hpk := pkLevel_eq p U P (κ - p) p k hkp hkp
      have hr2 : κ - p + p = κ := by omega
      rw [hr2] at hpk
      rw [hpk]
    rw [hrow]
    have hlenN : (basisFuns (p - k) U κ u).length = p + 1 - k := by
      rw [Blossom.basisFuns_length]; omega
    rw [linComb_getD d j _ _ (by
      intro pt hpt
      simp only [List.mem_map, List.mem_range'_1] at hpt
      obtain ⟨i, ⟨_, hi⟩, rfl⟩ := hpt
      exact vIter_length p U P d hP k _ (by omega))]
    have hz := zip_sum_eq_wsum j (fun i => vIter p U P k (κ - p + i + k)) (basisFuns (p - k) U κ u) 0
    rw [hlenN] at hz
    rw [hz, wsum_eq_sum, hlenN]
    have e0 : p - k + 1 = p + 1 - k := by omega
    rw [e0]
    apply Finset.sum_congr rfl
    intro r hr
    rw [Finset.mem_range] at hr
    rw [vIter_coord p U P d j hP k _ (by omega)]
    congr 2
    omega
  · -- above the degree
    have hkp' : p < k := by omega
    rw [iterate_derivative_spanPoly_above U κ p hsep hp _ k hkp', eval_zero]
    unfold curveDersAt
    simp only [List.getD_eq_getElem?_getD, List.getElem?_map]
    rw [List.getElem?_range (by omega)]
    have : ¬ (k ≤ min p order) := by omega
    simp only [Option.map_some, Option.getD_some, this, if_false, vzero, List.getElem?_replicate]
    split <;> simp

end Geomdl
