import NurbsVerif.Lemmas.Pieces
import NurbsVerif.Lemmas.EvalSpec

/-! `knotvector.generate / normalize / check` -/
namespace Geomdl
variable {K : Type} [Field K] [LinearOrder K] [IsStrictOrderedRing K]

theorem absK_eq (x : K) : absK x = |x| := by
  unfold absK
  by_cases h : x < 0
  · rw [if_pos h, abs_of_neg h]
  · rw [if_neg h, abs_of_nonneg (not_lt.mp h)]

theorem linspace_unit_length (num : ℕ) (tol : K) (htol : tol < 1) (hn : 2 ≤ num) :
    (linspace (0:K) 1 num tol).length = num := by
  unfold linspace
  have : ¬ (absK ((0:K) - 1) ≤ tol) := by
    rw [absK_eq]; simp; exact htol
  rw [if_neg this, if_pos (by omega), linspaceCore_length]

/-- generated knot vectors have the documented length `n + p + 1` (clamped or not) -/
theorem knotGenerate_length (p n : ℕ) (clamped : Bool) (tol : K) (htol : tol < 1) (hp : 1 ≤ p) (hn : p + 1 ≤ n) :
    (knotGenerate p n clamped tol : List K).length = n + p + 1 := by
  unfold knotGenerate
  cases clamped
  · simp only [Bool.false_eq_true, if_false]
    rw [linspace_unit_length _ tol htol (by omega)]; omega
  · simp only [if_true, List.length_append, List.length_replicate]
    rw [linspace_unit_length _ tol htol (by omega)]; omega

/-- a clamped generated vector starts with `p` zeros followed by the 0 of the evenly spaced part
    (end multiplicity `p + 1`) … -/
theorem knotGenerate_clamped_start (p n : ℕ) (tol : K) (htol : tol < 1) (hn : p + 1 ≤ n) (i : ℕ) (hi : i ≤ p) :
    (knotGenerate p n true tol : List K).getD i 0 = 0 := by
  unfold knotGenerate
  simp only [if_true]
  rw [List.append_assoc]
  by_cases hip : i < p
  · rw [List.getD_eq_getElem?_getD, List.getElem?_append_left (by simp; exact hip)]
    simp [List.getElem?_replicate, hip]
  · have : i = p := by omega
    subst this
    rw [List.getD_eq_getElem?_getD, List.getElem?_append_right (by simp)]
    simp only [List.length_replicate, Nat.sub_self]
    rw [List.getElem?_append_left (by rw [linspace_unit_length _ tol htol (by omega)]; omega)]
    rw [← List.getD_eq_getElem?_getD]
    unfold linspace
    have : ¬ (absK ((0:K) - 1) ≤ tol) := by rw [absK_eq]; simp; exact htol
    rw [if_neg this, if_pos (by omega)]
    exact linspaceCore_first 0 1 _ (by omega)

/-- `knotvector.check` rejects a wrong length … -/
theorem knotCheck_wrong_length (p n : ℕ) (U : List K) (h : U.length ≠ p + n + 1) : knotCheck p U n = false := by
  unfold knotCheck
  simp [h]

/-- … and any descent -/
theorem isSortedB_false_of_descent : ∀ (U : List K) (i : ℕ), i + 1 < U.length → U.getD (i+1) 0 < U.getD i 0 →
    isSortedB U = false
  | [], i, h, _ => by simp at h
  | [_], i, h, _ => by simp at h
  | a :: b :: r, 0, _, hd => by
      simp only [List.getD_cons_succ, List.getD_cons_zero] at hd
      simp [isSortedB, not_le.mpr hd]
  | a :: b :: r, i+1, h, hd => by
      simp only [isSortedB]
      have := isSortedB_false_of_descent (b :: r) i (by simpa using h) (by simpa using hd)
      rw [this]; simp

theorem knotCheck_descent (p n : ℕ) (U : List K) (i : ℕ) (hi : i + 1 < U.length) (hd : U.getD (i+1) 0 < U.getD i 0) :
    knotCheck p U n = false := by
  unfold knotCheck
  rw [isSortedB_false_of_descent U i hi hd]; simp

/-- normalisation maps the first knot to 0 and the last to 1 and preserves the order -/
theorem knotNormalize_spec (V : List K) (hne : V ≠ []) (hrange : V.headD 0 < V.getLastD 0) :
    (knotNormalize V).length = V.length ∧
    (knotNormalize V).headD 0 = 0 ∧ (knotNormalize V).getLastD 0 = 1 ∧
    ∀ i j, fnOf V i ≤ fnOf V j → fnOf (knotNormalize V) i ≤ fnOf (knotNormalize V) j := by
  have hpos : 0 < V.getLastD 0 - V.headD 0 := by linarith
  refine ⟨by simp [knotNormalize], ?_, ?_, ?_⟩
  · cases V with
    | nil => exact absurd rfl hne
    | cons a as => simp [knotNormalize]
  · unfold knotNormalize
    simp only []
    rw [List.getLastD_eq_getLast?, List.getLast?_map, List.getLastD_eq_getLast?]
    cases h : V.getLast? with
    | none => rw [List.getLast?_eq_none_iff] at h; exact absurd h hne
    | some x =>
      simp only [Option.map_some, Option.getD_some]
      have hx : V.getLastD 0 = x := by rw [List.getLastD_eq_getLast?, h]; rfl
      rw [List.getLastD_eq_getLast?, h] at hpos
      simp only [Option.getD_some] at hpos
      exact div_self (ne_of_gt hpos)
  · intro i j hij
    rw [fnOf_knotNormalize V i hne, fnOf_knotNormalize V j hne]
    have : 0 < 1 / (V.getLastD 0 - V.headD 0) := one_div_pos.mpr hpos
    have := mul_le_mul_of_nonneg_left hij (le_of_lt this)
    linarith

end Geomdl
