import NurbsVerif.Lemmas.UniqueVolObj
import NurbsVerif.Lemmas.UniqueVolRemove

/-! # The object-level "removable at all" hypotheses stated on the knot vector of the object AT HAND

`SurfRemovableObj` / `VolRemovableObj` describe the knot vectors from the side of the witness `T` (`S.kvs` = `T.kvs`
with `ub` inserted).  Here they are derived from the description on `S`'s side, as in `RemovableKnot`: the knot
vector of direction `dir` of `S` holds `ub` at the positions `k-s+1 .. k+r` (`KnotRun`), `T` has that knot vector with
`r` copies taken out (`knotRemovalKv`), `r` control points less in that direction, everything else as `S`, and the
library's multiplicity search with tolerance `tol` finds the true multiplicity `s` on the reduced knot vector. -/
namespace Geomdl
open Blossom
set_option linter.unusedSectionVars false
variable {K : Type} [Field K] [LinearOrder K] [IsStrictOrderedRing K]

/-- from `S`'s side to `T`'s side (any number of parametric directions) -/
theorem roundOk_of_knotRun (S T : Shape K) (dir : ℕ) (ub tol : K) (r s k : ℕ)
    (hdk : dir < S.kvs.length) (hds : dir < S.sizes.length) (hdegs : T.degs = S.degs)
    (hkvs : T.kvs = S.kvs.set dir (knotRemovalKv (S.kv dir) (k + r) r))
    (hsizes : T.sizes = S.sizes.set dir (S.size dir - r))
    (h : KnotRun (S.deg dir) (S.kv dir) (S.size dir) ub r s k) (htol : 0 ≤ tol)
    (hfm : findMultiplicity ub (knotRemovalKv (S.kv dir) (k + r) r) tol = s) :
    RoundOk T dir ub r tol ∧ S.kvs = T.kvs.set dir (insKvOf T dir ub r) ∧
      S.sizes = T.sizes.set dir (T.size dir + r) := by
  have eKv : T.kv dir = knotRemovalKv (S.kv dir) (k + r) r := by
    unfold Shape.kv; rw [hkvs]; exact getD_set_self _ dir _ _ hdk
  have eSize : T.size dir = S.size dir - r := by
    unfold Shape.size; rw [hsizes]; exact getD_set_self _ dir _ _ hds
  have eDeg : T.deg dir = S.deg dir := by unfold Shape.deg; rw [hdegs]
  have hl1 : (List.replicate (S.size dir) ([] : List K)).length = S.size dir := by simp
  have hl2 : (List.replicate (S.size dir - r) ([] : List K)).length = S.size dir - r := by simp
  have hn : ∀ n, NetOk 0 (List.replicate n ([] : List K)) := by
    intro n pt hpt; rw [List.eq_of_mem_replicate hpt]; rfl
  obtain ⟨hV, _, hk1U, hk2U, hsU, hmultU, hub1, hub2, hspan, _, _⟩ :=
    removable_facts (S.deg dir) 0 (S.kv dir) (List.replicate (S.size dir) []) (List.replicate (S.size dir - r) []) ub r s k
      (h.kv.curve 0 _ hl1 (hn _)) (h.redkv.curve 0 _ hl2 (hn _)) h.run h.below h.above h.r1 h.pk (by rw [hl1]; exact h.kn)
  rw [hl2] at hub2 hspan
  have hspanT : findSpanLinear (T.deg dir) (fnOf (T.kv dir)) (T.size dir) ub = k := by rw [eDeg, eKv, eSize]; exact hspan
  have hfmT : findMultiplicity ub (T.kv dir) tol = s := by rw [eKv]; exact hfm
  refine ⟨⟨⟨?_, ?_, ?_, ?_⟩, h.r1, htol, ?_⟩, ?_, ?_⟩
  · rw [eKv, eDeg]; exact hub1
  · rw [eKv, eSize]; exact hub2
  · rw [hspanT, hfmT, eKv]; exact hmultU
  · rw [hfmT, eDeg]; exact h.rs
  · rw [hspanT, hfmT, eKv]; exact hsU
  · show S.kvs = T.kvs.set dir (knotInsertionKv (T.kv dir) ub (findSpanLinear (T.deg dir) (fnOf (T.kv dir)) (T.size dir) ub) r)
    rw [hspanT, eKv, hV, hkvs, List.set_set]
    exact (set_getD_self S.kvs dir [] hdk).symm
  · rw [eSize, hsizes, List.set_set, show S.size dir - r + r = S.size dir by have := h.kn; omega]
    exact (set_getD_self S.sizes dir 0 hds).symm

/-- **surfaces**: the object-level hypotheses from the knot vector of the surface at hand -/
theorem SurfRemovableObj.of_knotRun (d : ℕ) (S T : Shape K) (dir : ℕ) (ub tol : K) (r s k : ℕ)
    (hS : SurfWF d S) (hT : SurfWF d T) (hdir : dir < 2) (hrat : S.rat = T.rat) (hdegs : T.degs = S.degs)
    (hkvs : T.kvs = S.kvs.set dir (knotRemovalKv (S.kv dir) (k + r) r))
    (hsizes : T.sizes = S.sizes.set dir (S.size dir - r))
    (h : KnotRun (S.deg dir) (S.kv dir) (S.size dir) ub r s k) (htol : 0 ≤ tol)
    (hfm : findMultiplicity ub (knotRemovalKv (S.kv dir) (k + r) r) tol = s)
    (hact0 : AllActive (S.deg 0) (S.size 0) (fnOf (S.kv 0))) (hact1 : AllActive (S.deg 1) (S.size 1) (fnOf (S.kv 1)))
    (hsame : ∀ u v, fnOf (S.kv 0) (S.deg 0) ≤ u → u < fnOf (S.kv 0) (S.size 0) →
      fnOf (S.kv 1) (S.deg 1) ≤ v → v < fnOf (S.kv 1) (S.size 1) → ∀ j,
      (surfEval T u v).getD j 0 = (surfEval S u v).getD j 0) :
    SurfRemovableObj d S T dir ub r tol := by
  obtain ⟨a, b, c⟩ := roundOk_of_knotRun S T dir ub tol r s k (by rw [hS.kvs]; exact hdir) (by rw [hS.sizes]; exact hdir)
    hdegs hkvs hsizes h htol hfm
  exact ⟨hS, hT, hdir, a, hrat, hdegs.symm, b, c, hact0, hact1, hsame⟩

/-- **volumes** -/
theorem VolRemovableObj.of_knotRun (d : ℕ) (S T : Shape K) (dir : ℕ) (ub tol : K) (r s k : ℕ)
    (hS : VolWF d S) (hT : VolWF d T) (hdir : dir < 3) (hrat : S.rat = T.rat) (hdegs : T.degs = S.degs)
    (hkvs : T.kvs = S.kvs.set dir (knotRemovalKv (S.kv dir) (k + r) r))
    (hsizes : T.sizes = S.sizes.set dir (S.size dir - r))
    (h : KnotRun (S.deg dir) (S.kv dir) (S.size dir) ub r s k) (htol : 0 ≤ tol)
    (hfm : findMultiplicity ub (knotRemovalKv (S.kv dir) (k + r) r) tol = s)
    (hact0 : AllActive (S.deg 0) (S.size 0) (fnOf (S.kv 0))) (hact1 : AllActive (S.deg 1) (S.size 1) (fnOf (S.kv 1)))
    (hact2 : AllActive (S.deg 2) (S.size 2) (fnOf (S.kv 2)))
    (hsame : ∀ u v w, fnOf (S.kv 0) (S.deg 0) ≤ u → u < fnOf (S.kv 0) (S.size 0) →
      fnOf (S.kv 1) (S.deg 1) ≤ v → v < fnOf (S.kv 1) (S.size 1) →
      fnOf (S.kv 2) (S.deg 2) ≤ w → w < fnOf (S.kv 2) (S.size 2) → ∀ j,
      (volEval T u v w).getD j 0 = (volEval S u v w).getD j 0) :
    VolRemovableObj d S T dir ub r tol := by
  obtain ⟨a, b, c⟩ := roundOk_of_knotRun S T dir ub tol r s k (by rw [hS.kvs]; exact hdir) (by rw [hS.sizes]; exact hdir)
    hdegs hkvs hsizes h htol hfm
  exact ⟨hS, hT, hdir, a, hrat, hdegs.symm, b, c, hact0, hact1, hact2, hsame⟩

end Geomdl
