import NurbsVerif.Lemmas.AssembleSpan
import NurbsVerif.Lemmas.EvalSpec
import NurbsVerif.Lemmas.Affine
import NurbsVerif.Lemmas.InsertSurf
import NurbsVerif.Lemmas.VolLift

/-!
  Assembly, part 4 (C01): the Cox–de Boor recursion *of a span* – degree-0 functions are the indicator
  of the chosen span `κ`, same two-term recurrence, same 0/0 := 0.  On the half-open span it is
  literally the Cox–de Boor recursion `cdb`; for ANY parameter it is what A2.2 computes on span `κ`.
  With `κ` the span the search finds this describes the evaluated point on the whole closed domain:
  at the right end of the domain the basis functions are those of the last non-empty span (the
  left-limit convention).
-/
namespace Blossom
open Geomdl
variable {K : Type} [Field K] [LinearOrder K] [IsStrictOrderedRing K]

/-- Cox–de Boor recursion started from the indicator of span `κ` -/
def cdbSpan (U : ℕ → K) (κ : ℕ) : ℕ → ℕ → K → K
  | 0, i, _ => if i = κ then 1 else 0
  | p+1, i, u =>
      (u - U i) / (U (i+p+1) - U i) * cdbSpan U κ p i u
        + (U (i+p+2) - u) / (U (i+p+2) - U (i+1)) * cdbSpan U κ p (i+1) u

/-- on the half-open span `κ` this is the Cox–de Boor recursion -/
theorem cdbSpan_eq_cdb (U : ℕ → K) (κ : ℕ) (u : K) (hm : Monotone U) (h1 : U κ ≤ u) (h2 : u < U (κ+1)) :
    ∀ (p i : ℕ), cdbSpan U κ p i u = cdb U p i u := by
  intro p
  induction p with
  | zero => intro i; rw [cdb_zero U κ u hm h1 h2]; rfl
  | succ p ih => intro i; simp only [cdbSpan, cdb, ih]

/-- The triangle of A2.2 on span `κ` is this recursion, for every parameter; functions outside the
    window `κ-p … κ` vanish identically. -/
theorem cdbSpan_eq_basisFuns (U : ℕ → K) (κ : ℕ) (u : K) :
    ∀ (p : ℕ), p ≤ κ → ∀ i,
      cdbSpan U κ p i u = if κ ≤ i + p ∧ i ≤ κ then (basisFuns p U κ u).getD (i + p - κ) 0 else 0 := by
  intro p
  induction p with
  | zero =>
    intro _ i
    simp only [cdbSpan]
    by_cases hi : i = κ
    · subst hi; simp [basisFuns]
    · rw [if_neg hi, if_neg (by omega)]
  | succ p ih =>
    intro hp i
    have ihp := ih (by omega)
    simp only [cdbSpan]
    rw [ihp i, ihp (i+1)]
    by_cases hr : κ ≤ i + (p+1) ∧ i ≤ κ
    · rw [if_pos hr]
      obtain ⟨r, hr'⟩ : ∃ r, i + (p+1) = κ + r := ⟨i + (p+1) - κ, by omega⟩
      have hrle : r ≤ p + 1 := by omega
      rw [basisFuns_succ]
      unfold bfStep
      rw [bfInner_getD, basisFuns_length]
      have e0 : i + (p+1) - κ = r := by omega
      rw [e0]
      simp only [Nat.zero_add]
      unfold left right
      have t1 : (u - U i) / (U (i + p + 1) - U i)
            * (if κ ≤ i + p ∧ i ≤ κ then (basisFuns p U κ u).getD (i + p - κ) 0 else 0)
          = (if r = 0 then 0 else if r ≤ p + 1 then
              (u - U (κ + 1 - (p + 1 - (r - 1)))) * ((basisFuns p U κ u).getD (r-1) 0
                / (U (κ + r) - u + (u - U (κ + 1 - (p + 1 - (r - 1)))))) else 0) := by
        by_cases hr0 : r = 0
        · rw [if_pos hr0, if_neg (by omega), mul_zero]
        · rw [if_neg hr0, if_pos hrle, if_pos (by omega)]
          have a1 : κ + 1 - (p + 1 - (r - 1)) = i := by omega
          have a2 : i + p + 1 = κ + r := by omega
          have a3 : i + p - κ = r - 1 := by omega
          rw [a1, a2, a3]; ring
      have t2 : (U (i + p + 2) - u) / (U (i + p + 2) - U (i + 1))
            * (if κ ≤ i + 1 + p ∧ i + 1 ≤ κ then (basisFuns p U κ u).getD (i + 1 + p - κ) 0 else 0)
          = (if r < p + 1 then
              (U (κ + (r + 1)) - u) * ((basisFuns p U κ u).getD r 0
                / (U (κ + (r + 1)) - u + (u - U (κ + 1 - (p + 1 - r))))) else 0) := by
        by_cases hrp : r < p + 1
        · rw [if_pos hrp, if_pos (by omega)]
          have a1 : κ + 1 - (p + 1 - r) = i + 1 := by omega
          have a2 : i + p + 2 = κ + (r + 1) := by omega
          have a3 : i + 1 + p - κ = r := by omega
          rw [a1, a2, a3]; ring
        · rw [if_neg hrp, if_neg (by omega), mul_zero]
      rw [t1, t2]
    · rw [if_neg hr]
      have z1 : (if κ ≤ i + p ∧ i ≤ κ then (basisFuns p U κ u).getD (i + p - κ) 0 else 0) = (0:K) := by
        rw [if_neg (by omega)]
      have z2 : (if κ ≤ i + 1 + p ∧ i + 1 ≤ κ then (basisFuns p U κ u).getD (i + 1 + p - κ) 0 else 0) = (0:K) := by
        rw [if_neg (by omega)]
      rw [z1, z2]; ring

end Blossom

namespace Geomdl
open Blossom Finset
variable {K : Type} [Field K] [LinearOrder K] [IsStrictOrderedRing K]

/-- the sum over ALL indices of span-recursion function times value reduces to the `p+1` active ones -/
theorem cdbSpan_sum_window (U : ℕ → K) (k : ℕ) (u : K) (p : ℕ) (hp : p ≤ k) (n : ℕ) (hn : k < n) (c : ℕ → K) :
    ∑ i ∈ range n, cdbSpan U k p i u * c i = ∑ r ∈ range (p+1), (basisFuns p U k u).getD r 0 * c (k - p + r) := by
  have hsplit : n = (k - p) + ((p + 1) + (n - (k + 1))) := by omega
  rw [hsplit, Finset.sum_range_add, Finset.sum_range_add]
  have z1 : ∑ x ∈ range (k - p), cdbSpan U k p x u * c x = 0 := by
    apply Finset.sum_eq_zero
    intro i hi
    rw [Finset.mem_range] at hi
    rw [cdbSpan_eq_basisFuns U k u p hp i, if_neg (by omega), zero_mul]
  have z2 : ∑ x ∈ range (n - (k + 1)), cdbSpan U k p (k - p + (p + 1 + x)) u * c (k - p + (p + 1 + x)) = 0 := by
    apply Finset.sum_eq_zero
    intro i _
    rw [cdbSpan_eq_basisFuns U k u p hp _, if_neg (by omega), zero_mul]
  rw [z1, z2, zero_add, add_zero]
  apply Finset.sum_congr rfl
  intro r hr
  rw [Finset.mem_range] at hr
  rw [cdbSpan_eq_basisFuns U k u p hp _, if_pos (by omega)]
  congr 2
  omega

/-! ### span level, any parameter -/

theorem curvePointAt_eq_cdbSpan (p : ℕ) (U : ℕ → K) (P : List (List K)) (k : ℕ) (u : K) (d j : ℕ)
    (hp : p ≤ k) (hk : k < P.length) (hP : NetOk d P) :
    (curvePointAt p U P k u).getD j 0 = ∑ i ∈ range P.length, cdbSpan U k p i u * (ptsGet P i).getD j 0 := by
  rw [curvePointAt_sum p U P k u d j hp hk hP,
    cdbSpan_sum_window U k u p hp P.length hk (fun i => (ptsGet P i).getD j 0)]

theorem surfacePointAt_eq_cdbSpan (pu pv : ℕ) (Uu Uv : ℕ → K) (su sv : ℕ) (P : List (List K)) (ku kv : ℕ) (u v : K)
    (d j : ℕ) (hpu : pu ≤ ku) (hpv : pv ≤ kv) (hku : ku < su) (hkv : kv < sv) (hlen : P.length = su * sv) (hP : NetOk d P) :
    (surfacePointAt pu pv Uu Uv sv P ku kv u v).getD j 0
      = ∑ a ∈ range su, ∑ b ∈ range sv,
          cdbSpan Uu ku pu a u * cdbSpan Uv kv pv b v * (ptsGet P (b + sv * a)).getD j 0 := by
  rw [surfacePointAt_sum pu pv Uu Uv su sv P ku kv u v d j hpu hpv hku hkv hlen hP]
  rw [← cdbSpan_sum_window Uu ku u pu hpu su hku
    (fun a => ∑ b ∈ range (pv+1), (basisFuns pv Uv kv v).getD b 0 * (ptsGet P (kv - pv + b + sv * a)).getD j 0)]
  apply Finset.sum_congr rfl
  intro a _
  rw [← cdbSpan_sum_window Uv kv v pv hpv sv hkv (fun b => (ptsGet P (b + sv * a)).getD j 0), Finset.mul_sum]
  apply Finset.sum_congr rfl
  intro b _
  ring

theorem volumePointAt_eq_cdbSpan (pu pv pw : ℕ) (Uu Uv Uw : ℕ → K) (su sv sw : ℕ) (P : List (List K))
    (ku kv kw : ℕ) (u v w : K) (d j : ℕ)
    (hpu : pu ≤ ku) (hpv : pv ≤ kv) (hpw : pw ≤ kw) (hku : ku < su) (hkv : kv < sv) (hkw : kw < sw)
    (hlen : P.length = su * sv * sw) (hP : NetOk d P) :
    (volumePointAt pu pv pw Uu Uv Uw su sv P ku kv kw u v w).getD j 0
      = ∑ a ∈ range su, ∑ b ∈ range sv, ∑ c ∈ range sw,
          cdbSpan Uu ku pu a u * cdbSpan Uv kv pv b v * cdbSpan Uw kw pw c w *
            (ptsGet P (b + sv * (a + su * c))).getD j 0 := by
  rw [volumePointAt_sum pu pv pw Uu Uv Uw su sv sw P ku kv kw u v w d j hpu hpv hpw hku hkv hkw hlen hP]
  rw [← cdbSpan_sum_window Uu ku u pu hpu su hku
    (fun a => ∑ b ∈ range (pv+1), (basisFuns pv Uv kv v).getD b 0 *
      ∑ c ∈ range (pw+1), (basisFuns pw Uw kw w).getD c 0 *
        (ptsGet P (kv - pv + b + sv * (a + su * (kw - pw + c)))).getD j 0)]
  apply Finset.sum_congr rfl
  intro a _
  rw [← cdbSpan_sum_window Uv kv v pv hpv sv hkv
    (fun b => ∑ c ∈ range (pw+1), (basisFuns pw Uw kw w).getD c 0 *
        (ptsGet P (b + sv * (a + su * (kw - pw + c)))).getD j 0), Finset.mul_sum]
  apply Finset.sum_congr rfl
  intro b _
  rw [← cdbSpan_sum_window Uw kw w pw hpw sw hkw (fun c => (ptsGet P (b + sv * (a + su * c))).getD j 0),
    Finset.mul_sum, Finset.mul_sum]
  apply Finset.sum_congr rfl
  intro c _
  ring

end Geomdl
