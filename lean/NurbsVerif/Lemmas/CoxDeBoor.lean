import NurbsVerif.Model.Basis
import NurbsVerif.Lemmas.Diag
import Mathlib.Algebra.Order.Field.Basic
import Mathlib.Order.Monotone.Basic
import Mathlib.Tactic.Ring
import Mathlib.Tactic.Linarith

namespace Blossom
open Geomdl
variable {K : Type} [Field K] [LinearOrder K] [IsStrictOrderedRing K]

/-- Cox–de Boor functions (The NURBS Book Eq. 2.5) with the 0/0 := 0 convention of `x / 0 = 0` -/
def cdb (U : ℕ → K) : ℕ → ℕ → K → K
  | 0, i, u => if U i ≤ u ∧ u < U (i+1) then 1 else 0
  | p+1, i, u =>
      (u - U i) / (U (i+p+1) - U i) * cdb U p i u
        + (U (i+p+2) - u) / (U (i+p+2) - U (i+1)) * cdb U p (i+1) u

/-- closed form of an entry of the inner loop of A2.2 (zero padded) -/
theorem bfInner_getD (L R : ℕ → K) (j : ℕ) (N : List K) : ∀ (r : ℕ) (s : K) (a : ℕ),
    (bfInner L R j r N s).getD a 0
      = (if a = 0 then s else
          if a ≤ N.length then L (j - (r + a - 1)) * (N.getD (a-1) 0 / (R (r + a) + L (j - (r + a - 1)))) else 0)
        + (if a < N.length then R (r + a + 1) * (N.getD a 0 / (R (r + a + 1) + L (j - (r + a)))) else 0) := by
  induction N with
  | nil =>
    intro r s a
    cases a <;> simp [bfInner]
  | cons n ns ih =>
    intro r s a
    cases a with
    | zero => simp [bfInner]
    | succ a =>
      simp only [bfInner, List.getD_cons_succ, List.length_cons]
      rw [ih (r+1) _ a]
      cases a with
      | zero =>
        simp only [ite_true, Nat.add_zero, List.getD_cons_zero, Nat.zero_add]
        have : (1:ℕ) ≤ ns.length + 1 := by omega
        simp only [this, ite_true, Nat.add_sub_cancel]
        by_cases h : 0 < ns.length
        · simp [h, Nat.add_assoc]
        · simp [h]
      | succ a =>
        have e1 : r + 1 + (a + 1) = r + (a + 1 + 1) := by omega
        have e2 : r + 1 + (a + 1) - 1 = r + (a + 1 + 1) - 1 := by omega
        simp only [Nat.add_one_ne_zero, ite_false, e1, e2, Nat.add_sub_cancel, List.getD_cons_succ,
          Nat.add_lt_add_iff_right, Nat.add_le_add_iff_right]

/-- the indicator of degree zero is the indicator of the span -/
theorem cdb_zero (U : ℕ → K) (κ : ℕ) (u : K) (hm : Monotone U) (h1 : U κ ≤ u) (h2 : u < U (κ+1)) (i : ℕ) :
    cdb U 0 i u = if i = κ then 1 else 0 := by
  unfold cdb
  by_cases hi : i = κ
  · subst hi; simp [h1, h2]
  · rw [if_neg hi, if_neg]
    rintro ⟨a, b⟩
    rcases Nat.lt_or_gt_of_ne hi with h | h
    · have : U (i+1) ≤ U κ := hm (by omega)
      linarith
    · have : U (κ+1) ≤ U i := hm (by omega)
      linarith

/-- The triangle of A2.2 is the Cox–de Boor recursion restricted to the span, and all other
    Cox–de Boor functions vanish there (local support). -/
theorem cdb_eq_basisFuns (U : ℕ → K) (κ : ℕ) (u : K) (hm : Monotone U) (h1 : U κ ≤ u) (h2 : u < U (κ+1)) :
    ∀ (p : ℕ), p ≤ κ → ∀ i,
      cdb U p i u = if κ ≤ i + p ∧ i ≤ κ then (basisFuns p U κ u).getD (i + p - κ) 0 else 0 := by
  intro p
  induction p with
  | zero =>
    intro _ i
    rw [cdb_zero U κ u hm h1 h2]
    by_cases hi : i = κ
    · subst hi; simp [basisFuns]
    · rw [if_neg hi, if_neg (by omega)]
  | succ p ih =>
    intro hp i
    have ihp := ih (by omega)
    simp only [cdb]
    rw [ihp i, ihp (i+1)]
    by_cases hr : κ ≤ i + (p+1) ∧ i ≤ κ
    · rw [if_pos hr]
      obtain ⟨r, hr'⟩ : ∃ r, i + (p+1) = κ + r := ⟨i + (p+1) - κ, by omega⟩
      have hrle : r ≤ p + 1 := by omega
      rw [basisFuns_succ]
      unfold bfStep
      rw [bfInner_getD, basisFuns_length]
      have e0 : i + (p+1) - κ = r := by omega
      rw [e0]
      simp only [Nat.zero_add]
      unfold left right
      -- first Cox–de Boor term
      have t1 : (u - U i) / (U (i + p + 1) - U i)
            * (if κ ≤ i + p ∧ i ≤ κ then (basisFuns p U κ u).getD (i + p - κ) 0 else 0)
          = (if r = 0 then 0 else if r ≤ p + 1 then
              (u - U (κ + 1 - (p + 1 - (r - 1)))) * ((basisFuns p U κ u).getD (r-1) 0
                / (U (κ + r) - u + (u - U (κ + 1 - (p + 1 - (r - 1)))))) else 0) := by
        by_cases hr0 : r = 0
        · rw [if_pos hr0, if_neg (by omega), mul_zero]
        · rw [if_neg hr0, if_pos hrle, if_pos (by omega)]
          have a1 : κ + 1 - (p + 1 - (r - 1)) = i := by omega
          have a2 : i + p + 1 = κ + r := by omega
          have a3 : i + p - κ = r - 1 := by omega
          rw [a1, a2, a3]; ring
      -- second Cox–de Boor term
      have t2 : (U (i + p + 2) - u) / (U (i + p + 2) - U (i + 1))
            * (if κ ≤ i + 1 + p ∧ i + 1 ≤ κ then (basisFuns p U κ u).getD (i + 1 + p - κ) 0 else 0)
          = (if r < p + 1 then
              (U (κ + (r + 1)) - u) * ((basisFuns p U κ u).getD r 0
                / (U (κ + (r + 1)) - u + (u - U (κ + 1 - (p + 1 - r))))) else 0) := by
        by_cases hrp : r < p + 1
        · rw [if_pos hrp, if_pos (by omega)]
          have a1 : κ + 1 - (p + 1 - r) = i + 1 := by omega
          have a2 : i + p + 2 = κ + (r + 1) := by omega
          have a3 : i + 1 + p - κ = r := by omega
          rw [a1, a2, a3]; ring
        · rw [if_neg hrp, if_neg (by omega), mul_zero]
      rw [t1, t2]
    · rw [if_neg hr]
      have z1 : (if κ ≤ i + p ∧ i ≤ κ then (basisFuns p U κ u).getD (i + p - κ) 0 else 0) = (0:K) := by
        rw [if_neg (by omega)]
      have z2 : (if κ ≤ i + 1 + p ∧ i + 1 ≤ κ then (basisFuns p U κ u).getD (i + 1 + p - κ) 0 else 0) = (0:K) := by
        rw [if_neg (by omega)]
      rw [z1, z2]; ring
end Blossom
