import NurbsVerif.Lemmas.Config
import NurbsVerif.Lemmas.Pieces
import Mathlib.Tactic.FieldSimp

/-!
  Assembly, part 6 (C17): knot-range independence of surface and volume evaluation – the span search
  and the basis functions of every direction are invariant under an increasing affine map applied
  to the knots and the parameter of that direction (independently per direction).
-/
namespace Geomdl
open Blossom
variable {K : Type} [Field K] [LinearOrder K] [IsStrictOrderedRing K]

theorem surfacePoint_affine_knots (pu pv : ℕ) (Uu Uv : ℕ → K) (su sv : ℕ) (P : List (List K)) (u v : K)
    (a1 b1 a2 b2 : K) (h1 : 0 < a1) (h2 : 0 < a2) :
    surfacePoint pu pv (fun i => a1 * Uu i + b1) (fun i => a2 * Uv i + b2) su sv P (a1 * u + b1) (a2 * v + b2)
      = surfacePoint pu pv Uu Uv su sv P u v := by
  unfold surfacePoint surfacePointAt
  rw [findSpanLinear_affine pu Uu su u a1 b1 h1, findSpanLinear_affine pv Uv sv v a2 b2 h2,
    basisFuns_affine Uu _ u a1 b1 (ne_of_gt h1) pu, basisFuns_affine Uv _ v a2 b2 (ne_of_gt h2) pv]

theorem volumePoint_affine_knots (pu pv pw : ℕ) (Uu Uv Uw : ℕ → K) (su sv sw : ℕ) (P : List (List K)) (u v w : K)
    (a1 b1 a2 b2 a3 b3 : K) (h1 : 0 < a1) (h2 : 0 < a2) (h3 : 0 < a3) :
    volumePoint pu pv pw (fun i => a1 * Uu i + b1) (fun i => a2 * Uv i + b2) (fun i => a3 * Uw i + b3) su sv sw P
        (a1 * u + b1) (a2 * v + b2) (a3 * w + b3)
      = volumePoint pu pv pw Uu Uv Uw su sv sw P u v w := by
  unfold volumePoint volumePointAt
  rw [findSpanLinear_affine pu Uu su u a1 b1 h1, findSpanLinear_affine pv Uv sv v a2 b2 h2,
    findSpanLinear_affine pw Uw sw w a3 b3 h3,
    basisFuns_affine Uu _ u a1 b1 (ne_of_gt h1) pu, basisFuns_affine Uv _ v a2 b2 (ne_of_gt h2) pv,
    basisFuns_affine Uw _ w a3 b3 (ne_of_gt h3) pw]

/-! ### normalised knot vectors (`knotvector.normalize`) -/

/-- the knot function of the normalised knot vector and the normalised parameter are the images of
    the original ones under one increasing affine map -/
theorem normalize_affine (Ul : List K) (hne : Ul ≠ []) (hr : Ul.headD 0 < Ul.getLastD 0) (u : K) :
    0 < 1 / (Ul.getLastD 0 - Ul.headD 0) ∧
    fnOf (knotNormalize Ul) = (fun i => (1 / (Ul.getLastD 0 - Ul.headD 0)) * fnOf Ul i + (-(Ul.headD 0) / (Ul.getLastD 0 - Ul.headD 0))) ∧
    (u - Ul.headD 0) / (Ul.getLastD 0 - Ul.headD 0)
      = (1 / (Ul.getLastD 0 - Ul.headD 0)) * u + (-(Ul.headD 0) / (Ul.getLastD 0 - Ul.headD 0)) := by
  have hpos : 0 < Ul.getLastD 0 - Ul.headD 0 := by linarith
  refine ⟨by positivity, funext (fun i => fnOf_knotNormalize Ul i hne), by ring⟩

theorem curvePoint_normalized (p : ℕ) (Ul : List K) (P : List (List K)) (u : K)
    (hne : Ul ≠ []) (hr : Ul.headD 0 < Ul.getLastD 0) :
    curvePoint p (fnOf (knotNormalize Ul)) P ((u - Ul.headD 0) / (Ul.getLastD 0 - Ul.headD 0))
      = curvePoint p (fnOf Ul) P u := by
  obtain ⟨ha, hf, hu⟩ := normalize_affine Ul hne hr u
  rw [hf, hu]
  exact curvePoint_affine_knots p (fnOf Ul) P u _ _ ha

theorem surfacePoint_normalized (pu pv : ℕ) (Uul Uvl : List K) (su sv : ℕ) (P : List (List K)) (u v : K)
    (hneu : Uul ≠ []) (hru : Uul.headD 0 < Uul.getLastD 0) (hnev : Uvl ≠ []) (hrv : Uvl.headD 0 < Uvl.getLastD 0) :
    surfacePoint pu pv (fnOf (knotNormalize Uul)) (fnOf (knotNormalize Uvl)) su sv P
        ((u - Uul.headD 0) / (Uul.getLastD 0 - Uul.headD 0)) ((v - Uvl.headD 0) / (Uvl.getLastD 0 - Uvl.headD 0))
      = surfacePoint pu pv (fnOf Uul) (fnOf Uvl) su sv P u v := by
  obtain ⟨ha1, hf1, hu1⟩ := normalize_affine Uul hneu hru u
  obtain ⟨ha2, hf2, hu2⟩ := normalize_affine Uvl hnev hrv v
  rw [hf1, hu1, hf2, hu2]
  exact surfacePoint_affine_knots pu pv (fnOf Uul) (fnOf Uvl) su sv P u v _ _ _ _ ha1 ha2

theorem volumePoint_normalized (pu pv pw : ℕ) (Uul Uvl Uwl : List K) (su sv sw : ℕ) (P : List (List K)) (u v w : K)
    (hneu : Uul ≠ []) (hru : Uul.headD 0 < Uul.getLastD 0) (hnev : Uvl ≠ []) (hrv : Uvl.headD 0 < Uvl.getLastD 0)
    (hnew : Uwl ≠ []) (hrw : Uwl.headD 0 < Uwl.getLastD 0) :
    volumePoint pu pv pw (fnOf (knotNormalize Uul)) (fnOf (knotNormalize Uvl)) (fnOf (knotNormalize Uwl)) su sv sw P
        ((u - Uul.headD 0) / (Uul.getLastD 0 - Uul.headD 0)) ((v - Uvl.headD 0) / (Uvl.getLastD 0 - Uvl.headD 0))
        ((w - Uwl.headD 0) / (Uwl.getLastD 0 - Uwl.headD 0))
      = volumePoint pu pv pw (fnOf Uul) (fnOf Uvl) (fnOf Uwl) su sv sw P u v w := by
  obtain ⟨ha1, hf1, hu1⟩ := normalize_affine Uul hneu hru u
  obtain ⟨ha2, hf2, hu2⟩ := normalize_affine Uvl hnev hrv v
  obtain ⟨ha3, hf3, hu3⟩ := normalize_affine Uwl hnew hrw w
  rw [hf1, hu1, hf2, hu2, hf3, hu3]
  exact volumePoint_affine_knots pu pv pw (fnOf Uul) (fnOf Uvl) (fnOf Uwl) su sv sw P u v w _ _ _ _ _ _ ha1 ha2 ha3

end Geomdl
