import NurbsVerif.Lemmas.Hull2DList

/-!
C20, `wn_poly`: the winding counter of a closed polygon
* is at least 1 for a point strictly left of every edge (no convexity needed),
* is 0 for a point that a line separates strictly from all vertices (no convexity needed),
hence for a convex counter-clockwise polygon and a point off the edge lines the test answers
"strictly left of every edge".
-/
namespace Geomdl
variable {K : Type} [Field K] [LinearOrder K] [IsStrictOrderedRing K]

/-! ### outside: a separating line -/

/-- the potential of the winding counter for vertices in the open half-plane
    `ex (y - pt.y) - ey (x - pt.x) > 0`: the ray from `pt` to the right lies in it iff `ey < 0`,
    and then a vertex counts 1 iff it is above the ray -/
def wnPot (pt : K × K) (ey : K) (v : K × K) : Int := if ey < 0 ∧ pt.2 < v.2 then 1 else 0

theorem wnEdge_halfplane (pt a b : K × K) (ex ey : K)
    (ha : 0 < ex * (a.2 - pt.2) - ey * (a.1 - pt.1)) (hb : 0 < ex * (b.2 - pt.2) - ey * (b.1 - pt.1)) :
    wnEdge pt a b = wnPot pt ey b - wnPot pt ey a := by
  have key : -ey * isLeft a b pt = (ex * (a.2 - pt.2) - ey * (a.1 - pt.1)) * (b.2 - pt.2)
      - (ex * (b.2 - pt.2) - ey * (b.1 - pt.1)) * (a.2 - pt.2) := by unfold isLeft; ring
  have F1 : a.2 ≤ pt.2 → pt.2 < b.2 → 0 < -ey * isLeft a b pt := by
    intro h1 h2
    rw [key]
    have p1 := mul_pos ha (sub_pos.mpr h2)
    have p2 := mul_nonneg (le_of_lt hb) (sub_nonneg.mpr h1)
    nlinarith
  have F2 : pt.2 < a.2 → b.2 ≤ pt.2 → -ey * isLeft a b pt < 0 := by
    intro h1 h2
    rw [key]
    have p1 := mul_pos hb (sub_pos.mpr h1)
    have p2 := mul_nonneg (le_of_lt ha) (sub_nonneg.mpr h2)
    nlinarith
  unfold wnEdge wnPot
  rcases lt_trichotomy ey 0 with hey | hey | hey
  · -- the ray is in the half-plane
    have hn : 0 < -ey := by linarith
    by_cases h1 : a.2 ≤ pt.2
    · have h1' : ¬ pt.2 < a.2 := not_lt.mpr h1
      by_cases h2 : pt.2 < b.2
      · have : 0 < isLeft a b pt := by
          have := F1 h1 h2
          exact (pos_iff_pos_of_mul_pos this).mp hn
        simp [h1, h2, this, hey, h1']
      · simp [h1, h2, hey, h1']
    · have h1' : pt.2 < a.2 := not_le.mp h1
      by_cases h2 : b.2 ≤ pt.2
      · have h2' : ¬ pt.2 < b.2 := not_lt.mpr h2
        have : isLeft a b pt < 0 := by
          have := F2 h1' h2
          by_contra hc
          have := mul_nonneg (le_of_lt hn) (not_lt.mp hc)
          linarith
        simp [h1, h2, this, hey, h1', h2']
      · have h2' : pt.2 < b.2 := not_le.mp h2
        simp [h1, h2, hey, h1', h2']
  · -- the half-plane is `y > pt.y` or `y < pt.y`: no edge crosses
    subst hey
    simp only [zero_mul, sub_zero] at ha hb
    have hnot : ¬ ((0:K) < 0) := lt_irrefl _
    by_cases h1 : a.2 ≤ pt.2
    · have hex : ex < 0 := by
        by_contra hc
        have := mul_nonneg (not_lt.mp hc) (sub_nonneg.mpr h1)
        nlinarith
      have h2 : ¬ pt.2 < b.2 := by
        intro h2
        have := mul_pos (neg_pos.mpr hex) (sub_pos.mpr h2)
        nlinarith
      simp [h1, h2]
    · have h1' : pt.2 < a.2 := not_le.mp h1
      have hex : 0 < ex := by
        by_contra hc
        have := mul_nonneg (neg_nonneg.mpr (not_lt.mp hc)) (le_of_lt (sub_pos.mpr h1'))
        nlinarith
      have h2 : ¬ b.2 ≤ pt.2 := by
        intro h2
        have := mul_nonneg (le_of_lt hex) (sub_nonneg.mpr h2)
        nlinarith
      simp [h1, h2]
  · -- the ray is outside: crossings never count
    have hn : ¬ ey < 0 := not_lt.mpr (le_of_lt hey)
    by_cases h1 : a.2 ≤ pt.2
    · by_cases h2 : pt.2 < b.2
      · have : ¬ 0 < isLeft a b pt := by
          intro hc
          have := F1 h1 h2
          have := mul_pos hey hc
          linarith
        simp [h1, h2, this, hn]
      · simp [h1, h2, hn]
    · have h1' : pt.2 < a.2 := not_le.mp h1
      by_cases h2 : b.2 ≤ pt.2
      · have : ¬ isLeft a b pt < 0 := by
          intro hc
          have := F2 h1' h2
          have := mul_pos hey (neg_pos.mpr hc)
          linarith
        simp [h1, h2, this, hn]
      · simp [h1, h2, hn]

/-- the winding counter of a chain inside an open half-plane seen from `pt` telescopes -/
theorem wnNum_halfplane (pt : K × K) (ex ey : K) : ∀ (a : K × K) (l : List (K × K)),
    (∀ v ∈ a :: l, 0 < ex * (v.2 - pt.2) - ey * (v.1 - pt.1)) →
    ∀ z, (a :: l).getLast? = some z → wnNum pt (a :: l) = wnPot pt ey z - wnPot pt ey a
  | a, [], _, z, hz => by
    simp only [List.getLast?_singleton, Option.some.injEq] at hz
    subst hz; simp
  | a, b :: l, h, z, hz => by
    rw [List.getLast?_cons_cons] at hz
    have ih := wnNum_halfplane pt ex ey b l (fun v hv => h v (List.mem_cons_of_mem _ hv)) z hz
    rw [wnNum_cons_cons, ih, wnEdge_halfplane pt a b ex ey (h a (by simp)) (h b (by simp))]
    omega

/-- **Outside.**  If some line separates `pt` strictly from all vertices of a closed polygon
    (`pt` strictly right of `a → b`, every vertex left of or on it), the winding counter is 0. -/
theorem wnNum_separated (pt a b : K × K) (poly : List (K × K)) (hclosed : poly.head? = poly.getLast?)
    (hpt : isLeft a b pt < 0) (hv : ∀ v ∈ poly, 0 ≤ isLeft a b v) : wnNum pt poly = 0 := by
  cases poly with
  | nil => rfl
  | cons v0 l =>
    have h := wnNum_halfplane pt (b.1 - a.1) (b.2 - a.2) v0 l (by
      intro v hvm
      have e : (b.1 - a.1) * (v.2 - pt.2) - (b.2 - a.2) * (v.1 - pt.1) = isLeft a b v - isLeft a b pt := by
        unfold isLeft; ring
      rw [e]; linarith [hv v hvm]) v0 (by rw [← hclosed]; rfl)
    rw [h]; omega

/-! ### inside: strictly left of every edge -/

theorem wnEdge_inside (pt a b : K × K) (h : 0 < isLeft a b pt) :
    wnEdge pt a b = if a.2 ≤ pt.2 ∧ pt.2 < b.2 then 1 else 0 := by
  unfold wnEdge
  have hn : ¬ isLeft a b pt < 0 := not_lt.mpr (le_of_lt h)
  by_cases h1 : a.2 ≤ pt.2 <;> by_cases h2 : pt.2 < b.2 <;> simp [h1, h2, h, hn]

theorem wnNum_inside_nonneg (pt : K × K) : ∀ (l : List (K × K)),
    (∀ e ∈ pairs l, 0 < isLeft e.1 e.2 pt) → 0 ≤ wnNum pt l
  | [], _ => by simp
  | [_], _ => by simp
  | a :: b :: rest, h => by
    have ih := wnNum_inside_nonneg pt (b :: rest) (fun e he => h e (by simp [pairs, he]))
    rw [wnNum_cons_cons, wnEdge_inside pt a b (h (a, b) (by simp [pairs]))]
    split_ifs <;> omega

/-- an upward crossing edge makes the counter positive -/
theorem wnNum_inside_pos (pt : K × K) : ∀ (l : List (K × K)),
    (∀ e ∈ pairs l, 0 < isLeft e.1 e.2 pt) →
    (∃ e ∈ pairs l, e.1.2 ≤ pt.2 ∧ pt.2 < e.2.2) → 1 ≤ wnNum pt l
  | [], _, ⟨e, he, _⟩ => by simp [pairs] at he
  | [_], _, ⟨e, he, _⟩ => by simp [pairs] at he
  | a :: b :: rest, h, ⟨e, he, hup⟩ => by
    have h' : ∀ e ∈ pairs (b :: rest), 0 < isLeft e.1 e.2 pt := fun e he => h e (by simp [pairs, he])
    have hnn := wnNum_inside_nonneg pt (b :: rest) h'
    rw [wnNum_cons_cons, wnEdge_inside pt a b (h (a, b) (by simp [pairs]))]
    simp only [pairs, List.mem_cons] at he
    rcases he with rfl | he
    · rw [if_pos hup]; omega
    · have ih := wnNum_inside_pos pt (b :: rest) h' ⟨e, he, hup⟩
      split_ifs <;> omega

/-- discrete intermediate value: a chain that starts at or below the height `h` and ends above it
    has an upward crossing edge -/
theorem exists_up_edge (h : K) : ∀ (l : List (K × K)) (a z : K × K), (a :: l).getLast? = some z →
    a.2 ≤ h → h < z.2 → ∃ e ∈ pairs (a :: l), e.1.2 ≤ h ∧ h < e.2.2
  | [], a, z, hz, h1, h2 => by
    simp only [List.getLast?_singleton, Option.some.injEq] at hz
    subst hz; exact absurd h2 (not_lt.mpr h1)
  | b :: l, a, z, hz, h1, h2 => by
    rw [List.getLast?_cons_cons] at hz
    by_cases hb : h < b.2
    · exact ⟨(a, b), by simp [pairs], h1, hb⟩
    · obtain ⟨e, he, hup⟩ := exists_up_edge h l b z hz (not_lt.mp hb) h2
      exact ⟨e, by simp [pairs, he], hup⟩

/-- a closed polygon with vertices on both sides of the height `h` has an upward crossing edge -/
theorem exists_up_edge_closed (h : K) (poly : List (K × K)) (hclosed : poly.head? = poly.getLast?)
    (v w : K × K) (hv : v ∈ poly) (hw : w ∈ poly) (h1 : v.2 ≤ h) (h2 : h < w.2) :
    ∃ e ∈ pairs poly, e.1.2 ≤ h ∧ h < e.2.2 := by
  cases poly with
  | nil => simp at hv
  | cons v0 l =>
    by_cases h0 : v0.2 ≤ h
    · -- walk from the first vertex to `w`
      obtain ⟨s, t, est⟩ := List.mem_iff_append.mp hw
      have : ∃ l', s ++ [w] = v0 :: l' := by
        cases s with
        | nil => simp at est; exact ⟨[], by rw [est.1]; rfl⟩
        | cons s0 s' => simp at est; exact ⟨s' ++ [w], by rw [est.1]; rfl⟩
      obtain ⟨l', hl'⟩ := this
      obtain ⟨e, he, hup⟩ := exists_up_edge h l' v0 w (by rw [← hl']; simp) h0 h2
      refine ⟨e, ?_, hup⟩
      rw [est, mem_pairs_append_cons, hl']; exact Or.inl he
    · -- walk from `v` to the last vertex (= the first one)
      obtain ⟨s, t, est⟩ := List.mem_iff_append.mp hv
      have hlast : (v :: t).getLast? = some v0 := by
        have : (v0 :: l).getLast? = (v :: t).getLast? := by
          rw [est, List.getLast?_append, List.getLast?_eq_some_getLast (List.cons_ne_nil v t)]; rfl
        rw [← this, ← hclosed]; rfl
      obtain ⟨e, he, hup⟩ := exists_up_edge h t v v0 hlast h1 (not_le.mp h0)
      refine ⟨e, ?_, hup⟩
      rw [est, mem_pairs_append_cons]; exact Or.inr he

end Geomdl
