import NurbsVerif.Lemmas.FitApprox
import NurbsVerif.Lemmas.Fitting
import NurbsVerif.Lemmas.Hull
import NurbsVerif.Lemmas.FitKnots2

/-! `fitting.approximate_curve` against the evaluated curve (`curvePoint`, A3.1): the curve starts and
    ends at the end data points; the least-squares statement for the evaluated curve, given that
    `basis_function_one` computes the Cox–de Boor functions at the interior parameters. -/
namespace Geomdl
open Blossom Finset Lin
variable {K : Type} [Field K] [LinearOrder K] [IsStrictOrderedRing K]

/-- shape of the returned control polygon -/
theorem approximateCurve_shape (p : ℕ) (pts : List (List K)) (cds : List K) (nc : ℕ) (fl : K → ℕ)
    (kv : List K) (cp : List (List K)) (d : ℕ) (hnc2 : 2 ≤ nc) (hnc : nc ≤ pts.length) (hP : NetOk d pts)
    (h : approximateCurve p pts cds nc fl = some (kv, cp)) :
    cp.length = nc ∧ NetOk d cp ∧ ptsGet cp 0 = pts.headD [] ∧ ptsGet cp (nc - 1) = pts.getLastD [] := by
  obtain ⟨_, x, hcp, hxl, hrows, _⟩ := approximateCurve_normal p pts cds nc fl kv cp hnc h
  obtain ⟨g0, _, g2, g3⟩ := ends_get (pts.headD []) (pts.getLastD []) x
  have hdim : (pts.headD []).length = d := dimOf_eq hP (by omega)
  have hne : pts ≠ [] := by intro e; rw [e] at hnc; simp at hnc; omega
  subst hcp
  refine ⟨by rw [g3, hxl]; omega, ?_, g0, ?_⟩
  · intro pt hpt
    simp only [List.mem_append, List.mem_singleton] at hpt
    rcases hpt with (rfl | hx) | rfl
    · exact hdim
    · rw [hrows pt hx, hdim]
    · rw [List.getLastD_eq_getLast?, List.getLast?_eq_getLast_of_ne_nil hne]
      exact hP _ (List.getLast_mem hne)
  · rw [show nc - 1 = x.length + 1 by omega]; exact g2

/-- **the approximating curve interpolates the end data points**: `C(0) = Q₀`, `C(1) = Q_m`
    (for a non-decreasing knot vector whose first and last spans are not empty) -/
theorem approximateCurve_interpolates_ends (p : ℕ) (pts : List (List K)) (cds : List K) (nc : ℕ) (fl : K → ℕ)
    (kv : List K) (cp : List (List K)) (d : ℕ) (hnc2 : 2 ≤ nc) (hpn : p + 1 ≤ nc) (hnc : nc ≤ pts.length)
    (hP : NetOk d pts) (h : approximateCurve p pts cds nc fl = some (kv, cp))
    (hm : Monotone (fnOf kv)) (h0 : 0 < fnOf kv (p + 1)) (h1 : fnOf kv (nc - 1) < 1) (c : ℕ) :
    (curvePoint p (fnOf kv) cp 0).getD c 0 = (pts.headD []).getD c 0 ∧
    (curvePoint p (fnOf kv) cp 1).getD c 0 = (pts.getLastD []).getD c 0 := by
  obtain ⟨hl, hN, hfirst, hlast⟩ := approximateCurve_shape p pts cds nc fl kv cp d hnc2 hnc hP h
  have hkv := (approximateCurve_normal p pts cds nc fl kv cp hnc h).1
  obtain ⟨hz, ho⟩ := computeKnotVector2_clamped p pts.length nc (computeParams cds) fl hpn
  rw [← hkv] at hz ho
  set U := fnOf kv with hU
  unfold curvePoint
  rw [hl]
  constructor
  · have hspan : findSpanLinear p U nc 0 = p :=
      findSpanLinear_unique p U nc 0 hpn hm (le_of_eq (hz p le_rfl)) (by rw [ho nc le_rfl]; exact zero_lt_one) p
        (le_of_eq (hz p le_rfl)) h0
    rw [hspan, curvePointAt_clamped_start p U cp p 0 d c hm (by rw [hz p le_rfl]; exact h0) le_rfl (by omega) hN
      (fun i _ hi => hz i hi), Nat.sub_self, hfirst]
  · obtain ⟨k1, k2, k3, k4⟩ := findSpanLinear_spec p U nc 1 hpn hm (by rw [hz p le_rfl]; exact zero_le_one)
    have hk : findSpanLinear p U nc 1 + 1 = nc := by
      rcases k4 with k4 | k4
      · exfalso
        have : U (findSpanLinear p U nc 1 + 1) ≤ U nc := hm (by omega)
        rw [ho nc le_rfl] at this
        exact absurd k4 (not_lt.mpr this)
      · exact k4
    have hk' : findSpanLinear p U nc 1 = nc - 1 := by omega
    rw [hk']
    have e : nc - 1 + 1 = nc := by omega
    rw [curvePointAt_clamped_end p U cp (nc - 1) 1 d c hm (by rw [e, ho nc le_rfl]; exact h1) (by omega) (by omega) hN
      (fun i hi _ => ho i (by omega)) (by rw [e, ho nc le_rfl]), hlast]

/-! ### the evaluated curve as the sum of `basis_function_one` values -/

/-- if `basis_function_one` returns the Cox–de Boor values at `u` (theorem `basisFunOne_eq_cdb` of C03),
    the evaluated curve point is `Σ_j N_{j,p}(u) P_j` with those values -/
theorem curvePoint_eq_basisFunOne_sum (p : ℕ) (U : ℕ → K) (m : ℕ) (P : List (List K)) (u : K) (d c : ℕ)
    (hm : Monotone U) (hpn : p + 1 ≤ P.length) (hlo : U p ≤ u) (hhi : u < U P.length) (hP : NetOk d P)
    (hB : ∀ j, j < P.length → basisFunOne p U m j u = cdb U p j u) :
    (curvePoint p U P u).getD c 0 = ∑ j ∈ range P.length, basisFunOne p U m j u * (ptsGet P j).getD c 0 := by
  obtain ⟨g1, g2, g3, g4⟩ := findSpanLinear_spec p U P.length u hpn hm hlo
  unfold curvePoint
  rw [curvePointAt_eq_cdb p U P _ u d c hm g3 (g4.elim id (fun e => by rw [e]; exact hhi)) g1 g2 hP]
  exact sum_congr rfl (fun j hj => by rw [hB j (mem_range.mp hj)])

/-- `Σ_{k=1}^{nd−2} |Q_k − C(ū_k)|²` with `C(ū_k)` the EVALUATED curve point (A3.1 at the span found by
    the linear search) -/
def lsqErrorEval (p : ℕ) (U : ℕ → K) (uk : List K) (pts : List (List K)) (d : ℕ) (P : List (List K)) : K :=
  ∑ k ∈ Ico 1 (pts.length - 1), ∑ c ∈ range d,
    ((ptsGet pts k).getD c 0 - (curvePoint p U P (uk.getD k 0)).getD c 0) ^ 2

theorem lsqErrorEval_eq (p : ℕ) (U : ℕ → K) (m : ℕ) (uk : List K) (pts : List (List K)) (d : ℕ) (P : List (List K))
    (hm : Monotone U) (hpn : p + 1 ≤ P.length) (hP : NetOk d P)
    (hdom : ∀ k, 1 ≤ k → k + 1 < pts.length → U p ≤ uk.getD k 0 ∧ uk.getD k 0 < U P.length)
    (hB : ∀ k, 1 ≤ k → k + 1 < pts.length → ∀ j, j < P.length →
      basisFunOne p U m j (uk.getD k 0) = cdb U p j (uk.getD k 0)) :
    lsqErrorEval p U uk pts d P = lsqError p U m uk pts d P := by
  unfold lsqErrorEval lsqError
  apply sum_congr rfl
  intro k hk
  obtain ⟨k1, k2⟩ := mem_Ico.mp hk
  apply sum_congr rfl
  intro c _
  rw [curvePoint_eq_basisFunOne_sum p U m P _ d c hm hpn (hdom k k1 (by omega)).1 (hdom k k1 (by omega)).2 hP
    (hB k k1 (by omega))]

/-- **least squares for the evaluated curve**: if `basis_function_one` returns the Cox–de Boor values at
    the interior parameters and these lie in the half-open domain, the returned control polygon
    minimises the summed squared distance between the interior data points and the evaluated curve
    points, among all polygons with the same end points. -/
theorem approximateCurve_minimises_evaluated (p : ℕ) (pts : List (List K)) (cds : List K) (nc : ℕ) (fl : K → ℕ)
    (kv : List K) (cp : List (List K)) (d : ℕ) (hnc2 : 2 ≤ nc) (hpn : p + 1 ≤ nc) (hnc : nc ≤ pts.length)
    (hP : NetOk d pts) (h : approximateCurve p pts cds nc fl = some (kv, cp))
    (hm : Monotone (fnOf kv))
    (hdom : ∀ k, 1 ≤ k → k + 1 < pts.length →
      fnOf kv p ≤ (computeParams cds).getD k 0 ∧ (computeParams cds).getD k 0 < fnOf kv nc)
    (hB : ∀ k, 1 ≤ k → k + 1 < pts.length → ∀ j, j < nc →
      basisFunOne p (fnOf kv) kv.length j ((computeParams cds).getD k 0) = cdb (fnOf kv) p j ((computeParams cds).getD k 0))
    (y : List (List K)) (hy : y.length = nc - 2) (hyd : NetOk d y) :
    lsqErrorEval p (fnOf kv) (computeParams cds) pts d cp
      ≤ lsqErrorEval p (fnOf kv) (computeParams cds) pts d ([pts.headD []] ++ y ++ [pts.getLastD []]) := by
  obtain ⟨hl, hN, _, _⟩ := approximateCurve_shape p pts cds nc fl kv cp d hnc2 hnc hP h
  have hdim : (pts.headD []).length = d := dimOf_eq hP (by omega)
  have hne : pts ≠ [] := by intro e; rw [e] at hnc; simp at hnc; omega
  have hyl : ([pts.headD []] ++ y ++ [pts.getLastD []]).length = nc := by simp [hy]; omega
  have hyN : NetOk d ([pts.headD []] ++ y ++ [pts.getLastD []]) := by
    intro pt hpt
    simp only [List.mem_append, List.mem_singleton] at hpt
    rcases hpt with (rfl | hx) | rfl
    · exact hdim
    · exact hyd pt hx
    · rw [List.getLastD_eq_getLast?, List.getLast?_eq_getLast_of_ne_nil hne]
      exact hP _ (List.getLast_mem hne)
  rw [lsqErrorEval_eq p (fnOf kv) kv.length _ pts d cp hm (by rw [hl]; exact hpn) hN (by rw [hl]; exact hdom)
        (by rw [hl]; exact hB),
      lsqErrorEval_eq p (fnOf kv) kv.length _ pts d _ hm (by rw [hyl]; exact hpn) hyN (by rw [hyl]; exact hdom)
        (by rw [hyl]; exact hB), ← hdim]
  exact approximateCurve_minimises p pts cds nc fl kv cp hnc2 hnc h y hy

/-! ### data with distinct consecutive points: the hypotheses on the knot vector hold -/

/-- for positive chord lengths and `floorK = int(·)`, the knot vector of the approximation is
    non-decreasing, its first and last spans are not empty, and the interior parameters lie in the
    half-open domain -/
theorem approx_knots_ok (p : ℕ) (cds : List K) (nc : ℕ) (fl : K → ℕ) (hfl : IsFloor fl)
    (hp : 1 ≤ p) (hpn : p + 1 ≤ nc) (hnd : nc ≤ cds.length + 1) (hpos : ∀ x ∈ cds, 0 < x) :
    let U := fnOf (computeKnotVector2 p (cds.length + 1) nc (computeParams cds) fl)
    Monotone U ∧ 0 < U (p + 1) ∧ U (nc - 1) < 1 ∧
    ∀ k, 1 ≤ k → k + 1 < cds.length + 1 →
      U p ≤ (computeParams cds).getD k 0 ∧ (computeParams cds).getD k 0 < U nc := by
  intro U
  have hne : cds ≠ [] := by intro e; rw [e] at hnd; simp at hnd; omega
  have hnn : ∀ x ∈ cds, (0:K) ≤ x := fun x hx => le_of_lt (hpos x hx)
  have hs : 0 < sumL cds := by rw [sumL_eq_sum]; exact List.sum_pos _ hpos hne
  have h0 : ∀ i, 0 ≤ (computeParams cds).getD i 0 := by
    intro i
    by_cases hi : i ≤ cds.length
    · exact (computeParams_range cds hnn hs i hi).1
    · rw [List.getD_eq_default _ _ (by rw [computeParams_length]; omega)]
  have h1 : ∀ i, (computeParams cds).getD i 0 ≤ 1 := by
    intro i
    by_cases hi : i ≤ cds.length
    · exact (computeParams_range cds hnn hs i hi).2
    · rw [List.getD_eq_default _ _ (by rw [computeParams_length]; omega)]; exact zero_le_one
  have hmono : ∀ i j, i ≤ j → j < cds.length + 1 → (computeParams cds).getD i 0 ≤ (computeParams cds).getD j 0 :=
    fun i j hij hj => computeParams_mono cds hnn hs i j hij (by omega)
  have hstrict : ∀ i j, i < j → j < cds.length + 1 → (computeParams cds).getD i 0 < (computeParams cds).getD j 0 :=
    fun i j hij hj => computeParams_strictMono cds hpos i j hij (by omega)
  have hlast : (computeParams cds).getD (cds.length + 1 - 1) 0 = 1 := by
    rw [Nat.add_sub_cancel]; exact computeParams_last cds (ne_of_gt hs)
  obtain ⟨e1, e2⟩ := computeKnotVector2_ends p (cds.length + 1) nc (computeParams cds) fl hfl hp hpn hnd
    (computeParams_first cds) hlast hstrict
  obtain ⟨hz, ho⟩ := computeKnotVector2_clamped p (cds.length + 1) nc (computeParams cds) fl hpn
  refine ⟨computeKnotVector2_mono p (cds.length + 1) nc (computeParams cds) fl hfl hpn (by omega) h0 h1 hmono,
    e1, e2, fun k hk1 hk2 => ⟨?_, ?_⟩⟩
  · show fnOf _ p ≤ _
    rw [hz p le_rfl]; exact h0 k
  · show _ < fnOf _ nc
    rw [ho nc le_rfl, ← computeParams_last cds (ne_of_gt hs)]
    exact hstrict k cds.length (by omega) (by omega)

/-- **end point interpolation, data with distinct consecutive points** -/
theorem approximateCurve_interpolates_ends_distinct (p : ℕ) (pts : List (List K)) (cds : List K) (nc : ℕ) (fl : K → ℕ)
    (kv : List K) (cp : List (List K)) (d : ℕ) (hfl : IsFloor fl) (hp : 1 ≤ p) (hpn : p + 1 ≤ nc)
    (hnc : nc ≤ pts.length) (hlen : cds.length + 1 = pts.length) (hpos : ∀ x ∈ cds, 0 < x)
    (hP : NetOk d pts) (h : approximateCurve p pts cds nc fl = some (kv, cp)) (c : ℕ) :
    (curvePoint p (fnOf kv) cp 0).getD c 0 = (pts.headD []).getD c 0 ∧
    (curvePoint p (fnOf kv) cp 1).getD c 0 = (pts.getLastD []).getD c 0 := by
  have hkv := (approximateCurve_normal p pts cds nc fl kv cp hnc h).1
  obtain ⟨g1, g2, g3, _⟩ := approx_knots_ok p cds nc fl hfl hp hpn (by omega) hpos
  rw [hlen, ← hkv] at g1 g2 g3
  exact approximateCurve_interpolates_ends p pts cds nc fl kv cp d (by omega) hpn hnc hP h g1 g2 g3 c

/-- **least squares for the evaluated curve, data with distinct consecutive points**: the only
    remaining hypothesis besides "the solver returns" is that `basis_function_one` returns the
    Cox–de Boor values at the interior parameters -/
theorem approximateCurve_minimises_evaluated_distinct (p : ℕ) (pts : List (List K)) (cds : List K) (nc : ℕ) (fl : K → ℕ)
    (kv : List K) (cp : List (List K)) (d : ℕ) (hfl : IsFloor fl) (hp : 1 ≤ p) (hpn : p + 1 ≤ nc)
    (hnc : nc ≤ pts.length) (hlen : cds.length + 1 = pts.length) (hpos : ∀ x ∈ cds, 0 < x)
    (hP : NetOk d pts) (h : approximateCurve p pts cds nc fl = some (kv, cp))
    (hB : ∀ k, 1 ≤ k → k + 1 < pts.length → ∀ j, j < nc →
      basisFunOne p (fnOf kv) kv.length j ((computeParams cds).getD k 0) = cdb (fnOf kv) p j ((computeParams cds).getD k 0))
    (y : List (List K)) (hy : y.length = nc - 2) (hyd : NetOk d y) :
    lsqErrorEval p (fnOf kv) (computeParams cds) pts d cp
      ≤ lsqErrorEval p (fnOf kv) (computeParams cds) pts d ([pts.headD []] ++ y ++ [pts.getLastD []]) := by
  have hkv := (approximateCurve_normal p pts cds nc fl kv cp hnc h).1
  obtain ⟨g1, _, _, g4⟩ := approx_knots_ok p cds nc fl hfl hp hpn (by omega) hpos
  rw [hlen, ← hkv] at g1 g4
  exact approximateCurve_minimises_evaluated p pts cds nc fl kv cp d (by omega) hpn hnc hP h g1 g4 hB y hy hyd

end Geomdl
