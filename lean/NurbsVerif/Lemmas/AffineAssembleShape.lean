import NurbsVerif.Lemmas.AffineAssemble
import NurbsVerif.Lemmas.VolRefineShape

/-!
  C10, assembly part 2: END-TO-END statements about the model functions `translate`, `scale`, `rotate`
  of `Model/Transform.lean` acting on a `Shape`, evaluated through the span search.

  * `Shape.pointAt S t` – the evaluated point of a curve / surface / volume shape at the parameter tuple
    `(t 0, t 1, t 2)`, projected when the shape is rational: literally the expression the model's
    `startPoint` evaluates (`startPoint_eq_pointAt` is `rfl`), unfolded per kind by `pointAt_curve`, … .
  * `ShapeWF d S` – well-formed shape with `d` Cartesian coordinates (1–3 parametric directions, each with a
    well-formed knot function, net of the right size, positive weights when rational).
  * `mapPts_pointAt` – any affine map of the coordinates applied by `Shape.mapPts` moves every evaluated
    point of the closed domain by that map; `translate_pointAt`, `scale_pointAt`, `rotate_pointAt`.
-/
namespace Geomdl
open Blossom Finset
variable {K : Type} [Field K] [LinearOrder K] [IsStrictOrderedRing K]

/-- the point the evaluator computes at the parameter tuple `t` before the rational projection
    (homogeneous `(x·w, w)` for a rational shape): curve, surface or volume by the number of directions -/
def Shape.homAt (S : Shape K) (t : ℕ → K) : List K :=
  let U (d : Nat) := fnOf (S.kv d)
  if S.pdim = 1 then curvePoint (S.deg 0) (U 0) S.net (t 0)
  else if S.pdim = 2 then surfacePoint (S.deg 0) (S.deg 1) (U 0) (U 1) (S.size 0) (S.size 1) S.net (t 0) (t 1)
  else volumePoint (S.deg 0) (S.deg 1) (S.deg 2) (U 0) (U 1) (U 2) (S.size 0) (S.size 1) (S.size 2) S.net (t 0) (t 1) (t 2)

/-- the evaluated point at the parameter tuple `t` (the expression `startPoint` evaluates at the domain start) -/
def Shape.pointAt (S : Shape K) (t : ℕ → K) : List K :=
  if S.rat then project (S.homAt t) else S.homAt t

/-- the start of the parametric domain, per direction -/
def Shape.domStart (S : Shape K) : ℕ → K := fun i => fnOf (S.kv i) (S.deg i)

/-- the rotation centre of the model IS the evaluated point at the domain start -/
theorem startPoint_eq_pointAt (S : Shape K) : startPoint S = S.pointAt S.domStart := rfl

/-- the homogeneous (unprojected) point of a curve shape -/
abbrev crvEval (S : Shape K) (u : K) : List K := curvePoint (S.deg 0) (fnOf (S.kv 0)) S.net u

theorem pointAt_eq (S : Shape K) (t : ℕ → K) : S.pointAt t = if S.rat then project (S.homAt t) else S.homAt t := rfl

theorem homAt_curve (S : Shape K) (t : ℕ → K) (h1 : S.pdim = 1) : S.homAt t = crvEval S (t 0) := by
  unfold Shape.homAt
  simp only [h1, if_true]

theorem homAt_surface (S : Shape K) (t : ℕ → K) (h2 : S.pdim = 2) : S.homAt t = surfEval S (t 0) (t 1) := by
  unfold Shape.homAt
  simp only [h2, if_true, show ¬ ((2 : ℕ) = 1) by omega, if_false]

theorem homAt_volume (S : Shape K) (t : ℕ → K) (h3 : S.pdim = 3) : S.homAt t = volEval S (t 0) (t 1) (t 2) := by
  unfold Shape.homAt
  simp only [h3, show ¬ ((3 : ℕ) = 1) by omega, show ¬ ((3 : ℕ) = 2) by omega, if_false]

theorem pointAt_curve (S : Shape K) (t : ℕ → K) (h1 : S.pdim = 1) :
    S.pointAt t = if S.rat then project (crvEval S (t 0)) else crvEval S (t 0) := by
  rw [pointAt_eq, homAt_curve S t h1]

theorem pointAt_surface (S : Shape K) (t : ℕ → K) (h2 : S.pdim = 2) :
    S.pointAt t = if S.rat then project (surfEval S (t 0) (t 1)) else surfEval S (t 0) (t 1) := by
  rw [pointAt_eq, homAt_surface S t h2]

theorem pointAt_volume (S : Shape K) (t : ℕ → K) (h3 : S.pdim = 3) :
    S.pointAt t = if S.rat then project (volEval S (t 0) (t 1) (t 2)) else volEval S (t 0) (t 1) (t 2) := by
  rw [pointAt_eq, homAt_volume S t h3]

/-- number of control points the directions ask for -/
def Shape.netSize (S : Shape K) : ℕ :=
  if S.pdim = 1 then S.size 0 else if S.pdim = 2 then S.size 0 * S.size 1 else S.size 0 * S.size 1 * S.size 2

/-- a well-formed curve / surface / volume shape with `d` Cartesian coordinates: every parametric
    direction has a well-formed knot function (non-decreasing, at least degree + 1 control points,
    non-empty last span) given by a knot list of `size + degree + 1` knots, degree ≥ 1 (the driver's `shapeOk` / the
    library's setters), the net has the right number of points, each with `d` (`d + 1` when rational)
    coordinates, and the weights of a rational shape are positive -/
structure ShapeWF (d : ℕ) (S : Shape K) : Prop where
  pdim : S.pdim = 1 ∨ S.pdim = 2 ∨ S.pdim = 3
  dirs : ∀ i, i < S.pdim → KnotsOk (S.deg i) (fnOf (S.kv i)) (S.size i)
  netlen : S.net.length = S.netSize
  net : NetOk (if S.rat then d + 1 else d) S.net
  wpos : S.rat = true → ∀ pt ∈ S.net, 0 < pt.getD d 0
  /-- `len(U) = n + p + 1` in every direction (otherwise the knot-vector setter raises "Input is not a valid knot
      vector"; `fnOf` would pad a short list with its last knot) -/
  kvlen : ∀ i, i < S.pdim → (S.kv i).length = S.size i + S.deg i + 1
  /-- every degree is at least 1 (the degree setters refuse 0) -/
  deg1 : ∀ i, i < S.pdim → 1 ≤ S.deg i

/-- the parameter tuple lies in the closed domain of every direction -/
def Shape.InDom (S : Shape K) (t : ℕ → K) : Prop :=
  ∀ i, i < S.pdim → fnOf (S.kv i) (S.deg i) ≤ t i ∧ t i ≤ fnOf (S.kv i) (S.size i)

theorem ShapeWF.domStart_inDom {d : ℕ} {S : Shape K} (h : ShapeWF d S) : S.InDom S.domStart := by
  intro i hi
  have hk := h.dirs i hi
  exact ⟨le_refl _, hk.mono (by have := hk.pn; omega)⟩

/-! ### what `Shape.mapPts` keeps -/

theorem onCartesian_false (f : List K → List K) : onCartesian false f = f := by
  funext pt; simp [onCartesian]

theorem mapPts_net_rat (S : Shape K) (f : List K → List K) (hr : S.rat = true) :
    (S.mapPts f).net = S.net.map (onCartesian true f) := by
  show S.net.map (onCartesian S.rat f) = _
  rw [hr]

theorem mapPts_net_nonrat (S : Shape K) (f : List K → List K) (hr : S.rat = false) :
    (S.mapPts f).net = S.net.map f := by
  show S.net.map (onCartesian S.rat f) = _
  rw [hr, onCartesian_false]

/-- a length-preserving map of the Cartesian points keeps well-formedness (knots, sizes, degrees and the
    rational flag are untouched; weights are unchanged, hence still positive) -/
theorem ShapeWF.mapPts {d : ℕ} {S : Shape K} (h : ShapeWF d S) (f : List K → List K)
    (hf : ∀ pt : List K, pt.length = d → (f pt).length = d) : ShapeWF d (S.mapPts f) := by
  refine ⟨h.pdim, h.dirs, ?_, ?_, ?_, h.kvlen, h.deg1⟩
  · show (S.net.map _).length = S.netSize
    rw [List.length_map]; exact h.netlen
  · show NetOk (if S.rat then d + 1 else d) (S.mapPts f).net
    cases hr : S.rat with
    | true =>
      rw [mapPts_net_rat S f hr]
      have hn := h.net; rw [hr] at hn
      simpa using (onCartesian_net d f S.net (by simpa using hn) hf).1
    | false =>
      rw [mapPts_net_nonrat S f hr]
      have hn := h.net; rw [hr] at hn
      simpa using netOk_map d d f S.net (by simpa using hn) hf
  · intro hr pt hpt
    have hr' : S.rat = true := hr
    rw [mapPts_net_rat S f hr'] at hpt
    simp only [List.mem_map] at hpt
    obtain ⟨x, hx, rfl⟩ := hpt
    have hn := h.net; rw [hr'] at hn
    rw [onCartesian_weight d f x ((by simpa using hn : NetOk (d+1) S.net) x hx) hf]
    exact h.wpos hr' x hx

theorem mapPts_inDom (S : Shape K) (f : List K → List K) (t : ℕ → K) : (S.mapPts f).InDom t ↔ S.InDom t := Iff.rfl

theorem mapPts_domStart (S : Shape K) (f : List K → List K) : (S.mapPts f).domStart = S.domStart := rfl

/-! ### length of the evaluated point -/

theorem ShapeWF.homAt_length {d : ℕ} {S : Shape K} (h : ShapeWF d S) (t : ℕ → K) :
    (S.homAt t).length = if S.rat then d + 1 else d := by
  have hnl := h.netlen
  unfold Shape.netSize at hnl
  have hn := h.net
  rcases h.pdim with h1 | h2 | h3
  · rw [homAt_curve S t h1]
    simp only [h1, if_true] at hnl
    have := (h.dirs 0 (by omega)).pn
    exact curvePoint_length _ _ _ _ _ (by omega) hn
  · rw [homAt_surface S t h2]
    simp only [h2, show ¬ ((2 : ℕ) = 1) by omega, if_false, if_true] at hnl
    exact surfacePoint_length _ _ _ _ _ _ _ _ _ _ (h.dirs 0 (by omega)).pn (h.dirs 1 (by omega)).pn hnl hn
  · rw [homAt_volume S t h3]
    simp only [h3, show ¬ ((3 : ℕ) = 1) by omega, show ¬ ((3 : ℕ) = 2) by omega, if_false] at hnl
    exact volumePoint_length _ _ _ _ _ _ _ _ _ _ _ _ _ _ (h.dirs 0 (by omega)).pn (h.dirs 1 (by omega)).pn
      (h.dirs 2 (by omega)).pn hnl hn

theorem ShapeWF.pointAt_length {d : ℕ} {S : Shape K} (h : ShapeWF d S) (t : ℕ → K) : (S.pointAt t).length = d := by
  have hl := h.homAt_length t
  rw [pointAt_eq]
  cases hr : S.rat with
  | true =>
    rw [hr] at hl
    simp only [if_true] at hl ⊢
    exact project_length _ d hl
  | false =>
    rw [hr] at hl
    simpa using hl

/-! ### the main statement: an affine map applied by `Shape.mapPts` moves every evaluated point -/

/-- the unprojected point of the mapped net is the unprojected point of the original shape with the
    mapped net put in its place (degrees, knots, sizes are untouched by `mapPts`) -/
theorem mapPts_homAt_eq (S : Shape K) (f : List K → List K) (t : ℕ → K) :
    (S.mapPts f).homAt t = ({ S with net := S.net.map (onCartesian S.rat f) } : Shape K).homAt t := rfl

/-- non-rational shapes -/
theorem mapPts_homAt_nonrat {d : ℕ} {S : Shape K} (h : ShapeWF d S) (hr : S.rat = false)
    (f : List K → List K) (A : ℕ → ℕ → K) (b : ℕ → K)
    (hf : AffOn d f A b) (t : ℕ → K) (ht : S.InDom t) : (S.mapPts f).homAt t = f (S.homAt t) := by
  have hnl := h.netlen
  unfold Shape.netSize at hnl
  have hn := h.net
  rw [hr] at hn
  have hn' : NetOk d S.net := by simpa using hn
  have hnet := mapPts_net_nonrat S f hr
  rcases h.pdim with h1 | h2 | h3
  · rw [homAt_curve S t h1, homAt_curve (S.mapPts f) t h1]
    show curvePoint (S.deg 0) (fnOf (S.kv 0)) (S.mapPts f).net (t 0) = _
    rw [hnet]
    simp only [h1, if_true] at hnl
    have hk := h.dirs 0 (by omega)
    rw [← hnl] at hk
    have := ht 0 (by omega)
    rw [← hnl] at this
    exact curvePoint_map_affine _ _ _ _ d hk hn' this.1 this.2 f A b hf
  · rw [homAt_surface S t h2, homAt_surface (S.mapPts f) t h2]
    show surfacePoint (S.deg 0) (S.deg 1) (fnOf (S.kv 0)) (fnOf (S.kv 1)) (S.size 0) (S.size 1) (S.mapPts f).net (t 0) (t 1) = _
    rw [hnet]
    simp only [h2, show ¬ ((2 : ℕ) = 1) by omega, if_false, if_true] at hnl
    have t0 := ht 0 (by omega)
    have t1 := ht 1 (by omega)
    exact surfacePoint_map_affine _ _ _ _ _ _ _ _ _ d (h.dirs 0 (by omega)) (h.dirs 1 (by omega)) hnl hn'
      t0.1 t0.2 t1.1 t1.2 f A b hf
  · rw [homAt_volume S t h3, homAt_volume (S.mapPts f) t h3]
    show volumePoint (S.deg 0) (S.deg 1) (S.deg 2) (fnOf (S.kv 0)) (fnOf (S.kv 1)) (fnOf (S.kv 2))
      (S.size 0) (S.size 1) (S.size 2) (S.mapPts f).net (t 0) (t 1) (t 2) = _
    rw [hnet]
    simp only [h3, show ¬ ((3 : ℕ) = 1) by omega, show ¬ ((3 : ℕ) = 2) by omega, if_false] at hnl
    have t0 := ht 0 (by omega)
    have t1 := ht 1 (by omega)
    have t2 := ht 2 (by omega)
    exact volumePoint_map_affine _ _ _ _ _ _ _ _ _ _ _ _ _ d (h.dirs 0 (by omega)) (h.dirs 1 (by omega))
      (h.dirs 2 (by omega)) hnl hn' t0.1 t0.2 t1.1 t1.2 t2.1 t2.2 f A b hf

/-- rational shapes: the evaluated weight is unchanged and positive, the projected point is mapped -/
theorem mapPts_homAt_rat {d : ℕ} {S : Shape K} (h : ShapeWF d S) (hr : S.rat = true)
    (f : List K → List K) (A : ℕ → ℕ → K) (b : ℕ → K)
    (hf : AffOn d f A b) (t : ℕ → K) (ht : S.InDom t) :
    ((S.mapPts f).homAt t).getD d 0 = (S.homAt t).getD d 0 ∧ 0 < (S.homAt t).getD d 0 ∧
    project ((S.mapPts f).homAt t) = f (project (S.homAt t)) := by
  have hnl := h.netlen
  unfold Shape.netSize at hnl
  have hn := h.net
  rw [hr] at hn
  have hn' : NetOk (d+1) S.net := by simpa using hn
  have hw := h.wpos hr
  have hnet := mapPts_net_rat S f hr
  rcases h.pdim with h1 | h2 | h3
  · rw [homAt_curve S t h1, homAt_curve (S.mapPts f) t h1]
    show (curvePoint (S.deg 0) (fnOf (S.kv 0)) (S.mapPts f).net (t 0)).getD d 0 = _ ∧ _ ∧
      project (curvePoint (S.deg 0) (fnOf (S.kv 0)) (S.mapPts f).net (t 0)) = _
    rw [hnet]
    simp only [h1, if_true] at hnl
    have hk := h.dirs 0 (by omega)
    rw [← hnl] at hk
    have := ht 0 (by omega)
    rw [← hnl] at this
    exact curvePoint_map_affine_rat _ _ _ _ d hk hn' this.1 this.2 hw f A b hf
  · rw [homAt_surface S t h2, homAt_surface (S.mapPts f) t h2]
    show (surfacePoint (S.deg 0) (S.deg 1) (fnOf (S.kv 0)) (fnOf (S.kv 1)) (S.size 0) (S.size 1) (S.mapPts f).net (t 0) (t 1)).getD d 0 = _
      ∧ _ ∧ project (surfacePoint (S.deg 0) (S.deg 1) (fnOf (S.kv 0)) (fnOf (S.kv 1)) (S.size 0) (S.size 1) (S.mapPts f).net (t 0) (t 1)) = _
    rw [hnet]
    simp only [h2, show ¬ ((2 : ℕ) = 1) by omega, if_false, if_true] at hnl
    have t0 := ht 0 (by omega)
    have t1 := ht 1 (by omega)
    exact surfacePoint_map_affine_rat _ _ _ _ _ _ _ _ _ d (h.dirs 0 (by omega)) (h.dirs 1 (by omega)) hnl hn'
      t0.1 t0.2 t1.1 t1.2 hw f A b hf
  · rw [homAt_volume S t h3, homAt_volume (S.mapPts f) t h3]
    show (volumePoint (S.deg 0) (S.deg 1) (S.deg 2) (fnOf (S.kv 0)) (fnOf (S.kv 1)) (fnOf (S.kv 2))
        (S.size 0) (S.size 1) (S.size 2) (S.mapPts f).net (t 0) (t 1) (t 2)).getD d 0 = _ ∧ _ ∧
      project (volumePoint (S.deg 0) (S.deg 1) (S.deg 2) (fnOf (S.kv 0)) (fnOf (S.kv 1)) (fnOf (S.kv 2))
        (S.size 0) (S.size 1) (S.size 2) (S.mapPts f).net (t 0) (t 1) (t 2)) = _
    rw [hnet]
    simp only [h3, show ¬ ((3 : ℕ) = 1) by omega, show ¬ ((3 : ℕ) = 2) by omega, if_false] at hnl
    have t0 := ht 0 (by omega)
    have t1 := ht 1 (by omega)
    have t2 := ht 2 (by omega)
    exact volumePoint_map_affine_rat _ _ _ _ _ _ _ _ _ _ _ _ _ d (h.dirs 0 (by omega)) (h.dirs 1 (by omega))
      (h.dirs 2 (by omega)) hnl hn' t0.1 t0.2 t1.1 t1.2 t2.1 t2.2 hw f A b hf

/-- **every evaluated point of the closed domain moves by the map** (curves, surfaces, volumes;
    rational – projected point – or not) -/
theorem mapPts_pointAt {d : ℕ} {S : Shape K} (h : ShapeWF d S) (f : List K → List K) (A : ℕ → ℕ → K) (b : ℕ → K)
    (hf : AffOn d f A b) (t : ℕ → K) (ht : S.InDom t) : (S.mapPts f).pointAt t = f (S.pointAt t) := by
  rw [pointAt_eq, pointAt_eq]
  show (if S.rat then project ((S.mapPts f).homAt t) else (S.mapPts f).homAt t) = _
  cases hr : S.rat with
  | false =>
    simp only [Bool.false_eq_true, if_false]
    exact mapPts_homAt_nonrat h hr f A b hf t ht
  | true =>
    simp only [if_true]
    exact (mapPts_homAt_rat h hr f A b hf t ht).2.2

end Geomdl
