import NurbsVerif.Lemmas.BasisPositiveCtrlpts
import NurbsVerif.Lemmas.AssembleHull

/-!
  C18 × C20: the hull statements of the evaluated point phrased with the OUTPUT of
  `operations.find_ctrlpts` (`findCtrlptsCurve` / `findCtrlptsSurface`), and the strict version:
  strictly inside a span the point is a convex combination of the returned control points with
  strictly positive coefficients.
-/
namespace Geomdl
open Blossom Finset
variable {K : Type} [Field K] [LinearOrder K] [IsStrictOrderedRing K]

theorem curvePoint_in_hull_findCtrlpts (p : ℕ) (U : ℕ → K) (P : List (List K)) (u : K) (d : ℕ)
    (hU : KnotsOk p U P.length) (hP : NetOk d P) (h1 : U p ≤ u) (h2 : u ≤ U P.length) (A : ℕ → K) (lo hi : K)
    (hlo : ∀ r, r ≤ p → lo ≤ ∑ l ∈ range d, A l * ((findCtrlptsCurve [] p U P u).getD r []).getD l 0)
    (hhi : ∀ r, r ≤ p → ∑ l ∈ range d, A l * ((findCtrlptsCurve [] p U P u).getD r []).getD l 0 ≤ hi) :
    lo ≤ ∑ l ∈ range d, A l * (curvePoint p U P u).getD l 0 ∧
      ∑ l ∈ range d, A l * (curvePoint p U P u).getD l 0 ≤ hi := by
  apply curvePoint_in_hull p U P u d hU hP h1 h2 A lo hi
  · intro r hr
    have := hlo r hr
    rwa [findCtrlptsCurve_getD [] p U P u r hr] at this
  · intro r hr
    have := hhi r hr
    rwa [findCtrlptsCurve_getD [] p U P u r hr] at this

theorem surfacePoint_in_hull_findCtrlpts (pu pv : ℕ) (Uu Uv : ℕ → K) (su sv : ℕ) (P : List (List K))
    (P2 : List (List (List K))) (u v : K) (d : ℕ)
    (hUu : KnotsOk pu Uu su) (hUv : KnotsOk pv Uv sv) (hlen : P.length = su * sv) (hP : NetOk d P)
    (hP2 : ∀ a b, a < su → b < sv → (P2.getD a []).getD b [] = ptsGet P (b + sv * a))
    (hu1 : Uu pu ≤ u) (hu2 : u ≤ Uu su) (hv1 : Uv pv ≤ v) (hv2 : v ≤ Uv sv) (A : ℕ → K) (lo hi : K)
    (hlo : ∀ a b, a ≤ pu → b ≤ pv → lo ≤ ∑ l ∈ range d, A l *
      (((findCtrlptsSurface [] pu pv Uu Uv su sv P2 u v).getD a []).getD b []).getD l 0)
    (hhi : ∀ a b, a ≤ pu → b ≤ pv → ∑ l ∈ range d, A l *
      (((findCtrlptsSurface [] pu pv Uu Uv su sv P2 u v).getD a []).getD b []).getD l 0 ≤ hi) :
    lo ≤ ∑ l ∈ range d, A l * (surfacePoint pu pv Uu Uv su sv P u v).getD l 0 ∧
      ∑ l ∈ range d, A l * (surfacePoint pu pv Uu Uv su sv P u v).getD l 0 ≤ hi := by
  obtain ⟨_, hpu, hku⟩ := findSpanLinear_dom hUu u hu1 hu2
  obtain ⟨_, hpv, hkv⟩ := findSpanLinear_dom hUv v hv1 hv2
  apply surfacePoint_in_hull pu pv Uu Uv su sv P u v d hUu hUv hlen hP hu1 hu2 hv1 hv2 A lo hi
  · intro a b ha hb
    have := hlo a b ha hb
    rwa [findCtrlptsSurface_getD [] pu pv Uu Uv su sv P2 u v a b ha hb, hP2 _ _ (by omega) (by omega)] at this
  · intro a b ha hb
    have := hhi a b ha hb
    rwa [findCtrlptsSurface_getD [] pu pv Uu Uv su sv P2 u v a b ha hb, hP2 _ _ (by omega) (by omega)] at this

/-- strictly inside a span: the evaluated point is the combination of the `p+1` returned control
    points with coefficients that are all positive and sum to one -/
theorem curvePoint_pos_combination_findCtrlpts (p : ℕ) (U : ℕ → K) (P : List (List K)) (u : K) (d : ℕ)
    (hm : Monotone U) (hpn : p + 1 ≤ P.length) (hP : NetOk d P) (h1 : U p ≤ u) (h2 : u < U P.length)
    (hin : U (findSpanLinear p U P.length u) < u) :
    (∀ r, r ≤ p → 0 < (basisFuns p U (findSpanLinear p U P.length u) u).getD r 0) ∧
    ∑ r ∈ range (p+1), (basisFuns p U (findSpanLinear p U P.length u) u).getD r 0 = 1 ∧
      ∀ j, (curvePoint p U P u).getD j 0
        = ∑ r ∈ range (p+1), (basisFuns p U (findSpanLinear p U P.length u) u).getD r 0
            * ((findCtrlptsCurve [] p U P u).getD r []).getD j 0 := by
  obtain ⟨hk1, hk2, hk3, hk4⟩ := findSpanLinear_halfopen hm hpn u h1 h2
  have hs : SpanOk U (findSpanLinear p U P.length u) u := ⟨hm, hk1, le_of_lt hk2, lt_of_le_of_lt hk1 hk2⟩
  refine ⟨fun r hr => basisFuns_getD_pos_inside p hm hin hk2 r hr, basisFuns_sum_range p hs, ?_⟩
  intro j
  unfold curvePoint
  rw [curvePointAt_sum p U P _ u d j hk3 hk4 hP]
  apply Finset.sum_congr rfl
  intro r hr
  rw [Finset.mem_range] at hr
  rw [findCtrlptsCurve_getD [] p U P u r (by omega)]
  rfl

end Geomdl
