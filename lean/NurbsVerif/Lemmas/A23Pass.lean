import NurbsVerif.Lemmas.A23Loop

/-! A2.3, part 4: one pass `k` of the derivative loop (`a23K`), all passes for one basis function
    (`a23R`), all basis functions. -/
namespace Geomdl
open Blossom Finset
variable {K : Type} [Field K] [LinearOrder K] [IsStrictOrderedRing K]

/-- the term `a[k][j] · N_{r+j-k, p-k}` that pass `k` adds to `d` -/
def a23Term (p κ r : ℕ) (U : ℕ → K) (u : K) (k j : ℕ) : K :=
  aCoef p κ r U k j * (basisFuns (p - k) U κ u).getD (r + j - k) 0

/-- **one pass** `k = k'+1` for the basis function `r`: if row `s1` holds the `k'`-fold differences inside
    their window, then afterwards row `s2` holds the `k`-fold differences inside theirs, the rows are
    exchanged and `ders[k][r]` is the sum over the window -/
theorem a23K_spec (p κ r : ℕ) (U : ℕ → K) (u : K) (ndu : Arr2 K) (hr : r ≤ p) (hp : p ≤ κ)
    (hup : ∀ c a, c ≤ p → a ≤ c → ndu.get a c = (basisFuns c U κ u).getD a 0)
    (hlo : ∀ c a, c ≤ p → a < c → ndu.get c a = right U κ u (a+1) + left U κ u (c - a))
    (k' : ℕ) (hk : k' + 1 ≤ p) (st : A23State K) (hs : st.s1 ≠ st.s2)
    (H : ∀ j, k' ≤ r + j → j ≤ k' → r + j ≤ p → st.a.get st.s1 j = aCoef p κ r U k' j) :
    (a23K p ndu r st (k'+1)).s1 = st.s2 ∧ (a23K p ndu r st (k'+1)).s2 = st.s1 ∧
    (∀ j, k' + 1 ≤ r + j → j ≤ k' + 1 → r + j ≤ p →
        (a23K p ndu r st (k'+1)).a.get st.s2 j = aCoef p κ r U (k'+1) j) ∧
    (a23K p ndu r st (k'+1)).ders = upd2 st.ders (k'+1) r
      (∑ j ∈ range (k'+2), if (k' + 1 ≤ r + j ∧ r + j ≤ p) then a23Term p κ r U u (k'+1) j else 0) := by
  -- the pieces of the body
  obtain ⟨pk, hpk⟩ : ∃ pk, pk = p - (k'+1) := ⟨_, rfl⟩
  obtain ⟨ad1, had1⟩ : ∃ ad1 : Arr2 K × K, ad1 = if k'+1 ≤ r then
      (upd2 st.a st.s2 0 (st.a.get st.s1 0 / ndu.get (pk+1) (r - (k'+1))),
        st.a.get st.s1 0 / ndu.get (pk+1) (r - (k'+1)) * ndu.get (r - (k'+1)) pk) else (st.a, 0) := ⟨_, rfl⟩
  obtain ⟨j1, hj1⟩ : ∃ j1, j1 = if k'+1 ≤ r + 1 then 1 else k'+1 - r := ⟨_, rfl⟩
  obtain ⟨j2, hj2⟩ : ∃ j2, j2 = if r + (k'+1) ≤ p + 1 then k'+1-1 else p - r := ⟨_, rfl⟩
  obtain ⟨ad2, had2⟩ : ∃ ad2, ad2 = (List.range' j1 (j2+1-j1)).foldl (a23Mid p ndu r (k'+1) st.s1 st.s2) ad1 := ⟨_, rfl⟩
  obtain ⟨ad3, had3⟩ : ∃ ad3 : Arr2 K × K, ad3 = if r ≤ pk then
      (upd2 ad2.1 st.s2 (k'+1) (-(ad2.1.get st.s1 (k'+1-1)) / ndu.get (pk+1) r),
        ad2.2 + -(ad2.1.get st.s1 (k'+1-1)) / ndu.get (pk+1) r * ndu.get r pk) else ad2 := ⟨_, rfl⟩
  have hK : a23K p ndu r st (k'+1)
      = { a := ad3.1, s1 := st.s2, s2 := st.s1, ders := upd2 st.ders (k'+1) r ad3.2 } := by
    rw [had3, had2, hj2, hj1, had1, hpk]; rfl
  -- abbreviations
  have hterm : ∀ j, a23Term p κ r U u (k'+1) j
      = aCoef p κ r U (k'+1) j * (basisFuns pk U κ u).getD (r + j - (k'+1)) 0 := by
    intro j; rw [hpk]; rfl
  -- first part
  have F1a : ∀ x, ad1.1.get st.s1 x = st.a.get st.s1 x := by
    intro x
    rw [had1]
    split
    · simp only []
      rw [upd2_get, if_neg (by intro h; exact hs h.1)]
    · rfl
  have F1b : k'+1 ≤ r → ad1.1.get st.s2 0 = aCoef p κ r U (k'+1) 0 := by
    intro h
    rw [had1, if_pos h]
    simp only []
    rw [upd2_get, if_pos ⟨rfl, rfl⟩, H 0 (by omega) (by omega) (by omega),
      hlo (pk+1) (r - (k'+1)) (by omega) (by omega), hpk]
    exact aCoef_zero p κ r U u hp k' h hr
  have F1d : ad1.2 = if k'+1 ≤ r then a23Term p κ r U u (k'+1) 0 else 0 := by
    rw [had1]
    by_cases h : k'+1 ≤ r
    · rw [if_pos h, if_pos h]
      simp only []
      rw [H 0 (by omega) (by omega) (by omega), hlo (pk+1) (r - (k'+1)) (by omega) (by omega),
        hup pk (r - (k'+1)) (by omega) (by omega), hterm, Nat.add_zero]
      congr 1
      rw [hpk]
      exact aCoef_zero p κ r U u hp k' h hr
    · rw [if_neg h, if_neg h]
  -- middle part
  obtain ⟨m1, m2, m3, m4⟩ := a23Mid_fold p ndu r (k'+1) st.s1 st.s2 hs j1 (j2+1-j1) ad1
  rw [← had2] at m1 m2 m3 m4
  have hj1' : (k'+1 ≤ r + 1 ∧ j1 = 1) ∨ (¬ k'+1 ≤ r + 1 ∧ j1 = k'+1 - r) := by
    by_cases h : k'+1 ≤ r + 1
    · left; exact ⟨h, by rw [hj1, if_pos h]⟩
    · right; exact ⟨h, by rw [hj1, if_neg h]⟩
  have hj2' : (r + (k'+1) ≤ p + 1 ∧ j2 = k') ∨ (¬ r + (k'+1) ≤ p + 1 ∧ j2 = p - r) := by
    by_cases h : r + (k'+1) ≤ p + 1
    · left; exact ⟨h, by rw [hj2, if_pos h]; omega⟩
    · right; exact ⟨h, by rw [hj2, if_neg h]⟩
  have hmidval : ∀ j, j1 ≤ j → j < j1 + (j2+1-j1) →
      (ad1.1.get st.s1 j - ad1.1.get st.s1 (j-1)) / ndu.get (p - (k'+1) + 1) (r + j - (k'+1))
        = aCoef p κ r U (k'+1) j := by
    intro j h1 h2
    have hb : 1 ≤ j ∧ j ≤ k' ∧ k'+1 ≤ r + j ∧ r + j ≤ p := by omega
    rw [F1a, F1a, H j (by omega) (by omega) (by omega), H (j-1) (by omega) (by omega) (by omega),
      hlo (p - (k'+1) + 1) (r + j - (k'+1)) (by omega) (by omega)]
    exact aCoef_mid p κ r U u hp k' j hb.1 hb.2.2.1 hb.2.2.2 hk
  have F2d : ad2.2 = ad1.2 + ∑ j ∈ Ico j1 (j1 + (j2+1-j1)), a23Term p κ r U u (k'+1) j := by
    rw [m4]
    congr 1
    apply Finset.sum_congr rfl
    intro j hj
    rw [Finset.mem_Ico] at hj
    have hb : 1 ≤ j ∧ j ≤ k' ∧ k'+1 ≤ r + j ∧ r + j ≤ p := by omega
    rw [hmidval j hj.1 hj.2, hterm, hpk, hup (p - (k'+1)) (r + j - (k'+1)) (by omega) (by omega)]
  -- last part
  have F3top : r ≤ pk → -(ad2.1.get st.s1 (k'+1-1)) / ndu.get (pk+1) r = aCoef p κ r U (k'+1) (k'+1) := by
    intro h
    rw [m1, F1a, Nat.add_sub_cancel, H k' (by omega) (by omega) (by omega), hlo (pk+1) r (by omega) (by omega), hpk]
    exact aCoef_top p κ r U u hp k' (by omega)
  have F3d : ad3.2 = ad2.2 + if r ≤ pk then a23Term p κ r U u (k'+1) (k'+1) else 0 := by
    rw [had3]
    by_cases h : r ≤ pk
    · rw [if_pos h, if_pos h]
      simp only []
      rw [F3top h, hterm, hup pk r (by omega) (by omega)]
      congr 3
      omega
    · rw [if_neg h, if_neg h, add_zero]
  rw [hK]
  refine ⟨rfl, rfl, ?_, ?_⟩
  · intro j hw1 hw2 hw3
    simp only []
    by_cases hjk : j = k'+1
    · subst hjk
      have h : r ≤ pk := by omega
      rw [had3, if_pos h]
      simp only []
      rw [upd2_get, if_pos ⟨rfl, rfl⟩]
      exact F3top h
    · have h3 : ad3.1.get st.s2 j = ad2.1.get st.s2 j := by
        rw [had3]
        split
        · simp only []
          rw [upd2_get, if_neg (by omega)]
        · rfl
      rw [h3]
      by_cases hj0 : j = 0
      · subst hj0
        rw [m3 0 (by omega)]
        exact F1b (by omega)
      · rw [m2 j (by omega) (by omega)]
        exact hmidval j (by omega) (by omega)
  · simp only []
    congr 1
    rw [F3d, F2d, F1d, hpk]
    exact a23_window_sum (a23Term p κ r U u (k'+1)) p r k' j1 j2 hr hk hj1 hj2

/-- the value `ders[k][r]` receives in pass `k` -/
def a23Dsum (p κ r : ℕ) (U : ℕ → K) (u : K) (k : ℕ) : K :=
  ∑ j ∈ range (k+1), if (k ≤ r + j ∧ r + j ≤ p) then a23Term p κ r U u k j else 0

/-- **all passes for the basis function `r`** (`for k in range(1, n + 1)`) -/
theorem a23R_fold_spec (p κ r : ℕ) (U : ℕ → K) (u : K) (ndu : Arr2 K) (hr : r ≤ p) (hp : p ≤ κ)
    (hup : ∀ c a, c ≤ p → a ≤ c → ndu.get a c = (basisFuns c U κ u).getD a 0)
    (hlo : ∀ c a, c ≤ p → a < c → ndu.get c a = right U κ u (a+1) + left U κ u (c - a))
    (st : A23State K) : ∀ n, n ≤ p →
    ((List.range' 1 n).foldl (a23K p ndu r) { a := upd2 st.a 0 0 1, s1 := 0, s2 := 1, ders := st.ders }).s1
      ≠ ((List.range' 1 n).foldl (a23K p ndu r) { a := upd2 st.a 0 0 1, s1 := 0, s2 := 1, ders := st.ders }).s2 ∧
    (∀ j, n ≤ r + j → j ≤ n → r + j ≤ p →
      ((List.range' 1 n).foldl (a23K p ndu r) { a := upd2 st.a 0 0 1, s1 := 0, s2 := 1, ders := st.ders }).a.get
        ((List.range' 1 n).foldl (a23K p ndu r) { a := upd2 st.a 0 0 1, s1 := 0, s2 := 1, ders := st.ders }).s1 j
        = aCoef p κ r U n j) ∧
    (∀ x y, ((List.range' 1 n).foldl (a23K p ndu r) { a := upd2 st.a 0 0 1, s1 := 0, s2 := 1, ders := st.ders }).ders.get x y
        = if (1 ≤ x ∧ x ≤ n ∧ y = r) then a23Dsum p κ r U u x else st.ders.get x y) := by
  intro n
  induction n with
  | zero =>
    intro _
    refine ⟨by simp, ?_, ?_⟩
    · intro j _ hj _
      have : j = 0 := by omega
      subst this
      simp [upd2_get, aCoef, dPlain, eU]
    · intro x y
      rw [if_neg (by omega)]
      rfl
  | succ n ih =>
    intro hn
    obtain ⟨h1, h2, h3⟩ := ih (by omega)
    rw [List.range'_concat, List.foldl_append]
    simp only [List.foldl_cons, List.foldl_nil, Nat.one_mul]
    rw [Nat.add_comm 1 n]
    obtain ⟨k1, k2, k3, k4⟩ := a23K_spec p κ r U u ndu hr hp hup hlo n hn _ h1 h2
    refine ⟨?_, ?_, ?_⟩
    · rw [k1, k2]; exact fun h => h1 h.symm
    · intro j hj1 hj2 hj3
      rw [k1]
      exact k3 j hj1 hj2 hj3
    · intro x y
      rw [k4, upd2_get]
      by_cases hxy : x = n + 1 ∧ y = r
      · rw [if_pos hxy, if_pos ⟨by omega, by omega, hxy.2⟩, hxy.1]
        rfl
      · rw [if_neg hxy, h3 x y]
        by_cases hc : 1 ≤ x ∧ x ≤ n ∧ y = r
        · rw [if_pos hc, if_pos ⟨hc.1, by omega, hc.2.2⟩]
        · rw [if_neg hc, if_neg (by omega)]

/-- the effect of `a23R` on the output table -/
theorem a23R_ders (p κ r : ℕ) (U : ℕ → K) (u : K) (ndu : Arr2 K) (hr : r ≤ p) (hp : p ≤ κ)
    (hup : ∀ c a, c ≤ p → a ≤ c → ndu.get a c = (basisFuns c U κ u).getD a 0)
    (hlo : ∀ c a, c ≤ p → a < c → ndu.get c a = right U κ u (a+1) + left U κ u (c - a))
    (order : ℕ) (ho : order ≤ p) (st : A23State K) (x y : ℕ) :
    (a23R p order ndu st r).ders.get x y
      = if (1 ≤ x ∧ x ≤ order ∧ y = r) then a23Dsum p κ r U u x else st.ders.get x y :=
  (a23R_fold_spec p κ r U u ndu hr hp hup hlo st order ho).2.2 x y

/-- **all basis functions** (`for r in range(0, n)`) -/
theorem a23_rloop_ders (p κ : ℕ) (U : ℕ → K) (u : K) (ndu : Arr2 K) (hp : p ≤ κ)
    (hup : ∀ c a, c ≤ p → a ≤ c → ndu.get a c = (basisFuns c U κ u).getD a 0)
    (hlo : ∀ c a, c ≤ p → a < c → ndu.get c a = right U κ u (a+1) + left U κ u (c - a))
    (order : ℕ) (ho : order ≤ p) (st : A23State K) : ∀ n, n ≤ p + 1 → ∀ x y,
    ((List.range n).foldl (a23R p order ndu) st).ders.get x y
      = if (1 ≤ x ∧ x ≤ order ∧ y < n) then a23Dsum p κ y U u x else st.ders.get x y := by
  intro n
  induction n with
  | zero => intro _ x y; rw [if_neg (by omega)]; rfl
  | succ n ih =>
    intro hn x y
    rw [List.range_succ, List.foldl_append]
    simp only [List.foldl_cons, List.foldl_nil]
    rw [a23R_ders p κ n U u ndu (by omega) hp hup hlo order ho, ih (by omega)]
    by_cases hc : 1 ≤ x ∧ x ≤ order ∧ y = n
    · rw [if_pos hc, if_pos ⟨hc.1, hc.2.1, by omega⟩, hc.2.2]
    · rw [if_neg hc]
      by_cases hc2 : 1 ≤ x ∧ x ≤ order ∧ y < n
      · rw [if_pos hc2, if_pos ⟨hc2.1, hc2.2.1, by omega⟩]
      · rw [if_neg hc2, if_neg (by omega)]

end Geomdl
