import NurbsVerif.Lemmas.Span
import NurbsVerif.Lemmas.Pieces
import NurbsVerif.Lemmas.KnotVec

/-! Span search on the pieces of a split curve: the search on a normalised knot vector at the
    normalised parameter, and on a cut knot vector, finds the span the search on the whole refined
    knot vector finds (shifted by the cut position). -/
namespace Geomdl
open Blossom
variable {K : Type} [Field K] [LinearOrder K] [IsStrictOrderedRing K]

omit [Field K] [IsStrictOrderedRing K] in
/-- the linear search only looks at the comparisons `U i ≤ u` -/
theorem findSpanLinearAux_congr (U V : ℕ → K) (n : ℕ) (u v : K) (h : ∀ i, U i ≤ u ↔ V i ≤ v) :
    ∀ fuel s, findSpanLinearAux U n u fuel s = findSpanLinearAux V n v fuel s := by
  intro fuel
  induction fuel with
  | zero => intro s; rfl
  | succ fuel ih =>
    intro s
    simp only [findSpanLinearAux]
    by_cases hc : s < n ∧ U s ≤ u
    · rw [if_pos hc, if_pos ⟨hc.1, (h s).mp hc.2⟩, ih]
    · rw [if_neg hc, if_neg (fun hc' => hc ⟨hc'.1, (h s).mpr hc'.2⟩)]

omit [Field K] [IsStrictOrderedRing K] in
theorem findSpanLinear_congr (p : ℕ) (U V : ℕ → K) (n : ℕ) (u v : K) (h : ∀ i, U i ≤ u ↔ V i ≤ v) :
    findSpanLinear p U n u = findSpanLinear p V n v := by
  unfold findSpanLinear
  rw [findSpanLinearAux_congr U V n u v h]

/-- the value of the normalised knot function -/
theorem fnOf_knotNormalize' (V : List K) (i : ℕ) (hne : V ≠ []) :
    fnOf (knotNormalize V) i = (fnOf V i - V.headD 0) / (V.getLastD 0 - V.headD 0) := by
  rw [fnOf_knotNormalize V i hne]; ring

/-- **span search commutes with the normalisation of the knot vector** -/
theorem findSpanLinear_normalize (p : ℕ) (V : List K) (n : ℕ) (u : K) (hne : V ≠ [])
    (hrange : V.headD 0 < V.getLastD 0) :
    findSpanLinear p (fnOf (knotNormalize V)) n ((u - V.headD 0) / (V.getLastD 0 - V.headD 0))
      = findSpanLinear p (fnOf V) n u := by
  apply findSpanLinear_congr
  intro i
  have hpos : 0 < V.getLastD 0 - V.headD 0 := by linarith
  rw [fnOf_knotNormalize' V i hne, div_le_div_iff_of_pos_right hpos]
  constructor <;> intro h <;> linarith

/-- **span correspondence**: if the knot function `V` of a piece (with `nV` control points) is the
    knot function `W` of the whole curve shifted by `c` on the indices the search and the half-open
    test read, and the two domains end at the same value, then for `u` in the common part the search
    on the piece finds the span of the whole curve, shifted.  `hi`: either `u` is below the end of the
    piece's domain, which is then also the end of a knot interval of `W` (`W (nV + c) ≤ W (j)` for
    the comparison), or both domains end together. -/
theorem findSpanLinear_piece (p : ℕ) (V W : ℕ → K) (nV nW c : ℕ) (u : K)
    (hpV : p + 1 ≤ nV) (hnW : nV + c ≤ nW) (hmV : Monotone V) (hmW : Monotone W)
    (hVW : ∀ i, p + 1 ≤ i → i ≤ nV → V i = W (i + c))
    (hVp : V p ≤ u) (hWp : W p ≤ u) (hWκ : W (p + c) ≤ u)
    (hend : u < V nV ∨ (nV + c = nW)) (hhi : u ≤ V nV) :
    findSpanLinear p W nW u = findSpanLinear p V nV u + c := by
  obtain ⟨a1, a2, a3, a4⟩ := findSpanLinear_spec p V nV u hpV hmV hVp
  set κ := findSpanLinear p V nV u with hκ
  have hVn : V nV = W (nV + c) := hVW nV (by omega) (le_refl _)
  have hWlo : W (κ + c) ≤ u := by
    rcases Nat.eq_or_lt_of_le a1 with h | h
    · rw [← h]; exact hWκ
    · rw [← hVW κ (by omega) (by omega)]; exact a3
  by_cases hlt : u < V nV
  · have hu1 : u < V (κ + 1) := by
      rcases a4 with h | h
      · exact h
      · rw [h]; exact hlt
    have hu2 : u < W (κ + 1 + c) := by rw [← hVW (κ + 1) (by omega) (by omega)]; exact hu1
    have hWn : u < W nW := lt_of_lt_of_le (by rw [← hVn]; exact hlt) (hmW hnW)
    have := findSpanLinear_unique p W nW u (by omega) hmW hWp hWn (κ + c) hWlo
      (by have e : κ + c + 1 = κ + 1 + c := by omega
          rw [e]; exact hu2)
    exact this
  · have hu : u = V nV := le_antisymm hhi (not_lt.mp hlt)
    have hc : nV + c = nW := by
      rcases hend with h | h
      · exact absurd h hlt
      · exact h
    have hκ1 : κ + 1 = nV := by
      rcases a4 with h | h
      · exfalso
        have : V (κ + 1) ≤ V nV := hmV (by omega)
        linarith
      · exact h
    obtain ⟨b1, b2, b3, b4⟩ := findSpanLinear_spec p W nW u (by omega) hmW hWp
    have hκ2 : findSpanLinear p W nW u + 1 = nW := by
      rcases b4 with h | h
      · exfalso
        have h1 : W (findSpanLinear p W nW u + 1) ≤ W nW := hmW (by omega)
        have h2 : W nW = u := by rw [hu, hVn, hc]
        linarith
      · exact h
    omega

end Geomdl
