import NurbsVerif.Lemmas.RemoveObjCall

/-! The full calls: `operations.insert_knot(obj, params, nums)` followed by
    `operations.remove_knot(obj, params, nums')` on a surface or a volume when exactly one direction is
    requested – the loops over the directions reduce to the single requested step. -/
namespace Geomdl
open Blossom Finset
set_option linter.unusedSectionVars false
variable {K : Type} [Field K] [LinearOrder K] [IsStrictOrderedRing K]

theorem foldl_skip {α : Type} (g : α → ℕ → α) (dir : ℕ) (hg : ∀ acc d', d' ≠ dir → g acc d' = acc) :
    ∀ (l : List ℕ), (∀ x ∈ l, x ≠ dir) → ∀ acc, l.foldl g acc = acc := by
  intro l
  induction l with
  | nil => intro _ acc; rfl
  | cons a t ih =>
    intro h acc
    rw [List.foldl_cons, hg acc a (h a (by simp))]
    exact ih (fun x hx => h x (by simp [hx])) acc

theorem foldl_single {α : Type} (g : α → ℕ → α) (dir : ℕ) (hg : ∀ acc d', d' ≠ dir → g acc d' = acc) :
    ∀ (l : List ℕ), l.Nodup → dir ∈ l → ∀ acc, l.foldl g acc = g acc dir := by
  intro l
  induction l with
  | nil => intro _ h; simp at h
  | cons a t ih =>
    intro hnd hmem acc
    rw [List.nodup_cons] at hnd
    rw [List.foldl_cons]
    by_cases ha : a = dir
    · subst ha
      exact foldl_skip g a hg t (fun x hx e => hnd.1 (e ▸ hx)) _
    · rw [hg acc a ha]
      rcases List.mem_cons.mp hmem with e | e
      · exact absurd e.symm ha
      · exact ih hnd.2 e acc

theorem range_foldl_single {α : Type} (g : α → ℕ → α) (n dir : ℕ) (hdir : dir < n)
    (hg : ∀ acc d', d' ≠ dir → g acc d' = acc) (acc : α) : (List.range n).foldl g acc = g acc dir :=
  foldl_single g dir hg _ List.nodup_range (List.mem_range.mpr hdir) acc

/-- only direction `dir` is requested by the parameter / count lists -/
def OnlyDir (dir : ℕ) (params : List (Option K)) (nums : List ℕ) : Prop :=
  ∀ d', d' ≠ dir → params.getD d' none = none ∨ nums.getD d' 0 = 0

theorem insKnotStep_skip (params : List (Option K)) (nums : List ℕ) (tol : K) (check : Bool) (acc : Shape K × Bool) (d' : ℕ)
    (h : params.getD d' none = none ∨ nums.getD d' 0 = 0) : insKnotStep params nums tol check acc d' = acc := by
  unfold insKnotStep
  by_cases h1 : acc.2 = false
  · rw [if_pos h1]
  · rw [if_neg h1]
    rcases h with h | h
    · rw [h]
    · cases hp : params.getD d' none with
      | none => rfl
      | some u => simp only [h, if_true]

/-- the loop body of `operations.remove_knot` -/
abbrev remKnotStep (params : List (Option K)) (nums : List ℕ) (tol tol2 : K) (check : Bool)
    (acc : Shape K × Bool) (d : ℕ) : Shape K × Bool :=
  if acc.2 = false then acc else
    match params.getD d none with
    | none => acc
    | some u =>
      if nums.getD d 0 = 0 then acc
      else match removeKnotDir acc.1 d u (nums.getD d 0) tol tol2 check with
        | some S' => (S', true)
        | none => (acc.1, false)

theorem removeKnot_eq (S : Shape K) (params : List (Option K)) (nums : List ℕ) (tol tol2 : K) (check : Bool) :
    removeKnot S params nums tol tol2 check
      = (List.range S.pdim).foldl (remKnotStep params nums tol tol2 check) (S, true) := rfl

theorem remKnotStep_skip (params : List (Option K)) (nums : List ℕ) (tol tol2 : K) (check : Bool) (acc : Shape K × Bool)
    (d' : ℕ) (h : params.getD d' none = none ∨ nums.getD d' 0 = 0) :
    remKnotStep params nums tol tol2 check acc d' = acc := by
  unfold remKnotStep
  by_cases h1 : acc.2 = false
  · rw [if_pos h1]
  · rw [if_neg h1]
    rcases h with h | h
    · rw [h]
    · cases hp : params.getD d' none with
      | none => rfl
      | some u => simp only [h, if_true]

/-- one requested direction: `insert_knot` is the single direction step -/
theorem insertKnot_onlyDir (S : Shape K) (dir : ℕ) (params : List (Option K)) (nums : List ℕ) (tol : K) (check : Bool)
    (ub : K) (hdir : dir < S.pdim) (ho : OnlyDir dir params nums) (hp : params.getD dir none = some ub)
    (hn : nums.getD dir 0 ≠ 0) (hrs : nums.getD dir 0 + findMultiplicity ub (S.kv dir) tol ≤ S.deg dir) :
    insertKnot S params nums tol check = (insDirOf S dir ub (nums.getD dir 0) tol, true) := by
  rw [insertKnot_eq, range_foldl_single _ _ dir hdir (fun acc d' hd => insKnotStep_skip params nums tol check acc d' (ho d' hd))]
  unfold insKnotStep
  simp only [Bool.true_eq_false, if_false, hp, if_neg hn, insertKnotDir_insDirOf S dir ub _ tol check hrs]

/-- one requested direction: `remove_knot` is the single direction step -/
theorem removeKnot_onlyDir (S S' : Shape K) (dir : ℕ) (params : List (Option K)) (nums : List ℕ) (tol tol2 : K)
    (check : Bool) (ub : K) (hdir : dir < S.pdim) (ho : OnlyDir dir params nums) (hp : params.getD dir none = some ub)
    (hn : nums.getD dir 0 ≠ 0) (hrem : removeKnotDir S dir ub (nums.getD dir 0) tol tol2 check = some S') :
    removeKnot S params nums tol tol2 check = (S', true) := by
  rw [removeKnot_eq, range_foldl_single _ _ dir hdir (fun acc d' hd => remKnotStep_skip params nums tol tol2 check acc d' (ho d' hd))]
  unfold remKnotStep
  simp only [Bool.true_eq_false, if_false, hp, if_neg hn, hrem]

theorem SurfSame.symm {d : ℕ} {S T : Shape K} (hS : SurfWF d S) (h : SurfSame d S T) : SurfSame d T S :=
  ⟨hS, h.lo0.symm, h.hi0.symm, h.lo1.symm, h.hi1.symm, fun u v a1 a2 b1 b2 j =>
    (h.eval u v (by rw [← h.lo0]; exact a1) (by rw [← h.hi0]; exact a2) (by rw [← h.lo1]; exact b1)
      (by rw [← h.hi1]; exact b2) j).symm⟩

theorem VolSame.symm {d : ℕ} {S T : Shape K} (hS : VolWF d S) (h : VolSame d S T) : VolSame d T S :=
  ⟨hS, h.lo0.symm, h.hi0.symm, h.lo1.symm, h.hi1.symm, h.lo2.symm, h.hi2.symm, fun u v w a1 a2 b1 b2 c1 c2 j =>
    (h.eval u v w (by rw [← h.lo0]; exact a1) (by rw [← h.hi0]; exact a2) (by rw [← h.lo1]; exact b1)
      (by rw [← h.hi1]; exact b2) (by rw [← h.lo2]; exact c1) (by rw [← h.hi2]; exact c2) j).symm⟩

/-- a `RoundOk` request is an admissible call when it is the only requested direction -/
theorem callOk_of_roundOk (n : ℕ) (S : Shape K) (dir : ℕ) (params : List (Option K)) (nums : List ℕ) (ub tol : K)
    (ho : OnlyDir dir params nums) (hp : params.getD dir none = some ub)
    (h : RoundOk S dir ub (nums.getD dir 0) tol) : CallOk n S params nums tol := by
  intro d' _ u hu hne
  by_cases hd : d' = dir
  · subst hd
    rw [hp] at hu
    rw [← Option.some.inj hu]; exact h.req
  · rcases ho d' hd with h' | h'
    · rw [h'] at hu; simp at hu
    · exact absurd h' hne

/-- **surfaces: `insert_knot` then `remove_knot` with the same lists (one requested direction)
    returns the original object**, and the removal does not change any evaluated point -/
theorem surface_insertKnot_removeKnot (d : ℕ) (S : Shape K) (hS : SurfWF d S) (dir : ℕ) (hdir : dir < 2)
    (params : List (Option K)) (nums : List ℕ) (ub tol tol2 : K) (c1 c2 : Bool)
    (ho : OnlyDir dir params nums) (hp : params.getD dir none = some ub)
    (h : RoundOk S dir ub (nums.getD dir 0) tol) (h2 : 0 ≤ tol2) :
    removeKnot (insertKnot S params nums tol c1).1 params nums tol tol2 c2 = (S, true) ∧
    SurfSame d (insertKnot S params nums tol c1).1 (removeKnot (insertKnot S params nums tol c1).1 params nums tol tol2 c2).1 := by
  have hn : nums.getD dir 0 ≠ 0 := by have := h.r1; omega
  have hpd : S.pdim = 2 := hS.degs
  have hins := insertKnot_onlyDir S dir params nums tol c1 ub (by omega) ho hp hn h.req.rs
  have hrem := removeKnot_onlyDir (insDirOf S dir ub (nums.getD dir 0) tol) S dir params nums tol tol2 c2 ub
    (by show dir < S.pdim; omega) ho hp hn (surface_insertDir_removeDir d S hS dir hdir ub _ tol tol2 c2 h h2)
  have hsame := (insertKnot_surface' d S hS params nums tol c1 (callOk_of_roundOk 2 S dir params nums ub tol ho hp h)).1
  rw [hins] at hsame ⊢
  rw [hrem]
  exact ⟨rfl, hsame.symm hS⟩

/-- surfaces, partial removal: `r` copies in (`nums`), `t ≤ r` copies out (`nums'`) = `r - t` copies in -/
theorem surface_insertKnot_removeKnot_t (d : ℕ) (S : Shape K) (hS : SurfWF d S) (dir : ℕ) (hdir : dir < 2)
    (params : List (Option K)) (nums nums' : List ℕ) (ub tol tol2 : K) (c1 c2 : Bool)
    (ho : OnlyDir dir params nums) (ho' : OnlyDir dir params nums') (hp : params.getD dir none = some ub)
    (h : RoundOk S dir ub (nums.getD dir 0) tol) (h2 : 0 ≤ tol2)
    (ht1 : 1 ≤ nums'.getD dir 0) (htr : nums'.getD dir 0 ≤ nums.getD dir 0) :
    removeKnot (insertKnot S params nums tol c1).1 params nums' tol tol2 c2
      = (insDirOf S dir ub (nums.getD dir 0 - nums'.getD dir 0) tol, true) := by
  have hn : nums.getD dir 0 ≠ 0 := by have := h.r1; omega
  have hpd : S.pdim = 2 := hS.degs
  rw [insertKnot_onlyDir S dir params nums tol c1 ub (by omega) ho hp hn h.req.rs]
  exact removeKnot_onlyDir (insDirOf S dir ub (nums.getD dir 0) tol) _ dir params nums' tol tol2 c2 ub
    (by show dir < S.pdim; omega) ho' hp (by omega)
    (surface_insertDir_removeDir_t d S hS dir hdir ub _ _ tol tol2 c2 h h2 ht1 htr)

/-- **volumes: `insert_knot` then `remove_knot` with the same lists (one requested direction)
    returns the original object**, and the removal does not change any evaluated point -/
theorem volume_insertKnot_removeKnot (d : ℕ) (S : Shape K) (hS : VolWF d S) (dir : ℕ) (hdir : dir < 3)
    (params : List (Option K)) (nums : List ℕ) (ub tol tol2 : K) (c1 c2 : Bool)
    (ho : OnlyDir dir params nums) (hp : params.getD dir none = some ub)
    (h : RoundOk S dir ub (nums.getD dir 0) tol) (h2 : 0 ≤ tol2) :
    removeKnot (insertKnot S params nums tol c1).1 params nums tol tol2 c2 = (S, true) ∧
    VolSame d (insertKnot S params nums tol c1).1 (removeKnot (insertKnot S params nums tol c1).1 params nums tol tol2 c2).1 := by
  have hn : nums.getD dir 0 ≠ 0 := by have := h.r1; omega
  have hpd : S.pdim = 3 := hS.degs
  have hins := insertKnot_onlyDir S dir params nums tol c1 ub (by omega) ho hp hn h.req.rs
  have hrem := removeKnot_onlyDir (insDirOf S dir ub (nums.getD dir 0) tol) S dir params nums tol tol2 c2 ub
    (by show dir < S.pdim; omega) ho hp hn (volume_insertDir_removeDir d S hS dir hdir ub _ tol tol2 c2 h h2)
  have hsame := (insertKnot_volume' d S hS params nums tol c1 (callOk_of_roundOk 3 S dir params nums ub tol ho hp h)).1
  rw [hins] at hsame ⊢
  rw [hrem]
  exact ⟨rfl, hsame.symm hS⟩

/-- volumes, partial removal -/
theorem volume_insertKnot_removeKnot_t (d : ℕ) (S : Shape K) (hS : VolWF d S) (dir : ℕ) (hdir : dir < 3)
    (params : List (Option K)) (nums nums' : List ℕ) (ub tol tol2 : K) (c1 c2 : Bool)
    (ho : OnlyDir dir params nums) (ho' : OnlyDir dir params nums') (hp : params.getD dir none = some ub)
    (h : RoundOk S dir ub (nums.getD dir 0) tol) (h2 : 0 ≤ tol2)
    (ht1 : 1 ≤ nums'.getD dir 0) (htr : nums'.getD dir 0 ≤ nums.getD dir 0) :
    removeKnot (insertKnot S params nums tol c1).1 params nums' tol tol2 c2
      = (insDirOf S dir ub (nums.getD dir 0 - nums'.getD dir 0) tol, true) := by
  have hn : nums.getD dir 0 ≠ 0 := by have := h.r1; omega
  have hpd : S.pdim = 3 := hS.degs
  rw [insertKnot_onlyDir S dir params nums tol c1 ub (by omega) ho hp hn h.req.rs]
  exact removeKnot_onlyDir (insDirOf S dir ub (nums.getD dir 0) tol) _ dir params nums' tol tol2 c2 ub
    (by show dir < S.pdim; omega) ho' hp (by omega)
    (volume_insertDir_removeDir_t d S hS dir hdir ub _ _ tol tol2 c2 h h2 ht1 htr)

end Geomdl
