import NurbsVerif.Lemmas.KnotRowsIns

/-! List-of-rows branches, part 6: the rows branch of A5.8 (`knotRemovalRows`), one removal step.
    The sweep on rows with the object sharing between `temp` and `ctrlpts_new` against the sweep of the
    point branch on one iso-curve; the flag; the copy-back loop in closed form. -/
namespace Geomdl
namespace Rows
open RemInv
variable {K : Type} [Field K] [LinearOrder K] [IsStrictOrderedRing K]

/-! ### the point branch, one step, in pieces -/

/-- `temp` after `temp[0] = ctrlpts_new[first-1]; temp[last-first+2] = ctrlpts_new[last+1]` -/
def cTemp0 (cp temp : List (List K)) (first last : ℕ) : List (List K) :=
  (temp.set 0 (ptsGet cp (first - 1))).set (last - first + 2) (ptsGet cp (last + 1))

/-- the sweep of step `t` of the point branch -/
def cSweep (U : ℕ → K) (u : K) (p t : ℕ) (cp temp : List (List K)) (first last : ℕ) : RemSt K :=
  remSweep U u p t cp (p + 2) { temp := cTemp0 cp temp first last, i := first, j := last, ii := 1, jj := last - first + 1 }

/-- the removability flag of the point branch after the sweep -/
def cFlag (U : ℕ → K) (u : K) (p t : ℕ) (tol2 : K) (cp : List (List K)) (sw : RemSt K) : Bool :=
  if sw.j < sw.i + t then decide (sqDist (ptsGet sw.temp (sw.ii - 1)) (ptsGet sw.temp (sw.jj + 1)) ≤ tol2)
  else
    decide (sqDist (ptsGet cp sw.i) (List.zipWith (fun t1 t2 => alphaI U u p t sw.i * t1 + (1 - alphaI U u p t sw.i) * t2)
      (ptsGet sw.temp (sw.ii + t + 1)) (ptsGet sw.temp (sw.ii - 1))) ≤ tol2)

/-- **the flag that step `t` of `knotRemoval` computes in state `st`** -/
def remFlag (U : ℕ → K) (u : K) (p : ℕ) (tol2 : K) (st : List (List K) × List (List K) × ℕ × ℕ) (t : ℕ) : Bool :=
  cFlag U u p t tol2 st.1 (cSweep U u p t st.1 st.2.1 st.2.2.1 st.2.2.2)

theorem remStep_pieces (U : ℕ → K) (u : K) (p : ℕ) (tol2 : K) (cp temp : List (List K)) (first last t : ℕ) :
    remStep U u p tol2 (cp, temp, first, last) t =
      (if remFlag U u p tol2 (cp, temp, first, last) t then
          remCopy (cSweep U u p t cp temp first last).temp first t (p + 2) first last cp else cp,
        (cSweep U u p t cp temp first last).temp, first - 1, last + 1) := rfl

/-! ### writing a slot of `temp` through the sharing table -/

theorem writeFold_length (y : ℕ) (row : List (List K)) : ∀ (al : List (ℕ × ℕ)) (cp : List (List (List K))),
    (al.foldl (fun c a => if a.1 = y then c.set a.2 row else c) cp).length = cp.length := by
  intro al
  induction al with
  | nil => intro cp; rfl
  | cons a al ih =>
    intro cp
    rw [List.foldl_cons, ih]
    split <;> simp

theorem rowGet_set (R : List (List (List K))) (i x : ℕ) (row : List (List K)) :
    rowGet (R.set i row) x = if i = x ∧ x < R.length then row else rowGet R x := by
  unfold rowGet
  rw [List.getD_eq_getElem?_getD, List.getD_eq_getElem?_getD, List.getElem?_set]
  by_cases h : i = x
  · subst h
    by_cases h2 : i < R.length
    · simp [h2]
    · simp [h2]
  · simp [h]

theorem writeFold_get (y x : ℕ) (row : List (List K)) : ∀ (al : List (ℕ × ℕ)) (cp : List (List (List K))),
    (∀ a ∈ al, a.1 = y → a.2 ≠ x) →
    rowGet (al.foldl (fun c a => if a.1 = y then c.set a.2 row else c) cp) x = rowGet cp x := by
  intro al
  induction al with
  | nil => intro cp _; rfl
  | cons a al ih =>
    intro cp h
    rw [List.foldl_cons, ih _ (fun b hb => h b (List.mem_cons_of_mem _ hb))]
    by_cases ha : a.1 = y
    · rw [if_pos ha, rowGet_set, if_neg]
      intro hc
      exact h a (List.mem_cons_self) ha hc.1
    · rw [if_neg ha]

theorem writeFold_rect (m y : ℕ) (row : List (List K)) (hrow : row.length = m) :
    ∀ (al : List (ℕ × ℕ)) (cp : List (List (List K))), RectW m cp →
    RectW m (al.foldl (fun c a => if a.1 = y then c.set a.2 row else c) cp) := by
  intro al
  induction al with
  | nil => intro cp h; exact h
  | cons a al ih =>
    intro cp h
    rw [List.foldl_cons]
    apply ih
    split
    · intro x hx
      rcases List.mem_or_eq_of_mem_set hx with h1 | h1
      · exact h x h1
      · rw [h1]; exact hrow
    · exact h

/-! ### the sweep: rows (with sharing) against one iso-curve -/

/-- the relation between the state of the rows sweep and the state of the point sweep on iso-curve `c`:
    `temp` agrees, `ctrlpts_new` agrees except possibly at index `last` once the sweep has left it, the
    shared slots that can still be written are slots of `ctrlpts_new[last]` -/
structure SwInv (c t last : ℕ) (cpc : List (List K)) (st : RemRowsSt K) (cst : RemSt K) : Prop where
  temp : isoCol c st.temp = cst.temp
  hi : st.i = cst.i
  hj : st.j = cst.j
  hii : st.ii = cst.ii
  hjj : st.jj = cst.jj
  cp : ∀ x, (x ≠ last ∨ st.j = last) → ptsGet (rowGet st.cp x) c = ptsGet cpc x
  len : st.cp.length = cpc.length
  jle : st.j ≤ last
  ii1 : 1 ≤ st.ii
  idx : st.ii + st.j = st.jj + st.i
  al : ∀ a ∈ st.al, a.1 = 0 ∨ st.jj < a.1 ∨ (a.2 = last ∧ (st.j = last → a.1 ≠ st.ii))

theorem sweep_sim (c m : ℕ) (hc : c < m) (U : ℕ → K) (u : K) (p t last : ℕ) (cpc : List (List K)) :
    ∀ (fuel : ℕ) (st : RemRowsSt K) (cst : RemSt K), SwInv c t last cpc st cst →
      SwInv c t last cpc (remSweepRows U u p t m fuel st) (remSweep U u p t cpc fuel cst) := by
  intro fuel
  induction fuel with
  | zero => intro st cst h; exact h
  | succ fuel ih =>
    intro st cst h
    unfold remSweepRows remSweep
    by_cases hcond : st.i + t < st.j
    · rw [if_pos hcond, if_pos (by rw [← h.hi, ← h.hj]; exact hcond)]
      apply ih
      have hiilt : st.ii < st.jj := by have := h.idx; omega
      -- reading through the column
      have rT : ∀ (T : List (List (List K))) y, ptsGet (rowGet T y) c = ptsGet (isoCol c T) y :=
        fun T y => (ptsGet_isoCol c T y).symm
      -- the first write does not touch the rows that are still read
      have w1 : ∀ x, (x ≠ last ∨ st.j = last) → ∀ (row : List (List K)),
          rowGet (st.writeTemp st.ii row).cp x = rowGet st.cp x := by
        intro x hx row
        apply writeFold_get
        intro a ha ha1
        rcases h.al a ha with h0 | h0 | ⟨h0, h1⟩
        · have := h.ii1; omega
        · omega
        · rcases hx with hx | hx
          · rw [h0]; exact fun e => hx e.symm
          · exact absurd ha1 (h1 hx)
      have w2 : ∀ x, x ≠ last → ∀ (s1 : RemRowsSt K) (row : List (List K)), s1.al = st.al →
          rowGet (s1.writeTemp st.jj row).cp x = rowGet s1.cp x := by
        intro x hx s1 row hal
        apply writeFold_get
        rw [hal]
        intro a ha ha1
        rcases h.al a ha with h0 | h0 | ⟨h0, _⟩
        · have := h.ii1; omega
        · omega
        · rw [h0]; exact fun e => hx e.symm
      have hti : ptsGet ((List.range m).map (fun idx => List.zipWith
            (fun cpt x => (cpt - (1 - alphaI U u p t st.i) * x) / alphaI U u p t st.i)
            (ptsGet (rowGet st.cp st.i) idx) (ptsGet (rowGet st.temp (st.ii - 1)) idx))) c
          = List.zipWith (fun cpt x => (cpt - (1 - alphaI U u p t cst.i) * x) / alphaI U u p t cst.i)
            (ptsGet cpc cst.i) (ptsGet cst.temp (cst.ii - 1)) := by
        rw [ptsGet_map_range_lt _ _ _ hc, h.cp st.i (Or.inl (by have := h.jle; omega)), rT, h.temp, h.hi, h.hii]
      constructor
      · -- temp
        show isoCol c ((st.temp.set st.ii _).set st.jj _) = _
        rw [isoCol_set, isoCol_set, hti, ptsGet_map_range_lt _ _ _ hc]
        simp only []
        rw [w1 st.j (by by_cases e : st.j = last; exact Or.inr e; exact Or.inl e), h.cp st.j
          (by by_cases e : st.j = last; exact Or.inr e; exact Or.inl e), rT]
        show ((isoCol c st.temp).set st.ii _).set st.jj
          (List.zipWith _ (ptsGet cpc st.j) (ptsGet (isoCol c (st.temp.set st.ii _)) (st.jj + 1))) = _
        rw [isoCol_set, hti, h.temp, h.hj, h.hii, h.hjj]
      · exact congrArg (· + 1) h.hi
      · exact congrArg (· - 1) h.hj
      · exact congrArg (· + 1) h.hii
      · exact congrArg (· - 1) h.hjj
      · intro x hx
        have hx' : x ≠ last := by
          rcases hx with hx | hx
          · exact hx
          · exfalso; have := h.jle; simp only [] at hx; omega
        show ptsGet (rowGet ((st.writeTemp st.ii _).writeTemp st.jj _).cp x) c = _
        rw [w2 x hx' (st.writeTemp st.ii _) _ rfl, w1 x (Or.inl hx'), h.cp x (Or.inl hx')]
      · show ((st.writeTemp st.ii _).writeTemp st.jj _).cp.length = _
        unfold RemRowsSt.writeTemp
        simp only []
        rw [writeFold_length, writeFold_length, h.len]
      · show st.j - 1 ≤ last
        have := h.jle; omega
      · show 1 ≤ st.ii + 1
        omega
      · show st.ii + 1 + (st.j - 1) = st.jj - 1 + (st.i + 1)
        have := h.idx; omega
      · intro a ha
        have ha' : a ∈ st.al := ha
        show a.1 = 0 ∨ st.jj - 1 < a.1 ∨ (a.2 = last ∧ (st.j - 1 = last → a.1 ≠ st.ii + 1))
        rcases h.al a ha' with h0 | h0 | ⟨h0, _⟩
        · exact Or.inl h0
        · exact Or.inr (Or.inl (by omega))
        · refine Or.inr (Or.inr ⟨h0, ?_⟩)
          intro e; exfalso; have := h.jle; omega
    · rw [if_neg hcond, if_neg (by rw [← h.hi, ← h.hj]; exact hcond)]
      exact h

/-- the sweep does not change the sharing table, the lengths, or (when it does not run) anything -/
theorem sweep_al (U : ℕ → K) (u : K) (p t m : ℕ) : ∀ (fuel : ℕ) (st : RemRowsSt K),
    (remSweepRows U u p t m fuel st).al = st.al := by
  intro fuel
  induction fuel with
  | zero => intro st; rfl
  | succ fuel ih =>
    intro st
    unfold remSweepRows
    split
    · rw [ih]; rfl
    · rfl

theorem sweep_zero (U : ℕ → K) (u : K) (p t m : ℕ) (fuel : ℕ) (st : RemRowsSt K) (h : ¬ st.i + t < st.j) :
    remSweepRows U u p t m fuel st = st := by
  cases fuel with
  | zero => rfl
  | succ fuel => unfold remSweepRows; rw [if_neg h]

/-- the flag of the rows branch is the flag of the FIRST iso-curve -/
theorem flag_sim (U : ℕ → K) (u : K) (p t last : ℕ) (tol2 : K) (cpc : List (List K)) (sw : RemRowsSt K) (csw : RemSt K)
    (h : SwInv 0 t last cpc sw csw) : remFlagRows U u p t tol2 sw = cFlag U u p t tol2 cpc csw := by
  have rT : ∀ y, ptsGet (rowGet sw.temp y) 0 = ptsGet csw.temp y := by
    intro y; rw [← ptsGet_isoCol, h.temp]
  unfold remFlagRows cFlag
  by_cases hb : sw.j < sw.i + t
  · rw [if_pos hb, if_pos (by rw [← h.hi, ← h.hj]; exact hb), rT, rT, h.hii, h.hjj]
  · rw [if_neg hb, if_neg (by rw [← h.hi, ← h.hj]; exact hb)]
    simp only []
    rw [rT, rT, h.cp sw.i (by
      by_cases e : sw.i = last
      · right; have := h.jle; omega
      · left; exact e), h.hi, h.hii]

/-! ### the copy-back loop in closed form -/

theorem copyBack_cp_length (st : RemRowsSt K) (x y : ℕ) : (st.copyBack x y).cp.length = st.cp.length := by
  simp [RemRowsSt.copyBack]

theorem remCopyRows_temp (first t : ℕ) : ∀ (fuel i j : ℕ) (st : RemRowsSt K),
    (remCopyRows first t fuel i j st).temp = st.temp := by
  intro fuel
  induction fuel with
  | zero => intros; rfl
  | succ fuel ih =>
    intro i j st
    unfold remCopyRows
    split
    · rw [ih]; rfl
    · rfl

theorem remCopyRows_length (first t : ℕ) : ∀ (fuel i j : ℕ) (st : RemRowsSt K),
    (remCopyRows first t fuel i j st).cp.length = st.cp.length := by
  intro fuel
  induction fuel with
  | zero => intros; rfl
  | succ fuel ih =>
    intro i j st
    unfold remCopyRows
    split
    · rw [ih, copyBack_cp_length, copyBack_cp_length]
    · rfl

/-- which rows the copy-back loop overwrites, and with what -/
theorem remCopyRows_get (first t : ℕ) : ∀ (fuel i j : ℕ) (st : RemRowsSt K) (y : ℕ),
    j ≤ i + t + 2 * fuel → j < st.cp.length →
    rowGet (remCopyRows first t fuel i j st).cp y
      = if i ≤ y ∧ y ≤ j ∧ (2 * y + t < i + j ∨ i + j + t < 2 * y) then rowGet st.temp (y - first + 1)
        else rowGet st.cp y := by
  intro fuel
  induction fuel with
  | zero =>
    intro i j st y h1 h2
    unfold remCopyRows
    rw [if_neg (by omega)]
  | succ fuel ih =>
    intro i j st y h1 h2
    unfold remCopyRows
    by_cases hc : i + t < j
    · rw [if_pos hc]
      simp only []
      rw [ih (i+1) (j-1) _ y (by omega) (by rw [copyBack_cp_length, copyBack_cp_length]; omega)]
      simp only [RemRowsSt.copyBack, rowGet_set, List.length_set]
      split_ifs <;> first | rfl | (exfalso; omega) | (congr 2; omega)
    · rw [if_neg hc, if_neg (by omega)]

/-- a shared slot survives the copy-back loop only if its row of `ctrlpts_new` was not overwritten -/
theorem remCopyRows_al (first t : ℕ) : ∀ (fuel i j : ℕ) (st : RemRowsSt K) (a : ℕ × ℕ),
    j ≤ i + t + 2 * fuel →
    a ∈ (remCopyRows first t fuel i j st).al →
      a ∈ st.al ∧ ¬ (i ≤ a.2 ∧ a.2 ≤ j ∧ (2 * a.2 + t < i + j ∨ i + j + t < 2 * a.2)) := by
  intro fuel
  induction fuel with
  | zero =>
    intro i j st a h1 ha
    exact ⟨ha, by omega⟩
  | succ fuel ih =>
    intro i j st a h1 ha
    unfold remCopyRows at ha
    by_cases hc : i + t < j
    · rw [if_pos hc] at ha
      obtain ⟨h2, h3⟩ := ih (i+1) (j-1) _ a (by omega) ha
      simp only [RemRowsSt.copyBack, List.mem_filter, bne_iff_ne, ne_eq] at h2
      refine ⟨h2.1.1, ?_⟩
      omega
    · rw [if_neg hc] at ha
      exact ⟨ha, by omega⟩

end Rows
end Geomdl
