import NurbsVerif.Lemmas.A54Kv
import NurbsVerif.Lemmas.A54Cor

/-! `new_kv` of A5.4 = the sorted merge of `U` and `X` = the knot vector of the fold of insertions, for
    ANY sorted list `X` inside `[U_p, U_n)` (multiplicities may exceed the degree). -/
namespace Geomdl
open Blossom
variable {K : Type} [Field K] [LinearOrder K] [IsStrictOrderedRing K]

theorem a54Init_repKv (p : ℕ) (U : List K) (P : List (List K)) (X : List K)
    (hm : Monotone (fnOf U)) (hlen : U.length = P.length + p + 1) (hpn : p + 1 ≤ P.length) (hX : X ≠ [])
    (hsort : X.Pairwise (· ≤ ·)) (hdom : ∀ x ∈ X, fnOf U p ≤ x ∧ x < fnOf U P.length) :
    RepKv U X.length (a54Init p U P X).2 (a54Init p U P X).1 U X.length ∧
    fnOf U (a54Init p U P X).2 ≤ X.getD 0 0 ∧
    X.getD 0 0 < fnOf U ((a54Init p U P X).2 + 1) ∧
    ∀ y ∈ X, y ≤ fnOf U ((a54Init p U P X).1.i + 1) := by
  have hXl : 0 < X.length := List.length_pos_iff.mpr hX
  have hn : P.length - 1 + 1 = P.length := by omega
  have hx0 : X.getD 0 0 ∈ X := by
    rw [List.getD_eq_getElem?_getD, List.getElem?_eq_getElem hXl]; exact List.getElem_mem _
  have hxr : X.getD (X.length - 1) 0 ∈ X := by
    rw [List.getD_eq_getElem?_getD, List.getElem?_eq_getElem (by omega)]; exact List.getElem_mem _
  have hmax : ∀ y ∈ X, y ≤ X.getD (X.length - 1) 0 := by
    intro y hy
    obtain ⟨n, hn, e⟩ := List.mem_iff_getElem.mp hy
    rw [← e, List.getD_eq_getElem?_getD, List.getElem?_eq_getElem (by omega)]
    rcases Nat.lt_or_ge n (X.length - 1) with h | h
    · exact (List.pairwise_iff_getElem.mp hsort) n (X.length - 1) hn (by omega) h
    · have : n = X.length - 1 := by omega
      subst this; exact le_refl _
  have hA := findSpanLinear_spec p (fnOf U) P.length (X.getD 0 0) hpn hm (hdom _ hx0).1
  have hB := findSpanLinear_spec p (fnOf U) P.length (X.getD (X.length - 1) 0) hpn hm (hdom _ hxr).1
  have a1 : p ≤ findSpanLinear p (fnOf U) P.length (X.getD 0 0) := hA.1
  have a2 : findSpanLinear p (fnOf U) P.length (X.getD 0 0) < P.length := hA.2.1
  have a3 : fnOf U (findSpanLinear p (fnOf U) P.length (X.getD 0 0)) ≤ X.getD 0 0 := hA.2.2.1
  have a4 : X.getD 0 0 < fnOf U (findSpanLinear p (fnOf U) P.length (X.getD 0 0) + 1) ∨
      findSpanLinear p (fnOf U) P.length (X.getD 0 0) + 1 = P.length := hA.2.2.2
  have b2 : findSpanLinear p (fnOf U) P.length (X.getD (X.length - 1) 0) < P.length := hB.2.1
  have b4 : X.getD (X.length - 1) 0 < fnOf U (findSpanLinear p (fnOf U) P.length (X.getD (X.length - 1) 0) + 1) ∨
      findSpanLinear p (fnOf U) P.length (X.getD (X.length - 1) 0) + 1 = P.length := hB.2.2.2
  clear hA hB
  have a4' : X.getD 0 0 < fnOf U (findSpanLinear p (fnOf U) P.length (X.getD 0 0) + 1) := by
    rcases a4 with h | h
    · exact h
    · rw [h]; exact (hdom _ hx0).2
  have b4' : X.getD (X.length - 1) 0 < fnOf U (findSpanLinear p (fnOf U) P.length (X.getD (X.length - 1) 0) + 1) := by
    rcases b4 with h | h
    · exact h
    · rw [h]; exact (hdom _ hxr).2
  have hab : findSpanLinear p (fnOf U) P.length (X.getD 0 0) ≤ findSpanLinear p (fnOf U) P.length (X.getD (X.length - 1) 0) := by
    by_contra hc
    have h1 : fnOf U (findSpanLinear p (fnOf U) P.length (X.getD (X.length - 1) 0) + 1)
        ≤ fnOf U (findSpanLinear p (fnOf U) P.length (X.getD 0 0)) := hm (by omega)
    have h2 := hmax _ hx0
    exact absurd (lt_of_lt_of_le b4' (le_trans h1 (le_trans a3 h2))) (lt_irrefl _)
  simp only [a54Init, hn]
  set a := findSpanLinear p (fnOf U) P.length (X.getD 0 0) with ha
  set b0 := findSpanLinear p (fnOf U) P.length (X.getD (X.length - 1) 0) with hb0
  have hkv1len : ((List.range (a + 1)).foldl (fun c j => c.set j (fnOf U j))
      (List.replicate (P.length - 1 + p + 1 + (X.length - 1) + 2) (0:K))).length = U.length + X.length := by
    rw [foldl_set_length (fun j => j) (fun _ j => fnOf U j)]; simp; omega
  refine ⟨⟨by simp only; omega, le_refl _, ?_, rfl, ?_, ?_, fun _ _ => rfl,
    by simp only; omega, by simp only; omega⟩, a3, a4', ?_⟩
  · rw [foldl_set_length (fun j => j + (X.length - 1) + 1) (fun _ j => fnOf U j), hkv1len]
  · intro t ht1 ht2
    simp only at ht1 ⊢
    rw [fill_right1 _ _ _ _ _ _ _ (by rw [hkv1len]; exact ht2), if_pos (by omega)]
    congr 1; omega
  · intro t ht
    simp only
    rw [fill_right1 _ _ _ _ _ _ _ (by rw [hkv1len]; omega), if_neg (by omega),
      fill_left _ _ _ _ _ (by simp; omega), if_pos (by omega)]
  · intro y hy
    have : b0 + 1 + p - 1 + 1 = b0 + 1 + p := by omega
    rw [this]
    exact le_trans (hmax y hy) (le_trans (le_of_lt b4') (hm (by omega)))

/-- the knot vector of the fold of insertions is sorted as soon as the inserted knots lie in `[U_p, U_n)` -/
theorem insert_fold_kv_mono (p : ℕ) (tol : K) (X : List K) : ∀ (st : List K × List (List K)),
    Monotone (fnOf st.1) → st.1.length = st.2.length + p + 1 → p + 1 ≤ st.2.length →
    (∀ x ∈ X, fnOf st.1 p ≤ x ∧ x < fnOf st.1 st.2.length) →
    Monotone (fnOf (X.foldl (insertOne p tol) st).1) := by
  induction X with
  | nil => intro st hm _ _ _; exact hm
  | cons x xs ih =>
    intro st hm hlen hpn hdom
    simp only [List.foldl_cons]
    obtain ⟨hx1, hx2⟩ := hdom x (by simp)
    have hA := findSpanLinear_spec p (fnOf st.1) st.2.length x hpn hm hx1
    set k := findSpanLinear p (fnOf st.1) st.2.length x with hk
    have k1 : p ≤ k := hA.1
    have k2 : k < st.2.length := hA.2.1
    have k3 : fnOf st.1 k ≤ x := hA.2.2.1
    have hk2 : x < fnOf st.1 (k+1) := by
      rcases hA.2.2.2 with h | h
      · exact h
      · have h' : k + 1 = st.2.length := h
        rw [h']; exact hx2
    have e1 : (insertOne p tol st x).1 = knotInsertionKv st.1 x k 1 := rfl
    have e2 : (insertOne p tol st x).2.length = st.2.length + 1 := by
      simp only [insertOne, knotInsertion_length]
    have hkv := fnOf_knotInsertionKv st.1 x k 1 (by omega)
    apply ih
    · rw [e1, hkv]; exact Uh_mono _ _ _ _ hm k3 (le_of_lt hk2)
    · rw [e2, e1]
      simp only [knotInsertionKv, List.length_append, List.length_take, List.length_replicate, List.length_drop]
      omega
    · rw [e2]; omega
    · intro y hy
      rw [e2, e1, hkv]
      have hp' : Uh k 1 x (fnOf st.1) p = fnOf st.1 p := by unfold Uh; rw [if_pos k1]
      have hn' : Uh k 1 x (fnOf st.1) (st.2.length + 1) = fnOf st.1 st.2.length := by
        unfold Uh; rw [if_neg (by omega), if_neg (by omega)]; congr 1
      rw [hp', hn']
      exact hdom y (by simp [hy])

/-- **(a), weak form: `new_kv` of A5.4 is the sorted merge of `U` and `X`** and coincides with the knot
    vector of the fold of single insertions – for every sorted knot vector of the right length and every
    non-empty sorted list `X` inside `[U_p, U_n)`; no hypothesis on multiplicities, tolerance or control points. -/
theorem refineA54_kv_weak (p : ℕ) (U : List K) (P : List (List K)) (X : List K) (tol : K)
    (hm : Monotone (fnOf U)) (hlen : U.length = P.length + p + 1) (hpn : p + 1 ≤ P.length) (hX : X ≠ [])
    (hsort : X.Pairwise (· ≤ ·)) (hdom : ∀ x ∈ X, fnOf U p ≤ x ∧ x < fnOf U P.length) :
    (refineA54 p U P X tol).1 = (X.foldl (insertOne p tol) (U, P)).1 ∧
    (refineA54 p U P X tol).1.Pairwise (· ≤ ·) ∧ (refineA54 p U P X tol).1.Perm (X ++ U) := by
  obtain ⟨i1, i3, i4, i5⟩ := a54Init_repKv p U P X hm hlen hpn hX hsort hdom
  have hXl : 0 < X.length := List.length_pos_iff.mpr hX
  obtain ⟨Vf, r1, r2, r3, r4⟩ := a54Loop_repKv p U P X (a54Init p U P X).2 tol (U.length + 1) hm hsort
    (fun x hx => le_trans i3 (refineA54_eq_desc_fold.mem_take_le_first X hsort x hx)) i4 (by omega)
    X.length (a54Init p U P X).1 U (le_refl _) i1 hm (fun y hy => by rw [List.take_length] at hy; exact i5 y hy)
  rw [List.take_length] at r3
  have hi := r4 (by omega)
  -- the final array is the represented knot vector
  have hkv : (refineA54 p U P X tol).1 = Vf := by
    show (a54Loop p (fnOf U) P X (a54Init p U P X).2 tol (U.length + 1) X.length (a54Init p U P X).1).kv = Vf
    have hk := r1.hk; have hVl := r1.Vlen
    apply list_ext_getD _ _ (0:K) (by rw [r1.kvlen]; omega)
    intro t ht
    rw [r1.kvlen] at ht
    have e : Vf.getD t 0 = fnOf Vf t := by
      rw [fnOf_lt_length Vf t (by omega), List.getD_eq_getElem?_getD, List.getElem?_eq_getElem (by omega)]; rfl
    rw [e]
    by_cases c : t ≤ (a54Init p U P X).2
    · rw [r1.kvL t c, r1.VU t (by omega)]
    · rw [r1.kvR t (by omega) ht]; rfl
  have hsortA : Vf.Pairwise (· ≤ ·) := pairwise_of_mono Vf r2
  have hmF := insert_fold_kv_mono p tol X (U, P) hm hlen hpn hdom
  rw [hkv]
  refine ⟨?_, hsortA, r3⟩
  exact List.Perm.eq_of_pairwise (le := (· ≤ ·)) (fun a b _ _ h1 h2 => le_antisymm h1 h2) hsortA
    (pairwise_of_mono _ hmF) (r3.trans (insert_fold_perm p tol X (U, P)).symm)

end Geomdl
