import NurbsVerif.Lemmas.AssembleCdb
import NurbsVerif.Lemmas.AssembleHull
import NurbsVerif.Lemmas.AffineShapes

/-!
  Assembly, part 5 (C01): the points the library evaluates (`curvePoint`, `surfacePoint`,
  `volumePoint` = span search + span evaluation) equal the Cox–de Boor tensor sums
  * with `cdb` itself for parameters in the half-open domain `[U p, U n)`,
  * with the recursion of the span found (`cdbSpan`) on the whole closed domain `[U p, U n]` – at the
    right end that is the last non-empty span (left-limit convention);
  rational versions: the projected point is the quotient of the two sums.
-/
namespace Geomdl
open Blossom Finset
variable {K : Type} [Field K] [LinearOrder K] [IsStrictOrderedRing K]

/-! ### the span found is a legal index (no hypothesis on the parameter) -/

theorem asm_span_lt (p : ℕ) (U : ℕ → K) (n : ℕ) (u : K) (hpn : p + 1 ≤ n) : findSpanLinear p U n u < n := by
  obtain ⟨h1, h2, _, _⟩ := findSpanLinearAux_spec U n u (n+1) (p+1) hpn (by omega)
  unfold findSpanLinear
  omega

theorem asm_span_ge (p : ℕ) (U : ℕ → K) (n : ℕ) (u : K) (hpn : p + 1 ≤ n) : p ≤ findSpanLinear p U n u := by
  obtain ⟨h1, h2, _, _⟩ := findSpanLinearAux_spec U n u (n+1) (p+1) hpn (by omega)
  unfold findSpanLinear
  omega

/-! ### closed domain (indeed every parameter): recursion of the span found -/

theorem curvePoint_eq_cdbSpan (p : ℕ) (U : ℕ → K) (P : List (List K)) (u : K) (d j : ℕ)
    (hpn : p + 1 ≤ P.length) (hP : NetOk d P) :
    (curvePoint p U P u).getD j 0
      = ∑ i ∈ range P.length, cdbSpan U (findSpanLinear p U P.length u) p i u * (ptsGet P i).getD j 0 :=
  curvePointAt_eq_cdbSpan p U P _ u d j (asm_span_ge p U _ u hpn) (asm_span_lt p U _ u hpn) hP

theorem surfacePoint_eq_cdbSpan (pu pv : ℕ) (Uu Uv : ℕ → K) (su sv : ℕ) (P : List (List K)) (u v : K) (d j : ℕ)
    (hu : pu + 1 ≤ su) (hv : pv + 1 ≤ sv) (hlen : P.length = su * sv) (hP : NetOk d P) :
    (surfacePoint pu pv Uu Uv su sv P u v).getD j 0
      = ∑ a ∈ range su, ∑ b ∈ range sv,
          cdbSpan Uu (findSpanLinear pu Uu su u) pu a u * cdbSpan Uv (findSpanLinear pv Uv sv v) pv b v *
            (ptsGet P (b + sv * a)).getD j 0 :=
  surfacePointAt_eq_cdbSpan pu pv Uu Uv su sv P _ _ u v d j (asm_span_ge pu Uu _ u hu) (asm_span_ge pv Uv _ v hv)
    (asm_span_lt pu Uu _ u hu) (asm_span_lt pv Uv _ v hv) hlen hP

theorem volumePoint_eq_cdbSpan (pu pv pw : ℕ) (Uu Uv Uw : ℕ → K) (su sv sw : ℕ) (P : List (List K)) (u v w : K) (d j : ℕ)
    (hu : pu + 1 ≤ su) (hv : pv + 1 ≤ sv) (hw : pw + 1 ≤ sw) (hlen : P.length = su * sv * sw) (hP : NetOk d P) :
    (volumePoint pu pv pw Uu Uv Uw su sv sw P u v w).getD j 0
      = ∑ a ∈ range su, ∑ b ∈ range sv, ∑ c ∈ range sw,
          cdbSpan Uu (findSpanLinear pu Uu su u) pu a u * cdbSpan Uv (findSpanLinear pv Uv sv v) pv b v *
            cdbSpan Uw (findSpanLinear pw Uw sw w) pw c w * (ptsGet P (b + sv * (a + su * c))).getD j 0 :=
  volumePointAt_eq_cdbSpan pu pv pw Uu Uv Uw su sv sw P _ _ _ u v w d j
    (asm_span_ge pu Uu _ u hu) (asm_span_ge pv Uv _ v hv) (asm_span_ge pw Uw _ w hw)
    (asm_span_lt pu Uu _ u hu) (asm_span_lt pv Uv _ v hv) (asm_span_lt pw Uw _ w hw) hlen hP

/-! ### half-open domain: the Cox–de Boor functions themselves -/

theorem curvePoint_eq_cdb (p : ℕ) (U : ℕ → K) (P : List (List K)) (u : K) (d j : ℕ)
    (hm : Monotone U) (hpn : p + 1 ≤ P.length) (hP : NetOk d P) (h1 : U p ≤ u) (h2 : u < U P.length) :
    (curvePoint p U P u).getD j 0 = ∑ i ∈ range P.length, cdb U p i u * (ptsGet P i).getD j 0 := by
  obtain ⟨a1, a2, a3, a4⟩ := findSpanLinear_halfopen hm hpn u h1 h2
  exact curvePointAt_eq_cdb p U P _ u d j hm a1 a2 a3 a4 hP

theorem surfacePoint_eq_cdb (pu pv : ℕ) (Uu Uv : ℕ → K) (su sv : ℕ) (P : List (List K)) (u v : K) (d j : ℕ)
    (hmu : Monotone Uu) (hmv : Monotone Uv) (hu : pu + 1 ≤ su) (hv : pv + 1 ≤ sv)
    (hlen : P.length = su * sv) (hP : NetOk d P)
    (hu1 : Uu pu ≤ u) (hu2 : u < Uu su) (hv1 : Uv pv ≤ v) (hv2 : v < Uv sv) :
    (surfacePoint pu pv Uu Uv su sv P u v).getD j 0
      = ∑ a ∈ range su, ∑ b ∈ range sv, cdb Uu pu a u * cdb Uv pv b v * (ptsGet P (b + sv * a)).getD j 0 := by
  obtain ⟨a1, a2, a3, a4⟩ := findSpanLinear_halfopen hmu hu u hu1 hu2
  obtain ⟨b1, b2, b3, b4⟩ := findSpanLinear_halfopen hmv hv v hv1 hv2
  exact surfacePointAt_eq_cdb pu pv Uu Uv su sv P _ _ u v d j hmu hmv a1 a2 b1 b2 a3 b3 a4 b4 hlen hP

theorem volumePoint_eq_cdb (pu pv pw : ℕ) (Uu Uv Uw : ℕ → K) (su sv sw : ℕ) (P : List (List K)) (u v w : K) (d j : ℕ)
    (hmu : Monotone Uu) (hmv : Monotone Uv) (hmw : Monotone Uw)
    (hu : pu + 1 ≤ su) (hv : pv + 1 ≤ sv) (hw : pw + 1 ≤ sw) (hlen : P.length = su * sv * sw) (hP : NetOk d P)
    (hu1 : Uu pu ≤ u) (hu2 : u < Uu su) (hv1 : Uv pv ≤ v) (hv2 : v < Uv sv) (hw1 : Uw pw ≤ w) (hw2 : w < Uw sw) :
    (volumePoint pu pv pw Uu Uv Uw su sv sw P u v w).getD j 0
      = ∑ a ∈ range su, ∑ b ∈ range sv, ∑ c ∈ range sw,
          cdb Uu pu a u * cdb Uv pv b v * cdb Uw pw c w * (ptsGet P (b + sv * (a + su * c))).getD j 0 := by
  obtain ⟨a1, a2, a3, a4⟩ := findSpanLinear_halfopen hmu hu u hu1 hu2
  obtain ⟨b1, b2, b3, b4⟩ := findSpanLinear_halfopen hmv hv v hv1 hv2
  obtain ⟨c1, c2, c3, c4⟩ := findSpanLinear_halfopen hmw hw w hw1 hw2
  exact volumePointAt_eq_cdb pu pv pw Uu Uv Uw su sv sw P _ _ _ u v w d j hmu hmv hmw a1 a2 b1 b2 c1 c2 a3 b3 c3 a4 b4 c4
    hlen hP

/-! ### rational: the projected point is the quotient of the two sums -/

theorem project_quot (pt : List K) (d j : ℕ) (hlen : pt.length = d + 1) (hj : j < d) (X Y : K)
    (hx : pt.getD j 0 = X) (hy : pt.getD d 0 = Y) : (project pt).getD j 0 = X / Y := by
  rw [project_getD pt d j hlen hj, hx, hy]

theorem curvePoint_length (p : ℕ) (U : ℕ → K) (P : List (List K)) (u : K) (d : ℕ)
    (hpn : p + 1 ≤ P.length) (hP : NetOk d P) : (curvePoint p U P u).length = d :=
  curvePointAt_length p U P _ u d (asm_span_ge p U _ u hpn) (asm_span_lt p U _ u hpn) hP

theorem surfacePoint_length (pu pv : ℕ) (Uu Uv : ℕ → K) (su sv : ℕ) (P : List (List K)) (u v : K) (d : ℕ)
    (hu : pu + 1 ≤ su) (hv : pv + 1 ≤ sv) (hlen : P.length = su * sv) (hP : NetOk d P) :
    (surfacePoint pu pv Uu Uv su sv P u v).length = d :=
  surfacePointAt_length pu pv Uu Uv su sv P _ _ u v d (asm_span_ge pu Uu _ u hu) (asm_span_ge pv Uv _ v hv)
    (asm_span_lt pu Uu _ u hu) (asm_span_lt pv Uv _ v hv) hlen hP

theorem volumePoint_length (pu pv pw : ℕ) (Uu Uv Uw : ℕ → K) (su sv sw : ℕ) (P : List (List K)) (u v w : K) (d : ℕ)
    (hu : pu + 1 ≤ su) (hv : pv + 1 ≤ sv) (hw : pw + 1 ≤ sw) (hlen : P.length = su * sv * sw) (hP : NetOk d P) :
    (volumePoint pu pv pw Uu Uv Uw su sv sw P u v w).length = d :=
  volumePointAt_length pu pv pw Uu Uv Uw su sv sw P _ _ _ u v w d
    (asm_span_ge pu Uu _ u hu) (asm_span_ge pv Uv _ v hv) (asm_span_ge pw Uw _ w hw)
    (asm_span_lt pu Uu _ u hu) (asm_span_lt pv Uv _ v hv) (asm_span_lt pw Uw _ w hw) hlen hP

/-- rational curve, closed domain: weight positive and point = quotient of the span-recursion sums -/
theorem curvePoint_rational_eq_cdbSpan (p : ℕ) (U : ℕ → K) (Pw : List (List K)) (u : K) (d j : ℕ)
    (hU : KnotsOk p U Pw.length) (hP : NetOk (d+1) Pw) (h1 : U p ≤ u) (h2 : u ≤ U Pw.length)
    (hwt : ∀ i, i < Pw.length → 0 < (ptsGet Pw i).getD d 0) (hj : j < d) :
    0 < (curvePoint p U Pw u).getD d 0 ∧
    (project (curvePoint p U Pw u)).getD j 0
      = (∑ i ∈ range Pw.length, cdbSpan U (findSpanLinear p U Pw.length u) p i u * (ptsGet Pw i).getD j 0)
        / (∑ i ∈ range Pw.length, cdbSpan U (findSpanLinear p U Pw.length u) p i u * (ptsGet Pw i).getD d 0) := by
  obtain ⟨hs, hp, hk⟩ := findSpanLinear_dom hU u h1 h2
  exact ⟨curvePointAt_weight_pos p U Pw _ u d hs hp hk hP hwt,
    project_quot _ d j (curvePoint_length p U Pw u (d+1) hU.pn hP) hj _ _
      (curvePoint_eq_cdbSpan p U Pw u (d+1) j hU.pn hP) (curvePoint_eq_cdbSpan p U Pw u (d+1) d hU.pn hP)⟩

/-- rational curve, half-open domain: quotient of the Cox–de Boor sums -/
theorem curvePoint_rational_eq_cdb (p : ℕ) (U : ℕ → K) (Pw : List (List K)) (u : K) (d j : ℕ)
    (hm : Monotone U) (hpn : p + 1 ≤ Pw.length) (hP : NetOk (d+1) Pw) (h1 : U p ≤ u) (h2 : u < U Pw.length) (hj : j < d) :
    (project (curvePoint p U Pw u)).getD j 0
      = (∑ i ∈ range Pw.length, cdb U p i u * (ptsGet Pw i).getD j 0)
        / (∑ i ∈ range Pw.length, cdb U p i u * (ptsGet Pw i).getD d 0) :=
  project_quot _ d j (curvePoint_length p U Pw u (d+1) hpn hP) hj _ _
    (curvePoint_eq_cdb p U Pw u (d+1) j hm hpn hP h1 h2) (curvePoint_eq_cdb p U Pw u (d+1) d hm hpn hP h1 h2)

theorem surfacePoint_rational_eq_cdbSpan (pu pv : ℕ) (Uu Uv : ℕ → K) (su sv : ℕ) (Pw : List (List K)) (u v : K) (d j : ℕ)
    (hUu : KnotsOk pu Uu su) (hUv : KnotsOk pv Uv sv) (hlen : Pw.length = su * sv) (hP : NetOk (d+1) Pw)
    (hu1 : Uu pu ≤ u) (hu2 : u ≤ Uu su) (hv1 : Uv pv ≤ v) (hv2 : v ≤ Uv sv)
    (hwt : ∀ i, i < Pw.length → 0 < (ptsGet Pw i).getD d 0) (hj : j < d) :
    0 < (surfacePoint pu pv Uu Uv su sv Pw u v).getD d 0 ∧
    (project (surfacePoint pu pv Uu Uv su sv Pw u v)).getD j 0
      = (∑ a ∈ range su, ∑ b ∈ range sv,
          cdbSpan Uu (findSpanLinear pu Uu su u) pu a u * cdbSpan Uv (findSpanLinear pv Uv sv v) pv b v *
            (ptsGet Pw (b + sv * a)).getD j 0)
        / (∑ a ∈ range su, ∑ b ∈ range sv,
          cdbSpan Uu (findSpanLinear pu Uu su u) pu a u * cdbSpan Uv (findSpanLinear pv Uv sv v) pv b v *
            (ptsGet Pw (b + sv * a)).getD d 0) := by
  obtain ⟨hsu, hpu, hku⟩ := findSpanLinear_dom hUu u hu1 hu2
  obtain ⟨hsv, hpv, hkv⟩ := findSpanLinear_dom hUv v hv1 hv2
  have hidx : ∀ a b, a < su → b < sv → b + sv * a < Pw.length := by
    intro a b ha hb
    rw [hlen]
    calc b + sv * a < sv + sv * a := by omega
      _ = sv * (a + 1) := by ring
      _ ≤ sv * su := Nat.mul_le_mul_left _ (by omega)
      _ = su * sv := by ring
  refine ⟨?_, project_quot _ d j (surfacePoint_length pu pv Uu Uv su sv Pw u v (d+1) hUu.pn hUv.pn hlen hP) hj _ _
      (surfacePoint_eq_cdbSpan pu pv Uu Uv su sv Pw u v (d+1) j hUu.pn hUv.pn hlen hP)
      (surfacePoint_eq_cdbSpan pu pv Uu Uv su sv Pw u v (d+1) d hUu.pn hUv.pn hlen hP)⟩
  exact (surfacePointAt_rational_in_hull pu pv Uu Uv su sv Pw _ _ u v d hsu hsv hpu hpv hku hkv hlen hP
    (fun a b ha hb => hwt _ (hidx _ _ (by omega) (by omega))) (fun _ => 0) 0 0
    (fun a b _ _ => by simp) (fun a b _ _ => by simp)).1

theorem surfacePoint_rational_eq_cdb (pu pv : ℕ) (Uu Uv : ℕ → K) (su sv : ℕ) (Pw : List (List K)) (u v : K) (d j : ℕ)
    (hmu : Monotone Uu) (hmv : Monotone Uv) (hu : pu + 1 ≤ su) (hv : pv + 1 ≤ sv)
    (hlen : Pw.length = su * sv) (hP : NetOk (d+1) Pw)
    (hu1 : Uu pu ≤ u) (hu2 : u < Uu su) (hv1 : Uv pv ≤ v) (hv2 : v < Uv sv) (hj : j < d) :
    (project (surfacePoint pu pv Uu Uv su sv Pw u v)).getD j 0
      = (∑ a ∈ range su, ∑ b ∈ range sv, cdb Uu pu a u * cdb Uv pv b v * (ptsGet Pw (b + sv * a)).getD j 0)
        / (∑ a ∈ range su, ∑ b ∈ range sv, cdb Uu pu a u * cdb Uv pv b v * (ptsGet Pw (b + sv * a)).getD d 0) :=
  project_quot _ d j (surfacePoint_length pu pv Uu Uv su sv Pw u v (d+1) hu hv hlen hP) hj _ _
    (surfacePoint_eq_cdb pu pv Uu Uv su sv Pw u v (d+1) j hmu hmv hu hv hlen hP hu1 hu2 hv1 hv2)
    (surfacePoint_eq_cdb pu pv Uu Uv su sv Pw u v (d+1) d hmu hmv hu hv hlen hP hu1 hu2 hv1 hv2)

theorem volumePoint_rational_eq_cdbSpan (pu pv pw : ℕ) (Uu Uv Uw : ℕ → K) (su sv sw : ℕ) (Pw : List (List K))
    (u v w : K) (d j : ℕ)
    (hUu : KnotsOk pu Uu su) (hUv : KnotsOk pv Uv sv) (hUw : KnotsOk pw Uw sw)
    (hlen : Pw.length = su * sv * sw) (hP : NetOk (d+1) Pw)
    (hu1 : Uu pu ≤ u) (hu2 : u ≤ Uu su) (hv1 : Uv pv ≤ v) (hv2 : v ≤ Uv sv) (hw1 : Uw pw ≤ w) (hw2 : w ≤ Uw sw)
    (hwt : ∀ i, i < Pw.length → 0 < (ptsGet Pw i).getD d 0) (hj : j < d) :
    0 < (volumePoint pu pv pw Uu Uv Uw su sv sw Pw u v w).getD d 0 ∧
    (project (volumePoint pu pv pw Uu Uv Uw su sv sw Pw u v w)).getD j 0
      = (∑ a ∈ range su, ∑ b ∈ range sv, ∑ c ∈ range sw,
          cdbSpan Uu (findSpanLinear pu Uu su u) pu a u * cdbSpan Uv (findSpanLinear pv Uv sv v) pv b v *
            cdbSpan Uw (findSpanLinear pw Uw sw w) pw c w * (ptsGet Pw (b + sv * (a + su * c))).getD j 0)
        / (∑ a ∈ range su, ∑ b ∈ range sv, ∑ c ∈ range sw,
          cdbSpan Uu (findSpanLinear pu Uu su u) pu a u * cdbSpan Uv (findSpanLinear pv Uv sv v) pv b v *
            cdbSpan Uw (findSpanLinear pw Uw sw w) pw c w * (ptsGet Pw (b + sv * (a + su * c))).getD d 0) := by
  refine ⟨?_, project_quot _ d j (volumePoint_length pu pv pw Uu Uv Uw su sv sw Pw u v w (d+1) hUu.pn hUv.pn hUw.pn hlen hP)
      hj _ _
      (volumePoint_eq_cdbSpan pu pv pw Uu Uv Uw su sv sw Pw u v w (d+1) j hUu.pn hUv.pn hUw.pn hlen hP)
      (volumePoint_eq_cdbSpan pu pv pw Uu Uv Uw su sv sw Pw u v w (d+1) d hUu.pn hUv.pn hUw.pn hlen hP)⟩
  obtain ⟨hsu, hpu, hku⟩ := findSpanLinear_dom hUu u hu1 hu2
  obtain ⟨hsv, hpv, hkv⟩ := findSpanLinear_dom hUv v hv1 hv2
  obtain ⟨hsw, hpw, hkw⟩ := findSpanLinear_dom hUw w hw1 hw2
  have hidx : ∀ a b c, a < su → b < sv → c < sw → b + sv * (a + su * c) < Pw.length := by
    intro a b c ha hb hc
    rw [hlen]
    calc b + sv * (a + su * c) < sv + sv * (a + su * c) := by omega
      _ = sv * (a + 1 + su * c) := by ring
      _ ≤ sv * (su + su * c) := Nat.mul_le_mul_left _ (by omega)
      _ = sv * su * (c + 1) := by ring
      _ ≤ sv * su * sw := Nat.mul_le_mul_left _ (by omega)
      _ = su * sv * sw := by ring
  exact (volumePointAt_rational_in_hull pu pv pw Uu Uv Uw su sv sw Pw _ _ _ u v w d hsu hsv hsw hpu hpv hpw hku hkv hkw
    hlen hP (fun a b c ha hb hc => hwt _ (hidx _ _ _ (by omega) (by omega) (by omega))) (fun _ => 0) 0 0
    (fun a b c _ _ _ => by simp) (fun a b c _ _ _ => by simp)).1

theorem volumePoint_rational_eq_cdb (pu pv pw : ℕ) (Uu Uv Uw : ℕ → K) (su sv sw : ℕ) (Pw : List (List K))
    (u v w : K) (d j : ℕ)
    (hmu : Monotone Uu) (hmv : Monotone Uv) (hmw : Monotone Uw)
    (hu : pu + 1 ≤ su) (hv : pv + 1 ≤ sv) (hw : pw + 1 ≤ sw) (hlen : Pw.length = su * sv * sw) (hP : NetOk (d+1) Pw)
    (hu1 : Uu pu ≤ u) (hu2 : u < Uu su) (hv1 : Uv pv ≤ v) (hv2 : v < Uv sv) (hw1 : Uw pw ≤ w) (hw2 : w < Uw sw)
    (hj : j < d) :
    (project (volumePoint pu pv pw Uu Uv Uw su sv sw Pw u v w)).getD j 0
      = (∑ a ∈ range su, ∑ b ∈ range sv, ∑ c ∈ range sw,
          cdb Uu pu a u * cdb Uv pv b v * cdb Uw pw c w * (ptsGet Pw (b + sv * (a + su * c))).getD j 0)
        / (∑ a ∈ range su, ∑ b ∈ range sv, ∑ c ∈ range sw,
          cdb Uu pu a u * cdb Uv pv b v * cdb Uw pw c w * (ptsGet Pw (b + sv * (a + su * c))).getD d 0) :=
  project_quot _ d j (volumePoint_length pu pv pw Uu Uv Uw su sv sw Pw u v w (d+1) hu hv hw hlen hP) hj _ _
    (volumePoint_eq_cdb pu pv pw Uu Uv Uw su sv sw Pw u v w (d+1) j hmu hmv hmw hu hv hw hlen hP hu1 hu2 hv1 hv2 hw1 hw2)
    (volumePoint_eq_cdb pu pv pw Uu Uv Uw su sv sw Pw u v w (d+1) d hmu hmv hmw hu hv hw hlen hP hu1 hu2 hv1 hv2 hw1 hw2)

end Geomdl
