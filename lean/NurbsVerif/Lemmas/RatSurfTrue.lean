import NurbsVerif.Lemmas.SurfDerivRat
import NurbsVerif.Lemmas.AssemblePoint
/-!
# Rational surface derivatives, end to end through the span search (C02)

`ratSurfaceDers_true` is stated at a GIVEN span pair with the hypothesis that the weight polynomial does not vanish at
`(u, v)`.  Here the spans are the ones the library's search finds on the closed domain, and the non-vanishing of the
weight is discharged from positive weights of the control points.
-/
namespace Geomdl
open Blossom Polynomial Finset
open scoped Polynomial.Bivariate
variable {K : Type} [Field K] [LinearOrder K] [IsStrictOrderedRing K]

theorem ratSurfaceDers_domain (pu pv : ℕ) (Uu Uv : ℕ → K) (su sv : ℕ) (Pw : List (List K)) (u v : K)
    (d c order k l : ℕ)
    (hUu : KnotsOk pu Uu su) (hUv : KnotsOk pv Uv sv) (hlen : Pw.length = su * sv) (hP : NetOk (d+1) Pw)
    (hwt : ∀ i, i < Pw.length → 0 < (ptsGet Pw i).getD d 0)
    (hu1 : Uu pu ≤ u) (hu2 : u ≤ Uu su) (hv1 : Uv pv ≤ v) (hv2 : v ≤ Uv sv)
    (hk : k ≤ order) (hl : l ≤ order) (hc : c < d) :
    0 < (surfSpanPoly pu pv Uu Uv sv Pw (findSpanLinear pu Uu su u) (findSpanLinear pv Uv sv v) d).evalEval u v ∧
    ∑ i ∈ range (k+1), ∑ j ∈ range (l+1),
      (Nat.choose k i : K) * (Nat.choose l j : K)
        * (pderivU^[i] (pderivV^[j] (surfSpanPoly pu pv Uu Uv sv Pw (findSpanLinear pu Uu su u)
            (findSpanLinear pv Uv sv v) d))).evalEval u v
        * (tget (ratSurfaceDers (surfaceDersAt pu pv Uu Uv sv Pw (findSpanLinear pu Uu su u)
            (findSpanLinear pv Uv sv v) u v order false) order) (k - i) (l - j)).getD c 0
      = (pderivU^[k] (pderivV^[l] (surfSpanPoly pu pv Uu Uv sv Pw (findSpanLinear pu Uu su u)
            (findSpanLinear pv Uv sv v) c))).evalEval u v := by
  obtain ⟨hsu, hpu, hku⟩ := findSpanLinear_dom hUu u hu1 hu2
  obtain ⟨hsv, hpv, hkv⟩ := findSpanLinear_dom hUv v hv1 hv2
  have hpos : 0 < (surfSpanPoly pu pv Uu Uv sv Pw (findSpanLinear pu Uu su u)
      (findSpanLinear pv Uv sv v) d).evalEval u v := by
    rw [← surfacePointAt_eq_surfSpanPoly pu pv Uu Uv su sv Pw _ _ u v (d+1) d hpu hpv hku hkv hlen hP]
    exact (surfacePoint_rational_eq_cdbSpan pu pv Uu Uv su sv Pw u v d 0 hUu hUv hlen hP hu1 hu2 hv1 hv2
      hwt (by omega)).1
  exact ⟨hpos, ratSurfaceDers_true pu pv Uu Uv su sv Pw _ _ u v d c order k l hpu hpv hku hkv hlen hP
    hUu.mono hUv.mono hsu.nonempty hsv.nonempty (ne_of_gt hpos) hk hl hc⟩

end Geomdl
