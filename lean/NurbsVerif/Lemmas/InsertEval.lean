import NurbsVerif.Lemmas.Insert
import NurbsVerif.Lemmas.Diag
import Mathlib.Order.Monotone.Basic

namespace Blossom
open Geomdl
variable {K : Type} [Field K] [LinearOrder K] [IsStrictOrderedRing K]

theorem sep_of_mono (U : ℕ → K) (κ : ℕ) (hm : Monotone U) (hspan : U κ < U (κ+1)) : Sep U κ := by
  intro i j hi hj
  have h1 : U i ≤ U κ := hm hi
  have h2 : U (κ+1) ≤ U j := hm (by omega)
  have : U i < U j := lt_of_le_of_lt h1 (lt_of_lt_of_le hspan h2)
  exact sub_ne_zero.mpr (ne_of_gt this)

theorem Uh_mono (U : ℕ → K) (k r : ℕ) (ub : K) (hm : Monotone U) (h1 : U k ≤ ub) (h2 : ub ≤ U (k+1)) :
    Monotone (Uh k r ub U) := by
  apply monotone_nat_of_le_succ
  intro n
  unfold Uh
  by_cases c1 : n + 1 ≤ k
  · rw [if_pos (by omega), if_pos c1]; exact hm (by omega)
  · by_cases c2 : n ≤ k
    · -- n = k
      have hn : n = k := by omega
      rw [if_pos c2, if_neg c1]
      by_cases c3 : n + 1 ≤ k + r
      · rw [if_pos c3, hn]; exact h1
      · rw [if_neg c3]
        have : n + 1 - r = k + 1 := by omega
        rw [this, hn]; exact le_trans h1 h2
    · rw [if_neg c2, if_neg c1]
      by_cases c3 : n + 1 ≤ k + r
      · rw [if_pos (by omega), if_pos c3]
      · rw [if_neg c3]
        by_cases c4 : n ≤ k + r
        · rw [if_pos c4]
          have : n + 1 - r = k + 1 := by omega
          rw [this]; exact h2
        · rw [if_neg c4]; exact hm (by omega)

/-- Knot insertion leaves the value computed by A2.2/A3.1 unchanged, at every parameter. -/
theorem insert_preserves_eval (U : ℕ → K) (p k r κ κ' : ℕ) (ub u : K) (P : ℕ → K)
    (hm : Monotone U) (hk1 : U k ≤ ub) (hk2 : ub ≤ U (k+1))
    (hκ : U κ < U (κ+1)) (hκ' : Uh k r ub U κ' < Uh k r ub U (κ'+1))
    (hr : r ≤ p) (hpκ : p ≤ κ)
    (hcase : (κ' = κ ∧ κ ≤ k) ∨ (κ' = κ + r ∧ k ≤ κ)) :
    wsum (basisFuns p (Uh k r ub U) κ' u) (Qpos U p k r ub P) (κ' - p)
      = wsum (basisFuns p U κ u) P (κ - p) := by
  have hpκ' : p ≤ κ' := by rcases hcase with ⟨h,_⟩|⟨h,_⟩ <;> omega
  rw [diag _ _ _ p hpκ', diag _ _ _ p hpκ]
  exact insert_preserves U p k r κ κ' ub u P (sep_of_mono U κ hm hκ)
    (sep_of_mono _ κ' (Uh_mono U k r ub hm hk1 hk2) hκ') hr hpκ hcase
end Blossom
