import NurbsVerif.Lemmas.Insert
import Mathlib.Data.List.GetD

namespace Blossom
variable {K : Type} [Field K]

/-- `knot_insertion_alpha(u, U, k, i, L)` -/
def insAlpha (U : ℕ → K) (u : K) (k i L : ℕ) : K := (u - U (L + i)) / (U (i + k + 1) - U (L + i))

/-- the `temp` array of A5.1 before the first insertion (`p - s + 1` entries) -/
def tempInit (P : ℕ → K) (k p s : ℕ) : List K := (List.range (p - s + 1)).map (fun i => P (k - p + i))

/-- insertion level `j` with the in-place update semantics of the code -/
def tempStep (U : ℕ → K) (u : K) (k p s j : ℕ) (temp : List K) : List K :=
  (List.range (p - j - s + 1)).map (fun i =>
      insAlpha U u k i (k - p + j) * temp.getD (i+1) 0 + (1 - insAlpha U u k i (k - p + j)) * temp.getD i 0)
    ++ temp.drop (p - j - s + 1)

def tempAt (U : ℕ → K) (u : K) (P : ℕ → K) (k p s : ℕ) : ℕ → List K
  | 0 => tempInit P k p s
  | j+1 => tempStep U u k p s (j+1) (tempAt U u P k p s j)

theorem cj_succ (U : ℕ → K) (p : ℕ) (ub : K) (P : ℕ → K) (j : ℕ) :
    cj U p ub P (j+1) = dbStep U (p - j) ub (cj U p ub P j) := by
  unfold cj
  rw [List.replicate_succ', polar_append]
  simp [polar]

/-- the `temp` array holds the de Boor points of the inserted parameter -/
theorem tempAt_eq (U : ℕ → K) (u : K) (P : ℕ → K) (k p s : ℕ) (hsep : Sep U k) (hpk : p ≤ k) :
    ∀ j, j + s ≤ p → ∀ i, i + j + s ≤ p →
      (tempAt U u P k p s j).getD i 0 = cj U p u P j (k - p + j + i) := by
  intro j
  induction j with
  | zero =>
    intro _ i hi
    simp only [tempAt, tempInit, cj, List.replicate_zero, polar, Nat.add_zero]
    rw [List.getD_eq_getElem?_getD, List.getElem?_map, List.getElem?_range (by omega)]
    simp
  | succ j ih =>
    intro hj i hi
    simp only [tempAt, tempStep]
    rw [List.getD_append _ _ _ _ (by simp; omega)]
    rw [List.getD_eq_getElem?_getD, List.getElem?_map, List.getElem?_range (by omega)]
    simp only [Option.map_some, Option.getD_some]
    rw [ih (by omega) (i+1) (by omega), ih (by omega) i (by omega), cj_succ]
    unfold dbStep insAlpha
    have e1 : k - p + (j+1) + i + (p - j) = i + k + 1 := by omega
    have e2 : k - p + (j+1) + i - 1 = k - p + j + i := by omega
    have e3 : k - p + j + (i+1) = k - p + (j+1) + i := by omega
    rw [e1, e2, e3]
    have hne : U (i + k + 1) - U (k - p + (j+1) + i) ≠ 0 := hsep _ _ (by omega) (by omega)
    field_simp
    ring

/-- moving one level down when the knot at the index equals the inserted parameter -/
theorem cj_shift (U : ℕ → K) (p κ : ℕ) (ub : K) (P : ℕ → K) (hsep : Sep U κ) :
    ∀ d j m, d ≤ j → j ≤ p → d ≤ m → m ≤ κ → κ + j < m + p + 1 →
      (∀ x, m - d < x → x ≤ m → U x = ub) →
      cj U p ub P j m = cj U p ub P (j - d) (m - d) := by
  intro d
  induction d with
  | zero => intros; rfl
  | succ d ih =>
    intro j m hdj hjp hdm hmκ hbig hU
    obtain ⟨j', rfl⟩ : ∃ j', j = j' + 1 := ⟨j - 1, by omega⟩
    rw [cj_succ]
    have hm : U m = ub := hU m (by omega) (le_refl _)
    have hne : U (m + (p - j')) - U m ≠ 0 := hsep _ _ hmκ (by omega)
    have h := dbStep_left U (p - j') (cj U p ub P j') m hne
    rw [hm] at h
    rw [h]
    have := ih j' (m-1) (by omega) (by omega) (by omega) (by omega) (by omega)
      (fun x hx1 hx2 => hU x (by omega) (by omega))
    rw [this]
    congr 1 <;> omega

/-- the output array of A5.1 (`helpers.knot_insertion`), as the case expression over the index that
    the code's disjoint copy / edge / remaining loops implement -/
def Qcode (U : ℕ → K) (u : K) (P : ℕ → K) (k p s r : ℕ) (i : ℕ) : K :=
  if i + p ≤ k then P i
  else if i + p ≤ k + r then (tempAt U u P k p s (i + p - k)).getD 0 0
  else if i + s < k then (tempAt U u P k p s r).getD (i + p - k - r) 0
  else if i + s < k + r then (tempAt U u P k p s (k + r - s - i)).getD (p - (k + r - s - i) - s) 0
  else P (i - r)

theorem cj_zero (U : ℕ → K) (p : ℕ) (ub : K) (P : ℕ → K) (m : ℕ) : cj U p ub P 0 m = P m := by
  simp [cj, polar]

/-- A5.1's control points are the positional closed form, hence the polar values -/
theorem Qcode_eq_Qpos (U : ℕ → K) (u : K) (P : ℕ → K) (k p s r : ℕ)
    (hsep : Sep U k) (hpk : p ≤ k) (hr1 : 1 ≤ r) (hrs : r + s ≤ p)
    (hmult : ∀ x, k - s < x → x ≤ k → U x = u) (i : ℕ) :
    Qcode U u P k p s r i = Qpos U p k r u P i := by
  have T := tempAt_eq U u P k p s hsep hpk
  have S := cj_shift U p k u P hsep
  unfold Qcode Qpos jcount mold
  by_cases c1 : i + p ≤ k
  · -- untouched on the left
    rw [if_pos c1, if_pos (by omega)]
    have : min (i + p) (k + r) - max i k = 0 := by omega
    rw [this, cj_zero]
  · rw [if_neg c1]
    by_cases c2 : i + p ≤ k + r
    · -- left edge
      rw [if_pos c2, T (i + p - k) (by omega) 0 (by omega)]
      by_cases hik : i < k
      · rw [if_pos hik]
        have e1 : min (i + p) (k + r) - max i k = i + p - k := by omega
        have e2 : k - p + (i + p - k) + 0 = i := by omega
        rw [e1, e2]
      · rw [if_neg hik, if_pos (by omega)]
        have e1 : min (i + p) (k + r) - max i k = i + p - k := by omega
        have e2 : k - p + (i + p - k) + 0 = k := by omega
        rw [e1, e2]
    · rw [if_neg c2]
      by_cases c3 : i + s < k
      · -- last row
        rw [if_pos c3, if_pos (by omega), T r (by omega) (i + p - k - r) (by omega)]
        have e1 : min (i + p) (k + r) - max i k = r := by omega
        have e2 : k - p + r + (i + p - k - r) = i := by omega
        rw [e1, e2]
      · rw [if_neg c3]
        by_cases c4 : i + s < k + r
        · -- right edge
          rw [if_pos c4, T (k + r - s - i) (by omega) (p - (k + r - s - i) - s) (by omega)]
          have e2 : k - p + (k + r - s - i) + (p - (k + r - s - i) - s) = k - s := by omega
          rw [e2]
          by_cases hik : i < k
          · rw [if_pos hik]
            have e1 : min (i + p) (k + r) - max i k = r := by omega
            rw [e1]
            have := S (i - (k - s)) r i (by omega) (by omega) (by omega) (by omega) (by omega)
              (fun x h1 h2 => hmult x (by omega) (by omega))
            rw [this]
            congr 1 <;> omega
          · rw [if_neg hik, if_pos (by omega)]
            have e1 : min (i + p) (k + r) - max i k = k + r - i := by omega
            rw [e1]
            have := S s (k + r - i) k (by omega) (by omega) (by omega) (le_refl _) (by omega)
              (fun x h1 h2 => hmult x h1 h2)
            rw [this]
            congr 1; omega
        · -- untouched on the right
          rw [if_neg c4]
          by_cases hik : i < k
          · rw [if_pos hik]
            have e1 : min (i + p) (k + r) - max i k = r := by omega
            rw [e1]
            have := S r r i (le_refl _) (by omega) (by omega) (by omega) (by omega)
              (fun x h1 h2 => hmult x (by omega) (by omega))
            rw [this, Nat.sub_self, cj_zero]
          · rw [if_neg hik]
            by_cases hik2 : i < k + r
            · rw [if_pos hik2]
              have e1 : min (i + p) (k + r) - max i k = k + r - i := by omega
              rw [e1]
              have := S (k + r - i) (k + r - i) k (le_refl _) (by omega) (by omega) (le_refl _) (by omega)
                (fun x h1 h2 => hmult x (by omega) h2)
              rw [this, Nat.sub_self, cj_zero]
              congr 1; omega
            · rw [if_neg hik2]
              have e1 : min (i + p) (k + r) - max i k = 0 := by omega
              rw [e1, cj_zero]
end Blossom
