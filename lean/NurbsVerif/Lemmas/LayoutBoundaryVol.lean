import NurbsVerif.Lemmas.LayoutBoundary

/-!
  C13, boundary sections at the level of evaluated points, part 2: the boundary iso-surfaces of a
  volume clamped in a direction are the first / last surface of the matching `extract_surfaces` family;
  consequently the two opposite boundary sections of a sweep are the input and its translate – as
  evaluated shapes, not only as nets.
-/
namespace Geomdl
open Blossom Finset
set_option linter.unusedSectionVars false
variable {K : Type} [Field K] [LinearOrder K] [IsStrictOrderedRing K]

section volume
variable (V : Vol (List K) (ℕ → K)) (d : ℕ)

/-- nets of the extracted surfaces have `d` coordinates -/
theorem tab2_netOk (A B : ℕ) (f : ℕ → ℕ → List K) (hf : ∀ a b, a < A → b < B → (f a b).length = d) :
    NetOk d (tab2 A B f) := by
  intro pt hpt
  simp only [tab2, List.mem_flatMap, List.mem_map, List.mem_range] at hpt
  obtain ⟨a, ha, b, hb, rfl⟩ := hpt
  exact hf a b ha hb

/-- **boundary iso-surfaces `w = w_min` / `w = w_max`** of a volume clamped in `w`: the volume point is
    the point at `(u, v)` of the first / last surface of the `'uv'` family of `extract_surfaces` -/
theorem volumePoint_boundary_w (h : V.WF) (hd : NetOk d V.pts) (hdu : V.du + 1 ≤ V.su) (hdv : V.dv + 1 ≤ V.sv)
    (hUw : KnotsOk V.dw V.kw V.sw) (hcw : ClampedOk V.dw V.kw V.sw) (e : Bool) (u v : K) (j : ℕ) :
    ∃ S, (extractSurfacesUV V)[if e then V.sw - 1 else 0]? = some S ∧
      (volumePoint V.du V.dv V.dw V.ku V.kv V.kw V.su V.sv V.sw V.pts u v (if e then V.kw V.sw else V.kw V.dw)).getD j 0
        = (surfacePoint S.du S.dv S.ku S.kv S.su S.sv S.pts u v).getD j 0 := by
  have hi : (if e then V.sw - 1 else 0) < V.sw := by have := hUw.pn; split <;> omega
  have hsu : 0 < V.su := by omega
  refine ⟨_, by rw [extractSurfacesUV_eq V hsu, List.getElem?_map, List.getElem?_range hi]; rfl, ?_⟩
  rw [volumePoint_extractUV V d h hd hdu hdv hUw.pn, extractSurfacesUV_eq V hsu, List.map_map]
  have hP : NetOk d ((List.range V.sw).map
      ((fun S : Srf (List K) (ℕ → K) => surfacePoint S.du S.dv S.ku S.kv S.su S.sv S.pts u v) ∘ fun w =>
        ({ du := V.du, dv := V.dv, ku := V.ku, kv := V.kv, su := V.su, sv := V.sv,
           pts := tab2 V.su V.sv fun a b => V.pts.getD (b + V.sv * (a + V.su * w)) default } : Srf (List K) (ℕ → K)))) := by
    intro pt hpt
    simp only [List.mem_map, List.mem_range, Function.comp_def] at hpt
    obtain ⟨i, hi, rfl⟩ := hpt
    exact surfacePoint_length V.du V.dv V.ku V.kv V.su V.sv _ u v d hdu hdv (length_tab2 _ _ _)
      (tab2_netOk d _ _ _ (fun a b ha hb => vol_pt_length V d h hd a b i ha hb hi))
  rw [curvePoint_at_end V.dw V.kw _ V.sw d j (by simp) hUw hcw hP e, ptsGet_map_range _ _ _ hi]
  rfl

/-- **boundary iso-surfaces `v = v_min` / `v = v_max`** of a volume clamped in `v`: the first / last surface
    of the `'uw'` family at `(u, w)` -/
theorem volumePoint_boundary_v (h : V.WF) (hd : NetOk d V.pts) (hdu : V.du + 1 ≤ V.su) (hdw : V.dw + 1 ≤ V.sw)
    (hUv : KnotsOk V.dv V.kv V.sv) (hcv : ClampedOk V.dv V.kv V.sv) (e : Bool) (u w : K) (j : ℕ) :
    ∃ S, (extractSurfacesUW V)[if e then V.sv - 1 else 0]? = some S ∧
      (volumePoint V.du V.dv V.dw V.ku V.kv V.kw V.su V.sv V.sw V.pts u (if e then V.kv V.sv else V.kv V.dv) w).getD j 0
        = (surfacePoint S.du S.dv S.ku S.kv S.su S.sv S.pts u w).getD j 0 := by
  have hi : (if e then V.sv - 1 else 0) < V.sv := by have := hUv.pn; split <;> omega
  have hsu : 0 < V.su := by omega
  refine ⟨_, by rw [extractSurfacesUW_eq V hsu, List.getElem?_map, List.getElem?_range hi]; rfl, ?_⟩
  rw [volumePoint_extractUW V d h hd hdu hUv.pn hdw, extractSurfacesUW_eq V hsu, List.map_map]
  have hP : NetOk d ((List.range V.sv).map
      ((fun S : Srf (List K) (ℕ → K) => surfacePoint S.du S.dv S.ku S.kv S.su S.sv S.pts u w) ∘ fun v =>
        ({ du := V.du, dv := V.dw, ku := V.ku, kv := V.kw, su := V.su, sv := V.sw,
           pts := tab2 V.su V.sw fun a c => V.pts.getD (v + V.sv * (a + V.su * c)) default } : Srf (List K) (ℕ → K)))) := by
    intro pt hpt
    simp only [List.mem_map, List.mem_range, Function.comp_def] at hpt
    obtain ⟨i, hi, rfl⟩ := hpt
    exact surfacePoint_length V.du V.dw V.ku V.kw V.su V.sw _ u w d hdu hdw (length_tab2 _ _ _)
      (tab2_netOk d _ _ _ (fun a c ha hc => vol_pt_length V d h hd a i c ha hi hc))
  rw [curvePoint_at_end V.dv V.kv _ V.sv d j (by simp) hUv hcv hP e, ptsGet_map_range _ _ _ hi]
  rfl

/-- **boundary iso-surfaces `u = u_min` / `u = u_max`** of a volume clamped in `u`: the first / last surface
    of the `'vw'` family at `(v, w)` -/
theorem volumePoint_boundary_u (h : V.WF) (hd : NetOk d V.pts) (hdv : V.dv + 1 ≤ V.sv) (hdw : V.dw + 1 ≤ V.sw)
    (hUu : KnotsOk V.du V.ku V.su) (hcu : ClampedOk V.du V.ku V.su) (e : Bool) (v w : K) (j : ℕ) :
    ∃ S, (extractSurfacesVW V)[if e then V.su - 1 else 0]? = some S ∧
      (volumePoint V.du V.dv V.dw V.ku V.kv V.kw V.su V.sv V.sw V.pts (if e then V.ku V.su else V.ku V.du) v w).getD j 0
        = (surfacePoint S.du S.dv S.ku S.kv S.su S.sv S.pts v w).getD j 0 := by
  have hi : (if e then V.su - 1 else 0) < V.su := by have := hUu.pn; split <;> omega
  have hsv : 0 < V.sv := by omega
  refine ⟨_, by rw [extractSurfacesVW_eq V hsv, List.getElem?_map, List.getElem?_range hi]; rfl, ?_⟩
  rw [volumePoint_extractVW V d h hd hUu.pn hdv hdw, extractSurfacesVW_eq V hsv, List.map_map]
  have hP : NetOk d ((List.range V.su).map
      ((fun S : Srf (List K) (ℕ → K) => surfacePoint S.du S.dv S.ku S.kv S.su S.sv S.pts v w) ∘ fun u =>
        ({ du := V.dv, dv := V.dw, ku := V.kv, kv := V.kw, su := V.sv, sv := V.sw,
           pts := tab2 V.sv V.sw fun b c => V.pts.getD (b + V.sv * (u + V.su * c)) default } : Srf (List K) (ℕ → K)))) := by
    intro pt hpt
    simp only [List.mem_map, List.mem_range, Function.comp_def] at hpt
    obtain ⟨i, hi, rfl⟩ := hpt
    exact surfacePoint_length V.dv V.dw V.kv V.kw V.sv V.sw _ v w d hdv hdw (length_tab2 _ _ _)
      (tab2_netOk d _ _ _ (fun b c hb hc => vol_pt_length V d h hd i b c hi hb hc))
  rw [curvePoint_at_end V.du V.ku _ V.su d j (by simp) hUu hcu hP e, ptsGet_map_range _ _ _ hi]
  rfl

end volume

/-! ### sweeps: the two opposite boundary sections, as evaluated shapes -/

/-- **swept surface** (repaired `sweep_vector` on a curve; `kvGen` = the knot function of
    `knotvector.generate(1, 2)`, clamped): `S(u_min, v) = C(v)` and `S(u_max, v) = C'(v)` for the translate
    `C'` of the input curve, every `v`, every coordinate -/
theorem sweepCurve_boundary (tr : List K → List K) (kvGen : ℕ → K) (C : Crv (List K) (ℕ → K)) (d : ℕ)
    (hn : 2 ≤ C.pts.length) (hdeg : C.deg + 1 ≤ C.pts.length) (hd : NetOk d C.pts) (htr : ∀ p ∈ C.pts, (tr p).length = d)
    (hk : KnotsOk 1 kvGen 2) (hc : ClampedOk 1 kvGen 2) (v : K) (j : ℕ) :
    ∃ S, sweepCurve tr kvGen C = some S ∧
      (surfacePoint S.du S.dv S.ku S.kv S.su S.sv S.pts (kvGen 1) v).getD j 0 = (curvePoint C.deg C.kv C.pts v).getD j 0 ∧
      (surfacePoint S.du S.dv S.ku S.kv S.su S.sv S.pts (kvGen 2) v).getD j 0
        = (curvePoint C.deg C.kv (C.pts.map tr) v).getD j 0 := by
  refine ⟨_, sweepCurve_eq tr kvGen C, ?_⟩
  set S : Srf (List K) (ℕ → K) :=
    { du := 1, dv := C.deg, ku := kvGen, kv := C.kv, su := 2, sv := C.pts.length, pts := C.pts ++ C.pts.map tr } with hS
  have hWF : S.WF := ⟨by simp [hS]; omega, le_refl _, hn⟩
  have hN : NetOk d S.pts := by
    intro pt hpt
    simp only [hS, List.mem_append, List.mem_map] at hpt
    rcases hpt with hpt | ⟨q, hq, rfl⟩
    · exact hd pt hpt
    · exact htr q hq
  have hsec : extractCurvesV S = [C, { C with pts := C.pts.map tr }] := extractCurvesV_sweep tr kvGen C
  constructor
  · obtain ⟨C0, h0, e0⟩ := surfacePoint_boundary_u S d hWF hN hk hc hdeg false v j
    simp only [Bool.false_eq_true, if_false] at h0 e0
    rw [hsec] at h0
    simp only [List.getElem?_cons_zero, Option.some.injEq] at h0
    subst h0
    exact e0
  · obtain ⟨C1, h1, e1⟩ := surfacePoint_boundary_u S d hWF hN hk hc hdeg true v j
    simp only [if_true] at h1 e1
    rw [hsec] at h1
    have : (2 : ℕ) - 1 = 1 := rfl
    simp only [hS, this, List.getElem?_cons_succ, List.getElem?_cons_zero, Option.some.injEq] at h1
    subst h1
    exact e1

/-- **swept volume** (`sweep_vector` on a surface): `V(u, v, w_min) = S(u, v)` and `V(u, v, w_max) = S'(u, v)`
    for the translate `S'` of the input surface, every `(u, v)`, every coordinate -/
theorem sweepSurface_boundary (tr : List K → List K) (kvGen : ℕ → K) (S : Srf (List K) (ℕ → K)) (d : ℕ)
    (h : S.WF) (hdu : S.du + 1 ≤ S.su) (hdv : S.dv + 1 ≤ S.sv) (hd : NetOk d S.pts)
    (htr : ∀ p ∈ S.pts, (tr p).length = d) (hk : KnotsOk 1 kvGen 2) (hc : ClampedOk 1 kvGen 2) (u v : K) (j : ℕ) :
    ∃ V, sweepSurface tr kvGen S = some V ∧
      (volumePoint V.du V.dv V.dw V.ku V.kv V.kw V.su V.sv V.sw V.pts u v (kvGen 1)).getD j 0
        = (surfacePoint S.du S.dv S.ku S.kv S.su S.sv S.pts u v).getD j 0 ∧
      (volumePoint V.du V.dv V.dw V.ku V.kv V.kw V.su V.sv V.sw V.pts u v (kvGen 2)).getD j 0
        = (surfacePoint S.du S.dv S.ku S.kv S.su S.sv (S.pts.map tr) u v).getD j 0 := by
  refine ⟨_, sweepSurface_eq tr kvGen S, ?_⟩
  set V : Vol (List K) (ℕ → K) :=
    { du := S.du, dv := S.dv, dw := 1, ku := S.ku, kv := S.kv, kw := kvGen, su := S.su, sv := S.sv, sw := 2,
      pts := S.pts ++ S.pts.map tr } with hV
  have hWF : V.WF := ⟨by simp [hV, h.1]; ring, h.2.1, h.2.2, le_refl _⟩
  have hN : NetOk d V.pts := by
    intro pt hpt
    simp only [hV, List.mem_append, List.mem_map] at hpt
    rcases hpt with hpt | ⟨q, hq, rfl⟩
    · exact hd pt hpt
    · exact htr q hq
  have hsec : extractSurfacesUV V = [S, { S with pts := S.pts.map tr }] := extractSurfacesUV_sweep tr kvGen S h
  constructor
  · obtain ⟨S0, h0, e0⟩ := volumePoint_boundary_w V d hWF hN hdu hdv hk hc false u v j
    simp only [Bool.false_eq_true, if_false] at h0 e0
    rw [hsec] at h0
    simp only [List.getElem?_cons_zero, Option.some.injEq] at h0
    subst h0
    exact e0
  · obtain ⟨S1, h1, e1⟩ := volumePoint_boundary_w V d hWF hN hdu hdv hk hc true u v j
    simp only [if_true] at h1 e1
    rw [hsec] at h1
    have : (2 : ℕ) - 1 = 1 := rfl
    simp only [hV, this, List.getElem?_cons_succ, List.getElem?_cons_zero, Option.some.injEq] at h1
    subst h1
    exact e1

end Geomdl
