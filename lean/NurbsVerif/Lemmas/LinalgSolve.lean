import NurbsVerif.Model.Linalg
import NurbsVerif.Lemmas.LU
import Mathlib.Algebra.BigOperators.Intervals
import Mathlib.Algebra.BigOperators.Ring.Finset
import Mathlib.Algebra.Field.Basic
import Mathlib.Tactic.Ring
import Mathlib.Tactic.FieldSimp
import Mathlib.Data.List.GetD

/-! Substitutions solve triangular systems; `lu_solve` returns a solution whenever it returns. -/
namespace Lin
open Finset
variable {K : Type} [Field K] [DecidableEq K]

theorem ent_tab (r c : ℕ) (f : ℕ → ℕ → K) (i j : ℕ) (hi : i < r) (hj : j < c) :
    ent (tabulate r c f) i j = f i j := by
  unfold ent tabulate
  simp [List.getD_eq_getElem?_getD, hi, hj]

/-! ### forward substitution -/

theorem fwdSub_spec (L : ℕ → ℕ → K) (b : ℕ → K) : ∀ (m : ℕ) (y : List K), fwdSub L b m = some y →
    y.length = m ∧ (∀ i, i < m → L i i ≠ 0) ∧
    ∀ i, i < m → ∑ j ∈ range i, L i j * y.getD j 0 + L i i * y.getD i 0 = b i := by
  intro m
  induction m with
  | zero =>
    intro y h
    simp only [fwdSub, Option.some.injEq] at h
    subst h
    simp
  | succ m ih =>
    intro y h
    simp only [fwdSub] at h
    cases hy : fwdSub L b m with
    | none => simp [hy] at h
    | some y' =>
      rw [hy] at h
      by_cases hz : L m m = 0
      · simp [hz] at h
      · simp only [hz, if_false, Option.some.injEq] at h
        obtain ⟨hl, hd, he⟩ := ih y' hy
        subst h
        refine ⟨by simp [hl], ?_, ?_⟩
        · intro i hi
          rcases Nat.lt_succ_iff_lt_or_eq.mp hi with h1 | h1
          · exact hd i h1
          · subst h1; exact hz
        · intro i hi
          rcases Nat.lt_succ_iff_lt_or_eq.mp hi with h1 | h1
          · have e1 : ∀ j, j < m → (y' ++ [(b m - sumTo m (fun j => L m j * y'.getD j 0)) / L m m]).getD j 0
                = y'.getD j 0 := fun j hj => List.getD_append _ _ _ _ (by omega)
            rw [e1 i h1]
            rw [← he i h1]
            congr 1
            apply sum_congr rfl
            intro j hj
            rw [e1 j (by have := mem_range.mp hj; omega)]
          · subst h1
            have e1 : ∀ j, j < i → (y' ++ [(b i - sumTo i (fun j => L i j * y'.getD j 0)) / L i i]).getD j 0
                = y'.getD j 0 := fun j hj => List.getD_append _ _ _ _ (by omega)
            have e2 : (y' ++ [(b i - sumTo i (fun j => L i j * y'.getD j 0)) / L i i]).getD i 0
                = (b i - sumTo i (fun j => L i j * y'.getD j 0)) / L i i := by
              rw [List.getD_append_right _ _ _ _ (by omega)]
              simp [hl]
            rw [e2, sumTo_eq]
            have : ∑ j ∈ range i, L i j * (y' ++ [(b i - ∑ j ∈ range i, L i j * y'.getD j 0) / L i i]).getD j 0
                = ∑ j ∈ range i, L i j * y'.getD j 0 := by
              apply sum_congr rfl
              intro j hj
              have := e1 j (mem_range.mp hj)
              rw [sumTo_eq] at this
              rw [this]
            rw [this]
            field_simp
            ring

/-! ### backward substitution -/

theorem bwdSubFrom_spec (U : ℕ → ℕ → K) (y : ℕ → K) : ∀ (m i : ℕ) (x : List K),
    bwdSubFrom U y i m = some x →
    x.length = m ∧ ∀ t, t < m → U (i + t) (i + t) ≠ 0 ∧
      ∑ s ∈ range (m - t), U (i + t) (i + t + s) * x.getD (t + s) 0 = y (i + t) := by
  intro m
  induction m with
  | zero =>
    intro i x h
    simp only [bwdSubFrom, Option.some.injEq] at h
    subst h
    simp
  | succ m ih =>
    intro i x h
    simp only [bwdSubFrom] at h
    cases hx : bwdSubFrom U y (i + 1) m with
    | none => simp [hx] at h
    | some xt =>
      rw [hx] at h
      by_cases hz : U i i = 0
      · simp [hz] at h
      · simp only [hz, if_false, Option.some.injEq] at h
        obtain ⟨hl, he⟩ := ih (i + 1) xt hx
        subst h
        refine ⟨by simp [hl], ?_⟩
        intro t ht
        rcases t with _ | t
        · refine ⟨by simpa using hz, ?_⟩
          simp only [Nat.add_zero, Nat.sub_zero, Nat.zero_add]
          rw [sumTo_eq, sum_range_succ' (fun s => U i (i + s) * _) m, sum_range_succ' _ m]
          simp only [List.getD_cons_succ, List.getD_cons_zero, Nat.add_zero, mul_zero, add_zero]
          field_simp
          ring
        · have ht' : t < m := by omega
          obtain ⟨h1, h2⟩ := he t ht'
          have e0 : i + (t + 1) = i + 1 + t := by omega
          refine ⟨by rw [e0]; exact h1, ?_⟩
          rw [e0, ← h2]
          have : m + 1 - (t + 1) = m - t := by omega
          rw [this]
          apply sum_congr rfl
          intro s hs
          have e2 : t + 1 + s = (t + s) + 1 := by omega
          rw [e2, List.getD_cons_succ]

/-- `backward_substitution` solves the upper triangular part: for every row `t`,
    `∑_{j ≥ t} U t j * x j = y t`, and it returns only if the diagonal has no zero. -/
theorem bwdSub_spec (U : ℕ → ℕ → K) (y : ℕ → K) (q : ℕ) (x : List K) (h : bwdSub U y q = some x) :
    x.length = q ∧ ∀ t, t < q → U t t ≠ 0 ∧ ∑ j ∈ Ico t q, U t j * x.getD j 0 = y t := by
  obtain ⟨hl, he⟩ := bwdSubFrom_spec U y q 0 x h
  refine ⟨hl, fun t ht => ?_⟩
  obtain ⟨h1, h2⟩ := he t ht
  simp only [Nat.zero_add] at h1 h2
  refine ⟨h1, ?_⟩
  rw [sum_Ico_eq_sum_range]
  exact h2

/-! ### `lu_solve` -/

theorem doolittle_L_upper_zero (A : ℕ → ℕ → K) (n i j : ℕ) (hi : i < n) (hj : j < n) (h : i < j) :
    (doolittle A n).L i j = 0 := by
  have := (lu_rec A n j i hj hi).2
  rw [this, if_pos h]

theorem doolittle_U_lower_zero (A : ℕ → ℕ → K) (n i j : ℕ) (hi : i < n) (hj : j < n) (h : j < i) :
    (doolittle A n).U i j = 0 := by
  have := (lu_rec A n i j hi hj).1
  rw [this, if_pos h]

theorem doolittle_L_diag (A : ℕ → ℕ → K) (n i : ℕ) (hi : i < n) : (doolittle A n).L i i = 1 := by
  have := (lu_rec A n i i hi hi).2
  rw [this]
  simp

/-- one column: if forward and backward substitution with the Doolittle factors return `x`, then
    all pivots are non-zero and `A·x = b`. -/
theorem solveColumn_correct (A : ℕ → ℕ → K) (n : ℕ) (bt : ℕ → K) (x : List K)
    (h : solveColumn (doolittle A n) bt n = some x) :
    x.length = n ∧ (∀ j, j < n → (doolittle A n).U j j ≠ 0) ∧
    ∀ i, i < n → ∑ j ∈ range n, A i j * x.getD j 0 = bt i := by
  unfold solveColumn at h
  cases hy : fwdSub (doolittle A n).L bt n with
  | none => simp [hy] at h
  | some y =>
    rw [hy] at h
    simp only at h
    obtain ⟨hyl, _, hye⟩ := fwdSub_spec _ _ n y hy
    obtain ⟨hxl, hxe⟩ := bwdSub_spec _ _ n x h
    have hpiv : ∀ j, j < n → (doolittle A n).U j j ≠ 0 := fun j hj => (hxe j hj).1
    refine ⟨hxl, hpiv, fun i hi => ?_⟩
    -- L·y = b with the full sum
    have hLy : ∑ t ∈ range n, (doolittle A n).L i t * y.getD t 0 = bt i := by
      rw [sum_cut n i hi _ (fun j h1 h2 => by rw [doolittle_L_upper_zero A n i j hi h2 h1, zero_mul])]
      rw [sum_range_succ]
      exact hye i hi
    -- U·x = y with the full sum
    have hUx : ∀ t, t < n → ∑ j ∈ range n, (doolittle A n).U t j * x.getD j 0 = y.getD t 0 := by
      intro t ht
      rw [range_eq_Ico, ← sum_Ico_consecutive _ (Nat.zero_le t) (le_of_lt ht)]
      rw [(hxe t ht).2]
      have : ∑ j ∈ Ico 0 t, (doolittle A n).U t j * x.getD j 0 = 0 := by
        apply sum_eq_zero
        intro j hj
        have hj' := (mem_Ico.mp hj).2
        rw [doolittle_U_lower_zero A n t j ht (by omega) hj', zero_mul]
      rw [this, zero_add]
    calc ∑ j ∈ range n, A i j * x.getD j 0
        = ∑ j ∈ range n, (∑ t ∈ range n, (doolittle A n).L i t * (doolittle A n).U t j) * x.getD j 0 := by
          apply sum_congr rfl
          intro j hj
          rw [doolittle_LU A n hpiv i j hi (mem_range.mp hj)]
      _ = ∑ t ∈ range n, (doolittle A n).L i t * ∑ j ∈ range n, (doolittle A n).U t j * x.getD j 0 := by
          simp only [sum_mul, mul_sum]
          rw [sum_comm]
          apply sum_congr rfl
          intro t _
          apply sum_congr rfl
          intro j _
          ring
      _ = ∑ t ∈ range n, (doolittle A n).L i t * y.getD t 0 := by
          apply sum_congr rfl
          intro t ht
          rw [hUx t (mem_range.mp ht)]
      _ = bt i := hLy

theorem allSome_eq_some {α : Type} : ∀ (l : List (Option α)) (r : List α), allSome l = some r → l = r.map some
  | [], r, h => by simp only [allSome, Option.some.injEq] at h; subst h; rfl
  | none :: l, r, h => by simp [allSome] at h
  | some a :: l, r, h => by
    simp only [allSome] at h
    cases hr : allSome l with
    | none => simp [hr] at h
    | some r' =>
      rw [hr] at h
      simp only [Option.some.injEq] at h
      subst h
      simp [allSome_eq_some l r' hr]

/-- **`lu_solve` is correct whenever it returns** (any size `n`, any number of right-hand sides):
    the result has `n` rows, every Doolittle pivot is non-zero, and `A·x = b` column by column. -/
theorem luSolve_correct (A b x : List (List K)) (hb : b.length = A.length) (h : luSolve A b = some x) :
    x.length = A.length ∧
    (0 < (b.headD []).length → ∀ j, j < A.length → (doolittle (ent A) A.length).U j j ≠ 0) ∧
    ∀ i, i < A.length → ∀ c, c < (b.headD []).length →
      ∑ j ∈ range A.length, ent A i j * ent x j c = ent b i c := by
  unfold luSolve solveColumns at h
  rw [hb] at h
  dsimp only at h
  cases hc : allSome ((List.range (b.headD []).length).map
      (fun i => solveColumn (doolittle (ent A) A.length) (fun k => ent b k i) A.length)) with
  | none => rw [hc] at h; cases h
  | some cols =>
    rw [hc] at h
    simp only [Option.some.injEq] at h
    have hmap := allSome_eq_some _ _ hc
    have hlen : cols.length = (b.headD []).length := by
      have := congrArg List.length hmap
      simpa using this.symm
    have hcol : ∀ c, c < (b.headD []).length →
        solveColumn (doolittle (ent A) A.length) (fun k => ent b k c) A.length = some (cols.getD c []) := by
      intro c hc'
      have := congrArg (fun l => l[c]?) hmap
      simp only [List.getElem?_map, List.getElem?_range hc', Option.map_some] at this
      rw [List.getD_eq_getElem?_getD]
      cases hcc : cols[c]? with
      | none => rw [hcc] at this; simp at this
      | some v => rw [hcc] at this; simpa using this
    subst h
    refine ⟨by simp [tabulate], ?_, ?_⟩
    · intro hd j hj
      exact (solveColumn_correct _ _ _ _ (hcol 0 hd)).2.1 j hj
    · intro i hi c hc'
      obtain ⟨_, _, he⟩ := solveColumn_correct _ _ _ _ (hcol c hc')
      rw [← he i hi]
      apply sum_congr rfl
      intro j hj
      rw [ent_tab _ _ _ _ _ (mem_range.mp hj) hc']
      rfl

/-! ### `lu_solve` returns a result when no pivot vanishes -/

theorem fwdSub_isSome (L : ℕ → ℕ → K) (b : ℕ → K) : ∀ m, (∀ i, i < m → L i i ≠ 0) → ∃ y, fwdSub L b m = some y := by
  intro m
  induction m with
  | zero => intro _; exact ⟨[], rfl⟩
  | succ m ih =>
    intro h
    obtain ⟨y, hy⟩ := ih (fun i hi => h i (by omega))
    simp only [fwdSub, hy, h m (by omega), if_false]
    exact ⟨_, rfl⟩

theorem bwdSubFrom_isSome (U : ℕ → ℕ → K) (y : ℕ → K) : ∀ m i, (∀ t, t < m → U (i + t) (i + t) ≠ 0) →
    ∃ x, bwdSubFrom U y i m = some x := by
  intro m
  induction m with
  | zero => intro i _; exact ⟨[], rfl⟩
  | succ m ih =>
    intro i h
    obtain ⟨x, hx⟩ := ih (i + 1) (fun t ht => by
      have := h (t + 1) (by omega)
      have e : i + (t + 1) = i + 1 + t := by omega
      rwa [e] at this)
    have h0 : U i i ≠ 0 := by simpa using h 0 (by omega)
    simp only [bwdSubFrom, hx, h0, if_false]
    exact ⟨_, rfl⟩

theorem allSome_map_isSome {α β : Type} (f : α → Option β) : ∀ l : List α, (∀ a ∈ l, ∃ r, f a = some r) →
    ∃ rs, allSome (l.map f) = some rs
  | [], _ => ⟨[], rfl⟩
  | a :: l, h => by
    obtain ⟨r, hr⟩ := h a (by simp)
    obtain ⟨rs, hrs⟩ := allSome_map_isSome f l (fun a' ha' => h a' (by simp [ha']))
    exact ⟨r :: rs, by simp [allSome, hr, hrs]⟩

/-- `lu_solve` returns a result (no `ZeroDivisionError`) when no Doolittle pivot vanishes. -/
theorem luSolve_isSome (A b : List (List K)) (hb : b.length = A.length)
    (hpiv : ∀ j, j < A.length → (doolittle (ent A) A.length).U j j ≠ 0) : ∃ x, luSolve A b = some x := by
  unfold luSolve solveColumns
  rw [hb]
  dsimp only
  have hcol : ∀ c ∈ List.range (b.headD []).length,
      ∃ r, solveColumn (doolittle (ent A) A.length) (fun k => ent b k c) A.length = some r := by
    intro c _
    unfold solveColumn
    obtain ⟨y, hy⟩ := fwdSub_isSome (doolittle (ent A) A.length).L (fun k => ent b k c) A.length
      (fun i hi => by rw [doolittle_L_diag _ _ _ hi]; exact one_ne_zero)
    rw [hy]
    exact bwdSubFrom_isSome _ _ A.length 0 (fun t ht => by simpa using hpiv t ht)
  obtain ⟨cols, hc⟩ := allSome_map_isSome _ _ hcol
  rw [hc]
  exact ⟨_, rfl⟩

end Lin
