import NurbsVerif.Model.Length
import NurbsVerif.Lemmas.EvalSpec
import Mathlib.Algebra.Order.BigOperators.Group.Finset
import Mathlib.Algebra.Order.Ring.Abs
import Mathlib.Tactic.Linarith

/-!
  C18, length bounds, part 1: the polyline length of `operations.length_curve` with the norm
  ABSTRACTED.

  * `IsSeminorm d N`: `N : List K → K` is non-negative, sub-additive and positively homogeneous on
    coordinate lists of length `d` (vector operations `vadd`, `vsmul` of the evaluation model).  The
    Euclidean norm `√(Σ xᵢ²)` over `ℝ` – what `linalg.point_distance` computes in floating point – is
    an instance (`euclid_isSeminorm`, Lemmas/LengthEuclid.lean); no square root is taken in `K`.  `l1norm` (sum of absolute values)
    is an instance over every ordered field (`l1norm_isSeminorm`), used for the concrete examples.
  * `polylineLength` as a sum over consecutive pairs, recursively and as a `Finset` sum.
  * `polyline_ge_chord`: a polyline is at least as long as the chord from its first to its last point.
  * `polyline_sublist_le`: the polyline through a subsequence of the vertices (in order) is not
    longer than the polyline through all of them.
-/
namespace Geomdl
open Finset
variable {K : Type} [Field K] [LinearOrder K] [IsStrictOrderedRing K]

/-- `N` is a seminorm on coordinate lists of length `d` (only POSITIVE homogeneity is required, so
    asymmetric gauges are allowed as well).  Instances: the Euclidean norm over `ℝ`
    (`euclid_isSeminorm`, Lemmas/LengthEuclid.lean), `l1norm` (`l1norm_isSeminorm` below). -/
structure IsSeminorm (d : ℕ) (N : List K → K) : Prop where
  nonneg : ∀ v, v.length = d → 0 ≤ N v
  add_le : ∀ a b, a.length = d → b.length = d → N (vadd a b) ≤ N a + N b
  smul : ∀ (c : K) v, 0 ≤ c → v.length = d → N (vsmul c v) = c * N v

/-- the distance of two points measured by `N`: `N (b - a)` (`linalg.point_distance` is
    `vector_magnitude (vector_generate a b)`, the vector from `a` to `b`) -/
def distN (N : List K → K) (a b : List K) : K := N (vsub b a)

/-! ### vectors as coordinate lists -/

theorem vsub_getD (a b : List K) (j : ℕ) (h : a.length = b.length) :
    (vsub a b).getD j 0 = a.getD j 0 - b.getD j 0 := by
  unfold vsub
  simp only [List.getD_eq_getElem?_getD, List.getElem?_zipWith]
  by_cases hj : j < a.length
  · have hy : j < b.length := by omega
    simp [List.getElem?_eq_getElem hj, List.getElem?_eq_getElem hy]
  · have hy : ¬ j < b.length := by omega
    simp [List.getElem?_eq_none (not_lt.mp hj), List.getElem?_eq_none (not_lt.mp hy)]

theorem vsub_length (a b : List K) : (vsub a b).length = min a.length b.length := by simp [vsub]

theorem vec_ext_getD {a b : List K} (h : a.length = b.length)
    (hj : ∀ j, j < a.length → a.getD j 0 = b.getD j 0) : a = b := by
  apply List.ext_getElem h
  intro i h1 h2
  have := hj i h1
  simpa [List.getD_eq_getElem?_getD, List.getElem?_eq_getElem h1, List.getElem?_eq_getElem h2] using this

theorem vsub_self_eq (a : List K) : vsub a a = vsmul 0 a := by
  simp [vsub, vsmul, List.zipWith_self]

/-- `c - a = (b - a) + (c - b)` -/
theorem vsub_split (d : ℕ) (a b c : List K) (ha : a.length = d) (hb : b.length = d) (hc : c.length = d) :
    vsub c a = vadd (vsub b a) (vsub c b) := by
  apply vec_ext_getD
  · simp [vsub_length, vadd_length, ha, hb, hc]
  · intro j _
    rw [vadd_getD _ _ _ (by simp [vsub_length, ha, hb, hc]), vsub_getD _ _ _ (by omega),
      vsub_getD _ _ _ (by omega), vsub_getD _ _ _ (by omega)]
    ring

section
variable {d : ℕ} {N : List K → K}

theorem IsSeminorm.vsub_self (hN : IsSeminorm d N) (a : List K) (ha : a.length = d) : N (vsub a a) = 0 := by
  rw [vsub_self_eq, hN.smul 0 a (le_refl _) ha, zero_mul]

theorem distN_nonneg (hN : IsSeminorm d N) (a b : List K) (ha : a.length = d) (hb : b.length = d) :
    0 ≤ distN N a b := hN.nonneg _ (by simp [vsub_length, ha, hb])

theorem distN_self (hN : IsSeminorm d N) (a : List K) (ha : a.length = d) : distN N a a = 0 :=
  hN.vsub_self a ha

theorem distN_triangle (hN : IsSeminorm d N) (a b c : List K) (ha : a.length = d) (hb : b.length = d)
    (hc : c.length = d) : distN N a c ≤ distN N a b + distN N b c := by
  unfold distN
  rw [vsub_split d a b c ha hb hc]
  exact hN.add_le _ _ (by simp [vsub_length, ha, hb]) (by simp [vsub_length, hb, hc])

end

/-! ### the fold of `length_curve` as a sum -/

theorem foldl_add_range (f : ℕ → K) (n : ℕ) :
    (List.range n).foldl (fun acc i => acc + f i) 0 = ∑ i ∈ range n, f i := by
  induction n with
  | zero => simp
  | succ n ih => rw [List.range_succ, List.foldl_append, ih, Finset.sum_range_succ]; simp

/-- the fold of `length_curve` is the sum of the distances of the consecutive pairs -/
theorem polylineLength_eq_sum (dist : List K → List K → K) (pts : List (List K)) :
    polylineLength dist pts = ∑ i ∈ range (pts.length - 1), dist (ptsGet pts i) (ptsGet pts (i + 1)) := by
  unfold polylineLength
  exact foldl_add_range _ _

theorem polylineLength_nil (dist : List K → List K → K) : polylineLength dist [] = 0 := by
  simp [polylineLength]

theorem polylineLength_single (dist : List K → List K → K) (a : List K) : polylineLength dist [a] = 0 := by
  simp [polylineLength]

theorem polylineLength_cons_cons (dist : List K → List K → K) (a b : List K) (l : List (List K)) :
    polylineLength dist (a :: b :: l) = dist a b + polylineLength dist (b :: l) := by
  rw [polylineLength_eq_sum, polylineLength_eq_sum]
  simp only [List.length_cons, Nat.add_sub_cancel]
  rw [Finset.sum_range_succ', add_comm]
  simp [ptsGet]

theorem NetOk.tail {d : ℕ} {a : List K} {l : List (List K)} (h : NetOk d (a :: l)) : NetOk d l :=
  fun pt hpt => h pt (List.mem_cons_of_mem _ hpt)

theorem NetOk.head {d : ℕ} {a : List K} {l : List (List K)} (h : NetOk d (a :: l)) : a.length = d :=
  h a (by simp)

section
variable {d : ℕ} {N : List K → K}

theorem polylineLength_nonneg (hN : IsSeminorm d N) : ∀ (pts : List (List K)), NetOk d pts →
    0 ≤ polylineLength (distN N) pts
  | [], _ => by rw [polylineLength_nil]
  | [a], _ => by rw [polylineLength_single]
  | a :: b :: l, h => by
    rw [polylineLength_cons_cons]
    have := polylineLength_nonneg hN (b :: l) h.tail
    have := distN_nonneg hN a b h.head h.tail.head
    linarith

/-! ### chord -/

theorem chord_le_aux (hN : IsSeminorm d N) : ∀ (l : List (List K)) (a : List K), NetOk d (a :: l) →
    distN N a (ptsGet (a :: l) l.length) ≤ polylineLength (distN N) (a :: l) := by
  intro l
  induction l with
  | nil =>
    intro a h
    rw [polylineLength_single]
    have : ptsGet [a] ([] : List (List K)).length = a := by simp [ptsGet]
    rw [this, distN_self hN a h.head]
  | cons b l ih =>
    intro a h
    rw [polylineLength_cons_cons]
    have e : ptsGet (a :: b :: l) (b :: l).length = ptsGet (b :: l) l.length := by simp [ptsGet]
    rw [e]
    have hlast : (ptsGet (b :: l) l.length).length = d := ptsGet_length h.tail _ (by simp)
    have := distN_triangle hN a b _ h.head h.tail.head hlast
    have := ih b h.tail
    linarith

/-- **A polyline is at least as long as its chord**: the distance from the first to the last point
    is at most the sum of the distances of consecutive points. -/
theorem polyline_ge_chord (hN : IsSeminorm d N) (pts : List (List K)) (hne : pts ≠ []) (hP : NetOk d pts) :
    N (vsub (ptsGet pts (pts.length - 1)) (ptsGet pts 0)) ≤ polylineLength (distN N) pts := by
  cases pts with
  | nil => exact absurd rfl hne
  | cons a l =>
    have := chord_le_aux hN l a hP
    simpa [distN, ptsGet] using this

/-! ### subsequences of the vertices -/

theorem polyline_insert_second (hN : IsSeminorm d N) (a b : List K) (l : List (List K)) (hP : NetOk d (a :: b :: l)) :
    polylineLength (distN N) (a :: l) ≤ polylineLength (distN N) (a :: b :: l) := by
  cases l with
  | nil =>
    rw [polylineLength_single, polylineLength_cons_cons, polylineLength_single]
    have := distN_nonneg hN a b hP.head hP.tail.head
    linarith
  | cons c l =>
    rw [polylineLength_cons_cons, polylineLength_cons_cons (distN N) a b, polylineLength_cons_cons (distN N) b c]
    have := distN_triangle hN a b c hP.head hP.tail.head hP.tail.tail.head
    linarith

theorem polyline_cons_ge (hN : IsSeminorm d N) (b : List K) (l : List (List K)) (hP : NetOk d (b :: l)) :
    polylineLength (distN N) l ≤ polylineLength (distN N) (b :: l) := by
  cases l with
  | nil => rw [polylineLength_single, polylineLength_nil]
  | cons c l =>
    rw [polylineLength_cons_cons]
    have := distN_nonneg hN b c hP.head hP.tail.head
    linarith

theorem polyline_sublist_aux (hN : IsSeminorm d N) {l₁ l₂ : List (List K)} (h : l₁.Sublist l₂) :
    NetOk d l₂ → ∀ a : List K, a.length = d →
      polylineLength (distN N) (a :: l₁) ≤ polylineLength (distN N) (a :: l₂) := by
  induction h with
  | slnil => intro _ a _; exact le_refl _
  | cons b _ ih =>
    intro hP a ha
    have h1 := ih hP.tail a ha
    have h2 := polyline_insert_second hN a b _ (by
      intro pt hpt
      rcases List.mem_cons.mp hpt with rfl | hpt
      · exact ha
      · exact hP pt hpt)
    linarith
  | cons_cons b _ ih =>
    intro hP a ha
    rw [polylineLength_cons_cons, polylineLength_cons_cons]
    have := ih hP.tail b hP.head
    linarith

/-- **A polyline through a subsequence of the vertices (in order) is not longer than the polyline
    through all vertices** (triangle inequality). -/
theorem polyline_sublist_le (hN : IsSeminorm d N) {l₁ l₂ : List (List K)} (h : l₁.Sublist l₂) (hP : NetOk d l₂) :
    polylineLength (distN N) l₁ ≤ polylineLength (distN N) l₂ := by
  induction h with
  | slnil => exact le_refl _
  | cons b _ ih =>
    have h1 := ih hP.tail
    have h2 := polyline_cons_ge hN b _ hP
    linarith
  | cons_cons b h' _ => exact polyline_sublist_aux hN h' hP.tail b hP.head

end

/-- the points of a list at strictly increasing indices form a sublist -/
theorem map_ptsGet_sublist : ∀ (L : List (List K)) (off : ℕ) (idxs : List ℕ), idxs.Pairwise (· < ·) →
    (∀ i ∈ idxs, off ≤ i ∧ i < off + L.length) → (idxs.map (fun i => ptsGet L (i - off))).Sublist L := by
  intro L
  induction L with
  | nil =>
    intro off idxs _ h
    cases idxs with
    | nil => exact List.Sublist.slnil
    | cons i is => have := h i (by simp); simp at this; omega
  | cons a L ih =>
    intro off idxs hpw h
    have shift : ∀ j, off < j → ptsGet (a :: L) (j - off) = ptsGet L (j - (off + 1)) := by
      intro j hj
      obtain ⟨t, rfl⟩ : ∃ t, j = off + 1 + t := ⟨j - (off + 1), by omega⟩
      rw [show off + 1 + t - off = t + 1 by omega, show off + 1 + t - (off + 1) = t by omega]
      simp [ptsGet]
    cases idxs with
    | nil => simp
    | cons i is =>
      obtain ⟨hlt, hpw'⟩ := List.pairwise_cons.mp hpw
      by_cases hi : i = off
      · subst hi
        have e : (i :: is).map (fun j => ptsGet (a :: L) (j - i))
            = a :: is.map (fun j => ptsGet L (j - (i + 1))) := by
          simp only [List.map_cons, Nat.sub_self]
          congr 1
          apply List.map_congr_left
          intro j hj
          exact shift j (hlt j hj)
        rw [e]
        apply List.Sublist.cons_cons
        apply ih (i + 1) is hpw'
        intro j hj
        have := h j (List.mem_cons_of_mem _ hj)
        have := hlt j hj
        simp only [List.length_cons] at *
        omega
      · have e : (i :: is).map (fun j => ptsGet (a :: L) (j - off))
            = (i :: is).map (fun j => ptsGet L (j - (off + 1))) := by
          apply List.map_congr_left
          intro j hj
          apply shift
          rcases List.mem_cons.mp hj with rfl | hj
          · have := h j (by simp); omega
          · have := hlt j hj; have := h i (by simp); omega
        rw [e]
        apply List.Sublist.cons
        apply ih (off + 1) (i :: is) hpw
        intro j hj
        have h1 := h j hj
        simp only [List.length_cons] at h1
        rcases List.mem_cons.mp hj with rfl | hj'
        · omega
        · have := hlt j hj'; have := h i (by simp); omega

/-! ### a concrete seminorm over every ordered field: the sum of the absolute values -/

/-- the `ℓ¹` norm of a coordinate list -/
def l1norm (v : List K) : K := (v.map (fun x => |x|)).sum

theorem l1norm_nil : l1norm ([] : List K) = 0 := by simp [l1norm]
theorem l1norm_cons (x : K) (v : List K) : l1norm (x :: v) = |x| + l1norm v := by simp [l1norm]

theorem l1norm_nonneg : ∀ v : List K, 0 ≤ l1norm v
  | [] => by rw [l1norm_nil]
  | x :: v => by rw [l1norm_cons]; have := l1norm_nonneg v; have := abs_nonneg x; linarith

theorem l1norm_add_le : ∀ a b : List K, l1norm (vadd a b) ≤ l1norm a + l1norm b
  | [], b => by simp only [vadd, List.zipWith_nil_left, l1norm_nil, zero_add]; exact l1norm_nonneg b
  | x :: a, [] => by simp only [vadd, List.zipWith_nil_right, l1norm_nil, add_zero]; exact l1norm_nonneg _
  | x :: a, y :: b => by
    have h := l1norm_add_le a b
    unfold vadd at h ⊢
    simp only [List.zipWith_cons_cons, l1norm_cons]
    have := abs_add_le x y
    linarith

theorem l1norm_smul (c : K) (hc : 0 ≤ c) : ∀ v : List K, l1norm (vsmul c v) = c * l1norm v
  | [] => by simp [vsmul, l1norm_nil]
  | x :: v => by
    have h := l1norm_smul c hc v
    unfold vsmul at h ⊢
    simp only [List.map_cons, l1norm_cons, h, abs_mul, abs_of_nonneg hc]
    ring

/-- the `ℓ¹` norm is a seminorm in every dimension, over every ordered field -/
theorem l1norm_isSeminorm (d : ℕ) : IsSeminorm d (l1norm : List K → K) where
  nonneg v _ := l1norm_nonneg v
  add_le a b _ _ := l1norm_add_le a b
  smul c v hc _ := l1norm_smul c hc v

end Geomdl
