import NurbsVerif.Lemmas.InsertAll
import NurbsVerif.Lemmas.KnotVec
import Mathlib.Data.List.Count
import Mathlib.Data.List.Perm.Basic

/-! Discharging the per-knot admissibility predicate `RefineOk` from counting: under tolerance
    separation the library's multiplicity is the exact number of occurrences, in a sorted knot vector
    the occurrences of a value are the block that ends at its span, and a fold of single insertions
    adds exactly the inserted values. -/
namespace Geomdl
open Blossom
variable {K : Type} [Field K] [LinearOrder K] [IsStrictOrderedRing K]

/-- tolerance separation: any two listed values are equal or further apart than `tol` -/
def SepBy (tol : K) (L : List K) : Prop := ∀ x ∈ L, ∀ y ∈ L, x = y ∨ tol < |x - y|

theorem SepBy.mono {tol : K} {L L' : List K} (h : SepBy tol L) (hsub : ∀ a ∈ L', a ∈ L) : SepBy tol L' :=
  fun x hx y hy => h x (hsub x hx) y (hsub y hy)

/-- under separation the multiplicity the library computes is the exact number of occurrences -/
theorem findMultiplicity_eq_count (tol : K) (h0 : 0 ≤ tol) (u : K) (U : List K)
    (hsep : ∀ y ∈ U, u = y ∨ tol < |u - y|) : findMultiplicity u U tol = U.count u := by
  unfold findMultiplicity
  rw [List.count_eq_length_filter]
  congr 1
  apply List.filter_congr
  intro y hy
  rw [absK_eq]
  rcases hsep y hy with h | h
  · subst h; simp [h0]
  · have hne : ¬ (y = u) := by
      intro e; subst e; simp at h; exact absurd h (not_lt.mpr h0)
    simp [hne, not_le.mpr h]

theorem fnOf_lt_length (U : List K) (i : ℕ) (hi : i < U.length) : fnOf U i = U[i] := by
  unfold fnOf
  rw [List.getD_eq_getElem?_getD, List.getElem?_eq_getElem hi]; rfl

theorem fnOf_mem (U : List K) (hne : U ≠ []) (i : ℕ) : fnOf U i ∈ U := by
  by_cases hi : i < U.length
  · rw [fnOf_lt_length U i hi]; exact List.getElem_mem hi
  · unfold fnOf
    rw [List.getD_eq_getElem?_getD, List.getElem?_eq_none (by omega)]
    simp only [Option.getD_none]
    rw [List.getLastD_eq_getLast?, List.getLast?_eq_some_getLast hne]
    exact List.getLast_mem hne

theorem mem_iff_fnOf (U : List K) (a : K) : a ∈ U ↔ ∃ i, i < U.length ∧ fnOf U i = a := by
  constructor
  · intro h
    obtain ⟨i, hi, e⟩ := List.mem_iff_getElem.mp h
    exact ⟨i, hi, by rw [fnOf_lt_length U i hi]; exact e⟩
  · rintro ⟨i, hi, e⟩
    rw [← e, fnOf_lt_length U i hi]; exact List.getElem_mem hi

theorem pairwise_of_mono (U : List K) (hm : Monotone (fnOf U)) : U.Pairwise (· ≤ ·) := by
  rw [List.pairwise_iff_getElem]
  intro i j hi hj hij
  rw [← fnOf_lt_length U i hi, ← fnOf_lt_length U j hj]
  exact hm (le_of_lt hij)

theorem fnOf_ge_length (U : List K) (hne : U ≠ []) (i : ℕ) (hi : U.length ≤ i) : fnOf U i = fnOf U (U.length - 1) := by
  have hpos : 0 < U.length := List.length_pos_iff.mpr hne
  rw [fnOf_lt_length U (U.length - 1) (by omega)]
  unfold fnOf
  rw [List.getD_eq_getElem?_getD, List.getElem?_eq_none (by omega)]
  simp only [Option.getD_none]
  rw [List.getLastD_eq_getLast?, List.getLast?_eq_some_getLast hne, List.getLast_eq_getElem]
  rfl

/-- decidable form of sortedness: a pairwise sorted list gives a monotone knot function -/
theorem mono_of_pairwise (U : List K) (h : U.Pairwise (· ≤ ·)) : Monotone (fnOf U) := by
  by_cases hne : U = []
  · subst hne; intro i j _; simp [fnOf]
  have hpos : 0 < U.length := List.length_pos_iff.mpr hne
  have key : ∀ i, fnOf U i = fnOf U (min i (U.length - 1)) := by
    intro i
    by_cases hi : i < U.length
    · rw [min_eq_left (by omega)]
    · rw [min_eq_right (by omega)]; exact fnOf_ge_length U hne i (by omega)
  intro i j hij
  rw [key i, key j]
  rcases Nat.lt_or_ge (min i (U.length - 1)) (min j (U.length - 1)) with hlt | hge
  · rw [fnOf_lt_length U _ (by omega), fnOf_lt_length U _ (by omega)]
    exact (List.pairwise_iff_getElem.mp h) _ _ (by omega) (by omega) hlt
  · have : min i (U.length - 1) = min j (U.length - 1) := by omega
    rw [this]

/-- decidable form of "clamped at the end": the entries from index `n` on are all equal -/
theorem clampedEnd_of_drop (U : List K) (n : ℕ) (hn : n < U.length) (h : ∀ a ∈ U.drop n, a = fnOf U n) :
    ∀ i, n ≤ i → fnOf U i = fnOf U n := by
  have hne : U ≠ [] := by intro e; rw [e] at hn; simp at hn
  have hin : ∀ i, n ≤ i → i < U.length → fnOf U i = fnOf U n := by
    intro i h1 h2
    apply h
    rw [fnOf_lt_length U i h2]
    have : U[i] = (U.drop n)[i - n]'(by rw [List.length_drop]; omega) := by
      rw [List.getElem_drop]; congr 1; omega
    rw [this]; exact List.getElem_mem _
  intro i hi
  by_cases h2 : i < U.length
  · exact hin i hi h2
  · rw [fnOf_ge_length U hne i (by omega)]
    exact hin _ (by omega) (by omega)

/-- in a sorted list whose entries are all `≤ x`, the copies of `x` are the last `count x` entries -/
theorem sorted_suffix_eq (x : K) : ∀ (L : List K), L.Pairwise (· ≤ ·) → (∀ a ∈ L, a ≤ x) →
    ∀ (i : ℕ) (hi : i < L.length), L.length - L.count x ≤ i → L[i] = x := by
  intro L
  induction L with
  | nil => intro _ _ i hi; simp at hi
  | cons a L ih =>
    intro hs hle i hi hc
    rw [List.pairwise_cons] at hs
    by_cases hax : a = x
    · -- everything equals x
      have hall : ∀ b ∈ a :: L, b = x := by
        intro b hb
        rcases List.mem_cons.mp hb with rfl | hb'
        · exact hax
        · exact le_antisymm (hle b hb) (by rw [← hax]; exact hs.1 b hb')
      exact hall _ (List.getElem_mem hi)
    · have hcnt : (a :: L).count x = L.count x := by
        rw [List.count_cons]; simp [hax]
      rw [hcnt] at hc
      have hcl : L.count x ≤ L.length := List.count_le_length
      cases i with
      | zero => simp only [List.length_cons] at hc; omega
      | succ i =>
        simp only [List.getElem_cons_succ]
        apply ih hs.2 (fun b hb => hle b (by simp [hb])) i (by simpa using hi)
        simp only [List.length_cons] at hc; omega

/-- in a sorted knot vector the `count x` copies of a value `x` are the entries that end at its span -/
theorem mult_block (V : List K) (hm : Monotone (fnOf V)) (x : K) (k : ℕ) (hk : k + 1 < V.length)
    (h1 : fnOf V k ≤ x) (h2 : x < fnOf V (k+1)) :
    ∀ i, k - V.count x < i → i ≤ k → fnOf V i = x := by
  intro i hi1 hi2
  have hsplit : V.count x = (V.take (k+1)).count x + (V.drop (k+1)).count x := by
    conv_lhs => rw [← List.take_append_drop (k+1) V]
    exact List.count_append
  have hdrop : (V.drop (k+1)).count x = 0 := by
    rw [List.count_eq_zero]
    intro hmem
    obtain ⟨j, hj, e⟩ := List.mem_iff_getElem.mp hmem
    rw [List.getElem_drop] at e
    rw [List.length_drop] at hj
    have : fnOf V (k+1) ≤ fnOf V (k + 1 + j) := hm (by omega)
    rw [fnOf_lt_length V (k+1+j) (by omega), e] at this
    exact absurd h2 (not_lt.mpr this)
  have hlen : (V.take (k+1)).length = k + 1 := by rw [List.length_take]; omega
  have hpw : (V.take (k+1)).Pairwise (· ≤ ·) := (pairwise_of_mono V hm).sublist (List.take_sublist _ _)
  have hle : ∀ a ∈ V.take (k+1), a ≤ x := by
    intro a ha
    obtain ⟨j, hj, e⟩ := List.mem_iff_getElem.mp ha
    rw [List.getElem_take] at e
    rw [hlen] at hj
    rw [← e, ← fnOf_lt_length V j (by omega)]
    exact le_trans (hm (by omega)) h1
  have := sorted_suffix_eq x (V.take (k+1)) hpw hle i (by rw [hlen]; omega) (by rw [hlen]; omega)
  rw [List.getElem_take] at this
  rw [fnOf_lt_length V i (by omega)]; exact this

theorem knotInsertionKv_perm (U : List K) (u : K) (k r : ℕ) :
    (knotInsertionKv U u k r).Perm (List.replicate r u ++ U) := by
  unfold knotInsertionKv
  have h : U = U.take (k+1) ++ U.drop (k+1) := (List.take_append_drop _ _).symm
  conv_rhs => rw [h]
  rw [List.append_assoc]
  exact (List.perm_append_comm_assoc _ _ _)

theorem insertOne_perm (p : ℕ) (tol : K) (st : List K × List (List K)) (x : K) :
    (insertOne p tol st x).1.Perm (x :: st.1) := by
  have := knotInsertionKv_perm st.1 x (findSpanLinear p (fnOf st.1) st.2.length x) 1
  simpa [insertOne] using this

/-- the fold of single insertions adds exactly the inserted values to the knot vector -/
theorem insert_fold_perm (p : ℕ) (tol : K) (X : List K) : ∀ (st : List K × List (List K)),
    (X.foldl (insertOne p tol) st).1.Perm (X ++ st.1) := by
  induction X with
  | nil => intro st; simp
  | cons x xs ih =>
    intro st
    simp only [List.foldl_cons]
    refine (ih (insertOne p tol st x)).trans ?_
    refine ((insertOne_perm p tol st x).append_left xs).trans ?_
    simp only [List.cons_append]
    exact List.perm_middle

theorem insert_fold_net_length (p : ℕ) (tol : K) (X : List K) : ∀ (st : List K × List (List K)),
    (X.foldl (insertOne p tol) st).2.length = st.2.length + X.length := by
  induction X with
  | nil => intro st; simp
  | cons x xs ih =>
    intro st
    simp only [List.foldl_cons, List.length_cons]
    rw [ih]
    simp only [insertOne, knotInsertion_length]; omega

/-- the knot-vector component of the fold depends on the control polygon only through its length -/
theorem insert_fold_kv_indep (p : ℕ) (tol : K) (X : List K) : ∀ (U : List K) (P P' : List (List K)),
    P.length = P'.length → (X.foldl (insertOne p tol) (U, P)).1 = (X.foldl (insertOne p tol) (U, P')).1 := by
  induction X with
  | nil => intro U P P' _; rfl
  | cons x xs ih =>
    intro U P P' h
    simp only [List.foldl_cons]
    have e1 : (insertOne p tol (U, P) x).1 = (insertOne p tol (U, P') x).1 := by
      simp only [insertOne, h]
    have e2 : (insertOne p tol (U, P) x).2.length = (insertOne p tol (U, P') x).2.length := by
      simp only [insertOne, knotInsertion_length, h]
    have := ih (insertOne p tol (U, P) x).1 (insertOne p tol (U, P) x).2 (insertOne p tol (U, P') x).2 e2
    rw [show insertOne p tol (U, P) x = ((insertOne p tol (U, P) x).1, (insertOne p tol (U, P) x).2) from rfl, this, e1]

/-- **`RefineOk` from counting**: in a well-formed state, if all knots involved are tolerance
    separated, every listed knot lies in `[U_p, U_n)` and would not exceed multiplicity `p` after ALL
    listed copies are in, then every single insertion of the fold is admissible – in any order. -/
theorem refineOk_of_counts (p d : ℕ) (tol : K) (h0 : 0 ≤ tol) (S : List K) (hS : SepBy tol S) :
    ∀ (X : List K) (st : List K × List (List K)), CurveWF p d st.1 st.2 →
      (∀ a ∈ st.1, a ∈ S) → (∀ a ∈ X, a ∈ S) →
      (∀ x ∈ X, fnOf st.1 p ≤ x ∧ x < fnOf st.1 st.2.length) →
      (∀ x ∈ X, st.1.count x + X.count x ≤ p) → RefineOk p tol st X := by
  intro X
  induction X with
  | nil => intro st _ _ _ _ _; trivial
  | cons x xs ih =>
    intro st hwf hU hX hdom hcnt
    have hxS : x ∈ S := hX x (by simp)
    have hmul : findMultiplicity x st.1 tol = st.1.count x :=
      findMultiplicity_eq_count tol h0 x st.1 (fun y hy => hS x hxS y (hU y hy))
    obtain ⟨hx1, hx2⟩ := hdom x (by simp)
    obtain ⟨k1, k2, k3, k4⟩ := findSpanLinear_spec p (fnOf st.1) st.2.length x hwf.pn hwf.mono hx1
    change p ≤ findSpanLinear p (fnOf st.1) st.2.length x at k1
    change findSpanLinear p (fnOf st.1) st.2.length x < st.2.length at k2
    change fnOf st.1 (findSpanLinear p (fnOf st.1) st.2.length x) ≤ x at k3
    have hk2 : x < fnOf st.1 (findSpanLinear p (fnOf st.1) st.2.length x + 1) := by
      rcases k4 with h' | h'
      · exact h'
      · change findSpanLinear p (fnOf st.1) st.2.length x + 1 = st.2.length at h'
        rw [h']; exact hx2
    have hc := hcnt x (by simp)
    rw [List.count_cons_self] at hc
    have hblock := mult_block st.1 hwf.mono x (findSpanLinear p (fnOf st.1) st.2.length x)
      (by have := hwf.len; omega) k3 hk2
    have hreq : ReqOk p st (x, 1, findMultiplicity x st.1 tol) := by
      refine ⟨hx1, hx2, ?_, le_refl _, ?_⟩
      · rw [hmul]
        exact hblock
      · rw [hmul]; show 1 + st.1.count x ≤ p; omega
    refine ⟨hreq, ?_⟩
    obtain ⟨hwf', hp', hn'⟩ := insStep_wf p d st _ hwf hreq
    rw [← insertOne_eq_insStep] at hwf' hp' hn'
    have hperm := insertOne_perm p tol st x
    apply ih (insertOne p tol st x) hwf'
    · intro a ha
      rcases List.mem_cons.mp (hperm.mem_iff.mp ha) with rfl | h
      · exact hxS
      · exact hU a h
    · intro a ha; exact hX a (by simp [ha])
    · intro y hy
      rw [hp', hn']; exact hdom y (by simp [hy])
    · intro y hy
      have := hcnt y (by simp [hy])
      rw [hperm.count_eq]
      rw [List.count_cons] at this ⊢
      omega

/-- well-formedness and the domain ends survive the whole fold -/
theorem refine_fold_wf (p d : ℕ) (tol : K) (X : List K) :
    ∀ (st : List K × List (List K)), CurveWF p d st.1 st.2 → RefineOk p tol st X →
      CurveWF p d (X.foldl (insertOne p tol) st).1 (X.foldl (insertOne p tol) st).2 ∧
      fnOf (X.foldl (insertOne p tol) st).1 p = fnOf st.1 p ∧
      fnOf (X.foldl (insertOne p tol) st).1 (X.foldl (insertOne p tol) st).2.length = fnOf st.1 st.2.length := by
  induction X with
  | nil => intro st h _; exact ⟨h, rfl, rfl⟩
  | cons x xs ih =>
    intro st hwf hok
    obtain ⟨hq, hqs⟩ := hok
    obtain ⟨hwf', hp', hn'⟩ := insStep_wf p d st _ hwf hq
    rw [← insertOne_eq_insStep] at hwf' hp' hn'
    simp only [List.foldl_cons]
    obtain ⟨a, b, c⟩ := ih (insertOne p tol st x) hwf' hqs
    exact ⟨a, by rw [b, hp'], by rw [c, hn']⟩

end Geomdl
