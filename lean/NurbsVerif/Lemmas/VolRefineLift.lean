import NurbsVerif.Lemmas.RefineShape
import NurbsVerif.Lemmas.VolLiftMap

/-! One curve-level operation applied to every iso-curve of one parametric direction (`IsoOp`: what the
    operation must do to one iso-curve – new length, dimension kept, new knot vector well formed with
    the same domain, every curve point kept) lifted to surfaces (`mapSurfU`, `mapSurfV`) and volumes
    (`mapVol 0/1/2`): sizes, net length, dimension, and every surface / volume point.  Knot refinement
    (the fold of single insertions over the list `X`) and knot insertion (`r` copies at once) are
    both instances. -/
namespace Geomdl
open Blossom Finset
variable {K : Type} [Field K] [LinearOrder K] [IsStrictOrderedRing K]

/-- what a curve-level operation `f` (old knots `U`, `n` control points; new knots `U'`, `L` control
    points) does to every control polygon of length `n` and dimension `d` -/
structure IsoOp (p d : ℕ) (U U' : List K) (n L : ℕ) (f : List (List K) → List (List K)) : Prop where
  kv : KvWF p U' L
  lo : fnOf U' p = fnOf U p
  hi : fnOf U' L = fnOf U n
  len : ∀ c : List (List K), c.length = n → NetOk d c → (f c).length = L
  net : ∀ c : List (List K), c.length = n → NetOk d c → NetOk d (f c)
  eval : ∀ c : List (List K), c.length = n → NetOk d c → ∀ (v : K), fnOf U p ≤ v → v ≤ fnOf U n → ∀ j,
      (curvePointAt p (fnOf U') (f c) (findSpanLinear p (fnOf U') L v) v).getD j 0
        = (curvePointAt p (fnOf U) c (findSpanLinear p (fnOf U) n v) v).getD j 0

/-- knot refinement of one direction is such an operation -/
theorem isoOp_refine (p d : ℕ) (U : List K) (n density : ℕ) (tol : K) (hkv : KvWF p U n)
    (hend : ∀ i, n ≤ i → fnOf U i = fnOf U n) (h0 : 0 ≤ tol) (hsep : SepBy tol (U ++ refineKnots p U density)) :
    IsoOp p d U (refKv p tol U (refineX p U density tol) n) n (n + (refineX p U density tol).length)
      (refNet p tol U (refineX p U density tol)) := by
  obtain ⟨_, _, hkv', hp', hn', _⟩ := refine_isocurve p 0 U n density tol hkv hend h0 hsep
    (List.replicate n []) (by simp) (by intro pt hpt; rw [List.eq_of_mem_replicate hpt]; rfl)
  refine ⟨hkv', hp', hn', ?_, ?_, ?_⟩
  · intro c hc hnet
    exact (refine_isocurve p d U n density tol hkv hend h0 hsep c hc hnet).1
  · intro c hc hnet
    exact (refine_isocurve p d U n density tol hkv hend h0 hsep c hc hnet).2.1
  · intro c hc hnet v hlo hhi j
    exact (refine_isocurve p d U n density tol hkv hend h0 hsep c hc hnet).2.2.2.2.2 v hlo hhi j

/-- inserting `u` `r` times (`s` = prior multiplicity, span found by the library's search) is such an
    operation -/
theorem isoOp_insert (p d : ℕ) (U : List K) (n r s : ℕ) (u : K) (hkv : KvWF p U n)
    (hlo : fnOf U p ≤ u) (hhi : u < fnOf U n)
    (hmult : ∀ x, findSpanLinear p (fnOf U) n u - s < x → x ≤ findSpanLinear p (fnOf U) n u → fnOf U x = u)
    (hr1 : 1 ≤ r) (hrs : r + s ≤ p) :
    IsoOp p d U (knotInsertionKv U u (findSpanLinear p (fnOf U) n u) r) n (n + r)
      (fun c => knotInsertion p (fnOf U) c u r s (findSpanLinear p (fnOf U) n u)) := by
  obtain ⟨k1, k2, _, _⟩ := findSpanLinear_spec p (fnOf U) n u hkv.pn hkv.mono hlo
  have hdummy : (List.replicate n ([] : List K)).length = n := by simp
  have hwf0 : CurveWF p 0 U (List.replicate n ([] : List K)) :=
    hkv.curve 0 _ hdummy (by intro pt hpt; rw [List.eq_of_mem_replicate hpt]; rfl)
  have hreq : ReqOk p (U, List.replicate n ([] : List K)) (u, r, s) := by
    refine ⟨hlo, ?_, ?_, hr1, hrs⟩
    · show u < fnOf U (List.replicate n ([] : List K)).length
      rw [hdummy]; exact hhi
    · show ∀ x, findSpanLinear p (fnOf U) (List.replicate n ([] : List K)).length u - s < x →
        x ≤ findSpanLinear p (fnOf U) (List.replicate n ([] : List K)).length u → fnOf U x = u
      rw [hdummy]; exact hmult
  obtain ⟨hwf', hp', hn'⟩ := insStep_wf p 0 (U, List.replicate n ([] : List K)) (u, r, s) hwf0 hreq
  have e1 : (insStep p (U, List.replicate n ([] : List K)) (u, r, s)).1
      = knotInsertionKv U u (findSpanLinear p (fnOf U) n u) r := by
    show knotInsertionKv U u (findSpanLinear p (fnOf U) (List.replicate n ([] : List K)).length u) r = _
    rw [hdummy]
  have e2 : (insStep p (U, List.replicate n ([] : List K)) (u, r, s)).2.length = n + r := by
    show (knotInsertion p (fnOf U) (List.replicate n ([] : List K)) u r s _).length = _
    rw [knotInsertion_length, hdummy]
  rw [e1] at hwf' hp'
  rw [e1, e2] at hn'
  have hlen' := hwf'.len
  have hpn' := hwf'.pn
  have hlast' := hwf'.last
  rw [e2] at hlen' hpn' hlast'
  refine ⟨⟨hwf'.mono, hlen', hpn', hlast'⟩, hp', ?_, ?_, ?_, ?_⟩
  · show fnOf _ (n + r) = fnOf U n
    have : fnOf U (List.replicate n ([] : List K)).length = fnOf U n := by rw [hdummy]
    rw [← this]; exact hn'
  · intro c hc _
    rw [knotInsertion_length, hc]
  · intro c hc hnet
    exact knotInsertion_netOk p (fnOf U) c u r s _ d hnet k1 (by rw [hc]; exact k2) hrs (by omega)
  · intro c hc hnet v hlov hhiv j
    have := knotInsertion_preserves_curve p U c u v r s d j hnet hkv.mono (by rw [hc]; exact hkv.len)
      (by rw [hc]; exact hkv.pn) hlo (by rw [hc]; exact hhi) (by rw [hc]; exact hmult) hr1 hrs hlov
      (by rw [hc]; exact hhiv) (by rw [hc]; exact hkv.last)
    unfold curvePoint at this
    rw [knotInsertion_length, hc] at this
    exact this

/-! ### surfaces -/

/-- an `IsoOp` applied to every row (iso-curve `u = const`) of a surface net -/
theorem surfV_isoOp (pu pv : ℕ) (Uu : ℕ → K) (Uvl U' : List K) (su sv L d : ℕ) (P : List (List K))
    (f : List (List K) → List (List K)) (hP : NetOk d P) (hlenP : P.length = su * sv)
    (hkv : KvWF pv Uvl sv) (hop : IsoOp pv d Uvl U' sv L f) (hsu : 0 < su) :
    (mapSurfV su sv P f).2 = L ∧ (mapSurfV su sv P f).1.length = su * L ∧ NetOk d (mapSurfV su sv P f).1 ∧
    ∀ (ku : ℕ), pu ≤ ku → ku < su → ∀ (u v : K), fnOf Uvl pv ≤ v → v ≤ fnOf Uvl sv → ∀ j,
      (surfacePointAt pu pv Uu (fnOf U') L (mapSurfV su sv P f).1 ku (findSpanLinear pv (fnOf U') L v) u v).getD j 0
        = (surfacePointAt pu pv Uu (fnOf Uvl) sv P ku (findSpanLinear pv (fnOf Uvl) sv v) u v).getD j 0 := by
  have hrowlen : ∀ x, (rowOf sv P x).length = sv := by intro x; simp [rowOf]
  have hrn := fun x (hx : x < su) => rowOf_netOk su sv d P hP hlenP x hx
  obtain ⟨q1, q2, q3, q4⟩ := mapSurfV_gen su sv d L P f hsu
    (fun x hx => ⟨hop.len _ (hrowlen x) (hrn x hx), hop.net _ (hrowlen x) (hrn x hx)⟩)
  refine ⟨q1, q2, q3, ?_⟩
  intro ku hpu hku u v hlo hhi j
  obtain ⟨a1, a2, _, _⟩ := findSpanLinear_spec pv (fnOf Uvl) sv v hkv.pn hkv.mono hlo
  obtain ⟨b1, b2, _, _⟩ := findSpanLinear_spec pv (fnOf U') L v hop.kv.pn hop.kv.mono (by rw [hop.lo]; exact hlo)
  apply surf_lift_rows pu pv Uu (fnOf Uvl) _ su sv L P (mapSurfV su sv P f).1 ku _ _ u v d j hpu hku a1 a2 b1 b2 hlenP hP q2 q3
  intro x hx
  rw [q4 x hx]
  exact hop.eval _ (hrowlen x) (hrn x hx) v hlo hhi j

/-- an `IsoOp` applied to every column (iso-curve `v = const`) of a surface net -/
theorem surfU_isoOp (pu pv : ℕ) (Uul U' : List K) (Uv : ℕ → K) (su sv L d : ℕ) (P : List (List K))
    (f : List (List K) → List (List K)) (hP : NetOk d P) (hlenP : P.length = su * sv)
    (hku : KvWF pu Uul su) (hop : IsoOp pu d Uul U' su L f) (hsv : 0 < sv) :
    (mapSurfU su sv P f).2 = L ∧ (mapSurfU su sv P f).1.length = L * sv ∧ NetOk d (mapSurfU su sv P f).1 ∧
    ∀ (kv : ℕ), pv ≤ kv → kv < sv → ∀ (u v : K), fnOf Uul pu ≤ u → u ≤ fnOf Uul su → ∀ j,
      (surfacePointAt pu pv (fnOf U') Uv sv (mapSurfU su sv P f).1 (findSpanLinear pu (fnOf U') L u) kv u v).getD j 0
        = (surfacePointAt pu pv (fnOf Uul) Uv sv P (findSpanLinear pu (fnOf Uul) su u) kv u v).getD j 0 := by
  have hcollen : ∀ y, (colOf su sv P y).length = su := by intro y; simp [colOf]
  have hcn := fun y (hy : y < sv) => colOf_netOk su sv d P hP hlenP y hy
  obtain ⟨q1, q2, q3, q4⟩ := mapSurfU_gen su sv d L P f hsv
    (fun y hy => ⟨hop.len _ (hcollen y) (hcn y hy), hop.net _ (hcollen y) (hcn y hy)⟩)
  refine ⟨q1, q2, q3, ?_⟩
  intro kv hpv hkv u v hlo hhi j
  obtain ⟨a1, a2, _, _⟩ := findSpanLinear_spec pu (fnOf Uul) su u hku.pn hku.mono hlo
  obtain ⟨b1, b2, _, _⟩ := findSpanLinear_spec pu (fnOf U') L u hop.kv.pn hop.kv.mono (by rw [hop.lo]; exact hlo)
  apply surf_lift_cols pu pv (fnOf Uul) _ Uv su sv L P (mapSurfU su sv P f).1 kv _ _ u v d j hpv hkv a1 a2 b1 b2 hlenP hP q2 q3
  intro y hy
  rw [q4 y hy]
  exact hop.eval _ (hcollen y) (hcn y hy) u hlo hhi j

/-! ### volumes -/

/-- an `IsoOp` applied to every u-directional iso-curve of a volume net (`mapVol 0`) -/
theorem volU_isoOp (pu pv pw : ℕ) (Uul U' : List K) (Uv Uw : ℕ → K) (su sv sw L d : ℕ) (P : List (List K))
    (f : List (List K) → List (List K)) (hP : NetOk d P) (hlenP : P.length = su * sv * sw)
    (hku : KvWF pu Uul su) (hop : IsoOp pu d Uul U' su L f) (hsv : 0 < sv) (hsw : 0 < sw) :
    (mapVol 0 su sv sw P f).2 = L ∧ (mapVol 0 su sv sw P f).1.length = L * sv * sw ∧ NetOk d (mapVol 0 su sv sw P f).1 ∧
    ∀ (kv kw : ℕ), pv ≤ kv → kv < sv → pw ≤ kw → kw < sw → ∀ (u v w : K), fnOf Uul pu ≤ u → u ≤ fnOf Uul su → ∀ j,
      (volumePointAt pu pv pw (fnOf U') Uv Uw L sv (mapVol 0 su sv sw P f).1
          (findSpanLinear pu (fnOf U') L u) kv kw u v w).getD j 0
        = (volumePointAt pu pv pw (fnOf Uul) Uv Uw su sv P (findSpanLinear pu (fnOf Uul) su u) kv kw u v w).getD j 0 := by
  have hl := fun y z (hy : y < sv) (hz : z < sw) => lineU_netOk su sv sw d P hP hlenP y z hy hz
  obtain ⟨q1, q2, q3, q4⟩ := mapVol0_spec su sv sw d L P f hsv hsw
    (fun y z hy hz => hop.len _ (lineU_length su sv P y z) (hl y z hy hz))
    (fun y z hy hz => hop.net _ (lineU_length su sv P y z) (hl y z hy hz))
  refine ⟨q1, q2, q3, ?_⟩
  intro kv kw h1 h2 h3 h4 u v w hlo hhi j
  obtain ⟨a1, a2, _, _⟩ := findSpanLinear_spec pu (fnOf Uul) su u hku.pn hku.mono hlo
  obtain ⟨b1, b2, _, _⟩ := findSpanLinear_spec pu (fnOf U') L u hop.kv.pn hop.kv.mono (by rw [hop.lo]; exact hlo)
  apply volumePointAt_liftU pu pv pw (fnOf Uul) (fnOf U') Uv Uw su L sv sw P _ _ _ kv kw u v w d j
    a1 h1 h3 a2 h2 h4 b1 b2 hlenP hP q2 q3
  intro b c hb hc
  rw [q4 _ _ (by omega) (by omega)]
  exact hop.eval _ (lineU_length su sv P _ _) (hl _ _ (by omega) (by omega)) u hlo hhi j

/-- an `IsoOp` applied to every v-directional iso-curve of a volume net (`mapVol 1`) -/
theorem volV_isoOp (pu pv pw : ℕ) (Uu : ℕ → K) (Uvl U' : List K) (Uw : ℕ → K) (su sv sw L d : ℕ) (P : List (List K))
    (f : List (List K) → List (List K)) (hP : NetOk d P) (hlenP : P.length = su * sv * sw)
    (hkv : KvWF pv Uvl sv) (hop : IsoOp pv d Uvl U' sv L f) (hsu : 0 < su) (hsw : 0 < sw) :
    (mapVol 1 su sv sw P f).2 = L ∧ (mapVol 1 su sv sw P f).1.length = su * L * sw ∧ NetOk d (mapVol 1 su sv sw P f).1 ∧
    ∀ (ku kw : ℕ), pu ≤ ku → ku < su → pw ≤ kw → kw < sw → ∀ (u v w : K), fnOf Uvl pv ≤ v → v ≤ fnOf Uvl sv → ∀ j,
      (volumePointAt pu pv pw Uu (fnOf U') Uw su L (mapVol 1 su sv sw P f).1
          ku (findSpanLinear pv (fnOf U') L v) kw u v w).getD j 0
        = (volumePointAt pu pv pw Uu (fnOf Uvl) Uw su sv P ku (findSpanLinear pv (fnOf Uvl) sv v) kw u v w).getD j 0 := by
  have hl := fun x z (hx : x < su) (hz : z < sw) => lineV_netOk su sv sw d P hP hlenP x z hx hz
  obtain ⟨q1, q2, q3, q4⟩ := mapVol1_spec su sv sw d L P f hsu hsw
    (fun x z hx hz => hop.len _ (lineV_length su sv P x z) (hl x z hx hz))
    (fun x z hx hz => hop.net _ (lineV_length su sv P x z) (hl x z hx hz))
  refine ⟨q1, q2, q3, ?_⟩
  intro ku kw h1 h2 h3 h4 u v w hlo hhi j
  obtain ⟨a1, a2, _, _⟩ := findSpanLinear_spec pv (fnOf Uvl) sv v hkv.pn hkv.mono hlo
  obtain ⟨b1, b2, _, _⟩ := findSpanLinear_spec pv (fnOf U') L v hop.kv.pn hop.kv.mono (by rw [hop.lo]; exact hlo)
  apply volumePointAt_liftV pu pv pw Uu (fnOf Uvl) (fnOf U') Uw su sv L sw P _ ku _ _ kw u v w d j
    h1 a1 h3 h2 a2 h4 b1 b2 hlenP hP q2 q3
  intro a c ha hc
  rw [q4 _ _ (by omega) (by omega)]
  exact hop.eval _ (lineV_length su sv P _ _) (hl _ _ (by omega) (by omega)) v hlo hhi j

/-- an `IsoOp` applied to every w-directional iso-curve of a volume net (`mapVol 2`) -/
theorem volW_isoOp (pu pv pw : ℕ) (Uu Uv : ℕ → K) (Uwl U' : List K) (su sv sw L d : ℕ) (P : List (List K))
    (f : List (List K) → List (List K)) (hP : NetOk d P) (hlenP : P.length = su * sv * sw)
    (hkw : KvWF pw Uwl sw) (hop : IsoOp pw d Uwl U' sw L f) (hsu : 0 < su) (hsv : 0 < sv) :
    (mapVol 2 su sv sw P f).2 = L ∧ (mapVol 2 su sv sw P f).1.length = su * sv * L ∧ NetOk d (mapVol 2 su sv sw P f).1 ∧
    ∀ (ku kv : ℕ), pu ≤ ku → ku < su → pv ≤ kv → kv < sv → ∀ (u v w : K), fnOf Uwl pw ≤ w → w ≤ fnOf Uwl sw → ∀ j,
      (volumePointAt pu pv pw Uu Uv (fnOf U') su sv (mapVol 2 su sv sw P f).1
          ku kv (findSpanLinear pw (fnOf U') L w) u v w).getD j 0
        = (volumePointAt pu pv pw Uu Uv (fnOf Uwl) su sv P ku kv (findSpanLinear pw (fnOf Uwl) sw w) u v w).getD j 0 := by
  have hl := fun x y (hx : x < su) (hy : y < sv) => lineW_netOk su sv sw d P hP hlenP x y hx hy
  obtain ⟨q1, q2, q3, q4⟩ := mapVol2_spec su sv sw d L P f hsu hsv
    (fun x y hx hy => hop.len _ (lineW_length su sv sw P x y) (hl x y hx hy))
    (fun x y hx hy => hop.net _ (lineW_length su sv sw P x y) (hl x y hx hy))
  refine ⟨q1, q2, q3, ?_⟩
  intro ku kv h1 h2 h3 h4 u v w hlo hhi j
  obtain ⟨a1, a2, _, _⟩ := findSpanLinear_spec pw (fnOf Uwl) sw w hkw.pn hkw.mono hlo
  obtain ⟨b1, b2, _, _⟩ := findSpanLinear_spec pw (fnOf U') L w hop.kv.pn hop.kv.mono (by rw [hop.lo]; exact hlo)
  apply volumePointAt_liftW pu pv pw Uu Uv (fnOf Uwl) (fnOf U') su sv sw L P _ ku kv _ _ u v w d j
    h1 h3 a1 h2 h4 a2 b1 b2 hlenP hP q2 q3
  intro a b ha hb
  rw [q4 _ _ (by omega) (by omega)]
  exact hop.eval _ (lineW_length su sv sw P _ _) (hl _ _ (by omega) (by omega)) w hlo hhi j

end Geomdl
