import NurbsVerif.Lemmas.Fitting
import NurbsVerif.Lemmas.InsertSurf

/-! `fitting.interpolate_surface`: the two-pass tensor argument.  Pass 1 interpolates every `v`-line
    of the data in the `u` direction (intermediate points `R`), pass 2 interpolates every `u`-line of
    `R` in the `v` direction; the surface then passes through every data point. -/
namespace Geomdl
open Blossom Finset Lin
variable {K : Type} [Field K] [LinearOrder K] [IsStrictOrderedRing K]

/-! ### list helpers -/

theorem flatten_getD {α : Type} (n : ℕ) (dflt : α) : ∀ (L : List (List α)), (∀ l ∈ L, l.length = n) →
    ∀ i j, i < n → L.flatten.getD (i + n * j) dflt = (L.getD j []).getD i dflt
  | [], _, i, j, _ => by simp
  | l :: L, h, i, 0, hi => by
    have hl : l.length = n := h l (by simp)
    simp only [List.flatten_cons, Nat.mul_zero, Nat.add_zero, List.getD_cons_zero]
    rw [List.getD_append _ _ _ _ (by omega)]
  | l :: L, h, i, j + 1, hi => by
    have hl : l.length = n := h l (by simp)
    simp only [List.flatten_cons, List.getD_cons_succ]
    rw [List.getD_append_right _ _ _ _ (by rw [hl, Nat.mul_succ]; omega)]
    have e : i + n * (j + 1) - l.length = i + n * j := by rw [hl, Nat.mul_succ]; omega
    rw [e]
    exact flatten_getD n dflt L (fun l' hl' => h l' (by simp [hl'])) i j hi

theorem flatten_length_const {α : Type} (n : ℕ) : ∀ (L : List (List α)), (∀ l ∈ L, l.length = n) →
    L.flatten.length = n * L.length
  | [], _ => by simp
  | l :: L, h => by
    simp only [List.flatten_cons, List.length_append, List.length_cons]
    rw [flatten_length_const n L (fun l' hl' => h l' (by simp [hl'])), h l (by simp), Nat.mul_succ]
    omega

/-- shape of a `lu_solve` result: as many rows as `b`, each with the dimension of `b`'s first row -/
theorem luSolve_shape (A b x : List (List K)) (h : luSolve A b = some x) :
    x.length = b.length ∧ ∀ row ∈ x, row.length = (b.headD []).length := by
  unfold luSolve solveColumns at h
  simp only [] at h
  split at h
  · exact absurd h (by simp)
  · injection h with h'
    subst h'
    exact ⟨tabulate_length _ _ _, tabulate_row_length _ _ _⟩

/-- results of a loop of solver calls that all returned -/
theorem allSome_map_range {β : Type} (n : ℕ) (f : ℕ → Option β) (r : List β)
    (h : allSome ((List.range n).map f) = some r) :
    r.length = n ∧ ∀ (dflt : β) i, i < n → f i = some (r.getD i dflt) := by
  have hmap := allSome_eq_some _ _ h
  have hlen : r.length = n := by
    have := congrArg List.length hmap
    simpa using this.symm
  refine ⟨hlen, fun dflt i hi => ?_⟩
  have := congrArg (fun l => l[i]?) hmap
  simp only [List.getElem?_map, List.getElem?_range hi, Option.map_some] at this
  rw [List.getD_eq_getElem?_getD]
  cases hcc : r[i]? with
  | none => rw [hcc] at this; simp at this
  | some v => rw [hcc] at this; simpa using this

theorem flat_index (su sv a b : ℕ) (ha : a < su) (hb : b < sv) : b + sv * a < su * sv := by
  calc b + sv * a < sv + sv * a := by omega
    _ = sv * (a + 1) := by ring
    _ ≤ sv * su := Nat.mul_le_mul_left _ (by omega)
    _ = su * sv := by ring

/-! ### one pass: a family of curve interpolations with the same collocation matrix -/

/-- every solved line is a net of the right shape that interpolates its data line -/
theorem pass_spec (p : ℕ) (U : ℕ → K) (uk : List K) (n d : ℕ) (rhs sol : List (List K))
    (hn : uk.length = n) (hrl : rhs.length = n) (hpn : p + 1 ≤ n) (hR : NetOk d rhs) (hd : 0 < d)
    (h : luSolve (buildCoeffMatrix p U uk n) rhs = some sol) :
    sol.length = n ∧ NetOk d sol ∧ ∀ i, i < n → ∀ c, c < d →
      (curvePointAt p U sol (findSpanLinear p U n (uk.getD i 0)) (uk.getD i 0)).getD c 0
        = (ptsGet rhs i).getD c 0 := by
  obtain ⟨h1, h2⟩ := luSolve_shape _ _ _ h
  have hdim : (rhs.headD []).length = d := dimOf_eq hR (by omega)
  refine ⟨by rw [h1, hrl], fun row hrow => by rw [h2 row hrow, hdim], ?_⟩
  intro i hi c hc
  subst hrl
  exact collocation_interpolates p U uk rhs sol d hn hpn hR hd h i hi c hc

/-! ### `interpolateSurface` -/

/-- **Global surface interpolation**: whenever all solver calls of both passes return, the surface
    evaluated at the `i`-th `u`-parameter and the `j`-th `v`-parameter is the data point `Q_{i,j}`
    (flat index `j + sv·i`). -/
theorem interpolateSurface_interpolates (pu pv su sv : ℕ) (pts : List (List K)) (cdsU cdsV : List (List K))
    (invpu invpv : K) (d : ℕ) (kvu kvv : List K) (cp : List (List K))
    (hlen : pts.length = su * sv) (hpu : pu + 1 ≤ su) (hpv : pv + 1 ≤ sv) (hP : NetOk d pts) (hd : 0 < d)
    (h : interpolateSurface pu pv su sv pts cdsU cdsV invpu invpv = some (kvu, kvv, cp))
    (i : ℕ) (hi : i < su) (j : ℕ) (hj : j < sv) (c : ℕ) (hc : c < d) :
    (surfacePoint pu pv (fnOf kvu) (fnOf kvv) su sv cp
        ((averageParams cdsU su).getD i 0) ((averageParams cdsV sv).getD j 0)).getD c 0
      = (ptsGet pts (j + sv * i)).getD c 0 := by
  unfold interpolateSurface at h
  simp only [] at h
  split at h
  · exact absurd h (by simp)
  · rename_i colsU hU
    split at h
    · exact absurd h (by simp)
    · rename_i rows hV
      injection h with h'
      injection h' with hkvu h''
      injection h'' with hkvv hcp
      subst hkvu; subst hkvv; subst hcp
      set uk := averageParams cdsU su with hukdef
      set vl := averageParams cdsV sv with hvldef
      set Uu := fnOf (computeKnotVector pu su uk invpu) with hUu
      set Uv := fnOf (computeKnotVector pv sv vl invpv) with hUv
      have hukl : uk.length = su := by simp [hukdef, averageParams]
      have hvll : vl.length = sv := by simp [hvldef, averageParams]
      -- pass 1
      obtain ⟨hcl, hcsol⟩ := allSome_map_range sv _ colsU hU
      have hX : ∀ v, v < sv → (colsU.getD v []).length = su ∧ NetOk d (colsU.getD v []) ∧
          ∀ a, a < su → ∀ c, c < d →
            (curvePointAt pu Uu (colsU.getD v []) (findSpanLinear pu Uu su (uk.getD a 0)) (uk.getD a 0)).getD c 0
              = (ptsGet pts (v + sv * a)).getD c 0 := by
        intro v hv
        have hR : NetOk d ((List.range su).map (fun u => pts.getD (v + sv * u) [])) := by
          intro pt hpt
          simp only [List.mem_map, List.mem_range] at hpt
          obtain ⟨u, hu, rfl⟩ := hpt
          exact ptsGet_length hP _ (by rw [hlen]; exact flat_index su sv u v hu hv)
        obtain ⟨g1, g2, g3⟩ := pass_spec pu Uu uk su d _ _ hukl (by simp) hpu hR hd (hcsol [] v hv)
        refine ⟨g1, g2, fun a ha c hc => ?_⟩
        rw [g3 a ha c hc]
        simp [ptsGet, List.getD_eq_getElem?_getD, ha]
      have hflatU : ∀ u v, u < su → v < sv → colsU.flatten.getD (u + su * v) [] = (colsU.getD v []).getD u [] := by
        intro u v hu hv
        apply flatten_getD su [] colsU _ u v hu
        intro l hl
        obtain ⟨v', hv', rfl⟩ := List.getElem_of_mem hl
        have := (hX v' (by omega)).1
        rwa [List.getD_eq_getElem?_getD, List.getElem?_eq_getElem hv', Option.getD_some] at this
      -- pass 2
      obtain ⟨hrl, hrsol⟩ := allSome_map_range su _ rows hV
      have hY : ∀ u, u < su → (rows.getD u []).length = sv ∧ NetOk d (rows.getD u []) ∧
          ∀ b, b < sv → ∀ c, c < d →
            (curvePointAt pv Uv (rows.getD u []) (findSpanLinear pv Uv sv (vl.getD b 0)) (vl.getD b 0)).getD c 0
              = (ptsGet (colsU.getD b []) u).getD c 0 := by
        intro u hu
        have hR : NetOk d ((List.range sv).map (fun v => colsU.flatten.getD (u + su * v) [])) := by
          intro pt hpt
          simp only [List.mem_map, List.mem_range] at hpt
          obtain ⟨v, hv, rfl⟩ := hpt
          rw [hflatU u v hu hv]
          exact ptsGet_length (hX v hv).2.1 u (by rw [(hX v hv).1]; exact hu)
        obtain ⟨g1, g2, g3⟩ := pass_spec pv Uv vl sv d _ _ hvll (by simp) hpv hR hd (hrsol [] u hu)
        refine ⟨g1, g2, fun b hb c hc => ?_⟩
        rw [g3 b hb c hc]
        simp only [ptsGet, List.getD_eq_getElem?_getD, List.getElem?_map, List.getElem?_range hb, Option.map_some,
          Option.getD_some]
        have := hflatU u b hu hb
        simp only [List.getD_eq_getElem?_getD] at this
        rw [this]
      have hrowsl : ∀ l ∈ rows, l.length = sv := by
        intro l hl
        obtain ⟨u', hu', rfl⟩ := List.getElem_of_mem hl
        have := (hY u' (by omega)).1
        rwa [List.getD_eq_getElem?_getD, List.getElem?_eq_getElem hu', Option.getD_some] at this
      have hcpl : rows.flatten.length = su * sv := by
        rw [flatten_length_const sv rows hrowsl, hrl, Nat.mul_comm]
      have hcpN : NetOk d rows.flatten := by
        intro pt hpt
        obtain ⟨l, hl, hptl⟩ := List.mem_flatten.mp hpt
        obtain ⟨u', hu', rfl⟩ := List.getElem_of_mem hl
        have := (hY u' (by omega)).2.1
        rw [List.getD_eq_getElem?_getD, List.getElem?_eq_getElem hu', Option.getD_some] at this
        exact this pt hptl
      have hrow : ∀ a, a < su → rowOf sv rows.flatten a = rows.getD a [] := by
        intro a ha
        apply List.ext_getElem
        · rw [(hY a ha).1]; simp [rowOf]
        · intro b h1 h2
          have hb : b < sv := by simpa [rowOf] using h1
          have := flatten_getD sv [] rows hrowsl b a hb
          simp only [rowOf, ptsGet, List.getElem_map, List.getElem_range]
          rw [this, List.getD_eq_getElem?_getD, List.getElem?_eq_getElem h2, Option.getD_some]
      -- the spans
      obtain ⟨hs1, hs2⟩ := findSpanLinear_range pu Uu su (uk.getD i 0) hpu
      obtain ⟨ht1, ht2⟩ := findSpanLinear_range pv Uv sv (vl.getD j 0) hpv
      unfold surfacePoint
      set ku := findSpanLinear pu Uu su (uk.getD i 0) with hku
      set kv := findSpanLinear pv Uv sv (vl.getD j 0) with hkv
      rw [surfacePointAt_rows pu pv Uu Uv su sv rows.flatten ku kv _ _ d c hs1 ht1 hs2 ht2 hcpl hcpN]
      have hstep : ∀ a ∈ range (pu + 1),
          (basisFuns pu Uu ku (uk.getD i 0)).getD a 0 *
            (curvePointAt pv Uv (rowOf sv rows.flatten (ku - pu + a)) kv (vl.getD j 0)).getD c 0
          = (basisFuns pu Uu ku (uk.getD i 0)).getD a 0 * (ptsGet (colsU.getD j []) (ku - pu + a)).getD c 0 := by
        intro a ha
        have ha' : ku - pu + a < su := by have := mem_range.mp ha; omega
        rw [hrow _ ha', (hY _ ha').2.2 j hj c hc]
      rw [sum_congr rfl hstep,
        ← curvePointAt_sum pu Uu (colsU.getD j []) ku (uk.getD i 0) d c hs1 (by rw [(hX j hj).1]; exact hs2) (hX j hj).2.1]
      exact (hX j hj).2.2 i hi c hc

/-- shape of the result: the two averaged knot vectors and `su · sv` control points -/
theorem interpolateSurface_shape (pu pv su sv : ℕ) (pts : List (List K)) (cdsU cdsV : List (List K))
    (invpu invpv : K) (kvu kvv : List K) (cp : List (List K))
    (h : interpolateSurface pu pv su sv pts cdsU cdsV invpu invpv = some (kvu, kvv, cp)) :
    kvu = computeKnotVector pu su (averageParams cdsU su) invpu ∧
    kvv = computeKnotVector pv sv (averageParams cdsV sv) invpv ∧ cp.length = su * sv := by
  unfold interpolateSurface at h
  simp only [] at h
  split at h
  · exact absurd h (by simp)
  · split at h
    · exact absurd h (by simp)
    · rename_i rows hV
      injection h with h'
      injection h' with hkvu h''
      injection h'' with hkvv hcp
      subst hkvu; subst hkvv; subst hcp
      refine ⟨rfl, rfl, ?_⟩
      obtain ⟨hrl, hrsol⟩ := allSome_map_range su _ rows hV
      have hrowsl : ∀ l ∈ rows, l.length = sv := by
        intro l hl
        obtain ⟨u', hu', rfl⟩ := List.getElem_of_mem hl
        have := (luSolve_shape _ _ _ (hrsol [] u' (by omega))).1
        rw [List.getD_eq_getElem?_getD, List.getElem?_eq_getElem hu', Option.getD_some] at this
        simpa using this
      rw [flatten_length_const sv rows hrowsl, hrl, Nat.mul_comm]

end Geomdl
