import NurbsVerif.Model.Basis
import NurbsVerif.Lemmas.BasisSum
import NurbsVerif.Lemmas.Diag
import NurbsVerif.Lemmas.CoxDeBoor
import Mathlib.Algebra.Order.Field.Basic
import Mathlib.Order.Monotone.Basic
import Mathlib.Tactic.Linarith

/-! Partition of unity, non-negativity of the A2.2 model on a valid span; span search. -/
namespace Geomdl
open Blossom
variable {K : Type} [Field K] [LinearOrder K] [IsStrictOrderedRing K]

/-- `u` lies in the non-empty knot interval `[U k, U (k+1)]` of a non-decreasing knot function
    (closed on the right: the domain end is evaluated on the last non-empty span) -/
structure SpanOk (U : ℕ → K) (k : ℕ) (u : K) : Prop where
  mono : Monotone U
  lo : U k ≤ u
  hi : u ≤ U (k+1)
  nonempty : U k < U (k+1)

theorem left_nonneg {U : ℕ → K} {k : ℕ} {u : K} (h : SpanOk U k u) (j : ℕ) (hj : 1 ≤ j) : 0 ≤ left U k u j := by
  unfold left
  have : U (k + 1 - j) ≤ U k := h.mono (by omega)
  linarith [h.lo]

theorem right_nonneg {U : ℕ → K} {k : ℕ} {u : K} (h : SpanOk U k u) (j : ℕ) (hj : 1 ≤ j) : 0 ≤ right U k u j := by
  unfold right
  have : U (k + 1) ≤ U (k + j) := h.mono (by omega)
  linarith [h.hi]

theorem den_pos {U : ℕ → K} {k : ℕ} {u : K} (h : SpanOk U k u) (a b : ℕ) (ha : 1 ≤ a) (hb : 1 ≤ b) :
    0 < right U k u a + left U k u b := by
  unfold left right
  have h1 : U (k + 1) ≤ U (k + a) := h.mono (by omega)
  have h2 : U (k + 1 - b) ≤ U k := h.mono (by omega)
  linarith [h.nonempty]

/-- inner loop, non-negativity with hypotheses only on the indices actually used -/
theorem bfInner_nonneg' (L R : ℕ → K) (j : ℕ) (N : List K) : ∀ (r : ℕ) (s : K),
    0 ≤ s → (∀ x ∈ N, 0 ≤ x) → r + N.length ≤ j →
    (∀ a, 1 ≤ a → a ≤ j → 0 ≤ L a) → (∀ a, 1 ≤ a → a ≤ j → 0 ≤ R a) →
    ∀ x ∈ bfInner L R j r N s, 0 ≤ x := by
  induction N with
  | nil => intro r s hs _ _ _ _ x hx; simp [bfInner] at hx; simpa [hx] using hs
  | cons n ns ih =>
    intro r s hs hN hlen hL hR x hx
    simp only [List.length_cons] at hlen
    simp only [bfInner, List.mem_cons] at hx
    have hn : 0 ≤ n := hN n (by simp)
    have hRr : 0 ≤ R (r+1) := hR _ (by omega) (by omega)
    have hLr : 0 ≤ L (j - r) := hL _ (by omega) (by omega)
    have ht : 0 ≤ n / (R (r+1) + L (j - r)) := div_nonneg hn (add_nonneg hRr hLr)
    rcases hx with hx | hx
    · rw [hx]; exact add_nonneg hs (mul_nonneg hRr ht)
    · exact ih (r+1) _ (mul_nonneg hLr ht) (fun y hy => hN y (by simp [hy])) (by omega) hL hR x hx

theorem basisFuns_nonneg (p : ℕ) {U : ℕ → K} {k : ℕ} {u : K} (h : SpanOk U k u) :
    ∀ x ∈ basisFuns p U k u, 0 ≤ x := by
  induction p with
  | zero => intro x hx; simp [basisFuns] at hx; simp [hx]
  | succ p ih =>
    rw [basisFuns_succ]
    unfold bfStep
    apply bfInner_nonneg' _ _ _ _ 0 0 (le_refl _) ih
    · rw [Blossom.basisFuns_length]; omega
    · intro a ha _; exact left_nonneg h a ha
    · intro a ha _; exact right_nonneg h a ha

theorem basisFuns_sum (p : ℕ) {U : ℕ → K} {k : ℕ} {u : K} (h : SpanOk U k u) :
    (basisFuns p U k u).sum = 1 := by
  induction p with
  | zero => simp [basisFuns]
  | succ p ih =>
    rw [basisFuns_succ]
    unfold bfStep
    rw [bfInner_sum, ih, zero_add]
    intro a ha
    rw [Blossom.basisFuns_length] at ha
    exact ne_of_gt (den_pos h _ _ (by omega) (by omega))

end Geomdl
