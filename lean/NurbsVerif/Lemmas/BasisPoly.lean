import NurbsVerif.Model.Basis
import Mathlib.Algebra.Polynomial.Derivative
import Mathlib.Algebra.Polynomial.FieldDivision
import Mathlib.Tactic.Ring
import Mathlib.Tactic.FieldSimp

open Polynomial Geomdl
variable {K : Type} [Field K]

/-- the model instantiated at `K[X]`: symbolic basis polynomials of a span -/
noncomputable def basisPoly (p : ℕ) (U : ℕ → K) (k : ℕ) : List K[X] :=
  basisFuns p (fun i => C (U i)) k (X : K[X])

/-- evaluation commutes with the inner loop when all denominators are non-zero constants -/
theorem eval_bfInner (u : K) (L R : ℕ → K[X]) (j : ℕ)
    (hden : ∀ r, ∃ d : K, d ≠ 0 ∧ R (r+1) + L (j - r) = C d) :
    ∀ (N : List K[X]) (r : ℕ) (s : K[X]),
      (bfInner L R j r N s).map (eval u)
        = bfInner (fun i => eval u (L i)) (fun i => eval u (R i)) j r (N.map (eval u)) (eval u s) := by
  intro N
  induction N with
  | nil => intro r s; simp [bfInner]
  | cons n ns ih =>
    intro r s
    obtain ⟨d, hd, he⟩ := hden r
    have hdiv : eval u (n / (R (r+1) + L (j - r))) = eval u n / (eval u (R (r+1)) + eval u (L (j - r))) := by
      rw [← eval_add, he, div_C, eval_mul, eval_C, eval_C, div_eq_mul_inv]
    simp only [bfInner, List.map_cons, eval_add, eval_mul, hdiv, ih]

