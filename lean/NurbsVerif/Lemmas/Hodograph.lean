import NurbsVerif.Model.Hodograph
import NurbsVerif.Lemmas.DerivAll
import NurbsVerif.Lemmas.Pieces
import NurbsVerif.Lemmas.Span

/-! The hodograph of a curve (`operations.derivative_curve`, model `derivativeCurve`): evaluated on the
    shifted span it is the first derivative of the curve. -/
namespace Geomdl
open Blossom Polynomial Finset
variable {K : Type} [Field K] [LinearOrder K] [IsStrictOrderedRing K]

/-- index shift of `knotvector[1:-1]`: inside the list, knot `i` of the hodograph is knot `i + 1` of the curve -/
theorem kvInner_get (U : List K) (i : ℕ) (hi : i + 2 < U.length) : fnOf (kvInner U) i = fnOf U (i + 1) := by
  unfold fnOf kvInner
  simp only [List.getD_eq_getElem?_getD, List.dropLast_eq_take, List.getElem?_take, List.length_drop,
    List.getElem?_drop]
  rw [if_pos (by omega), List.getElem?_eq_getElem (by omega : 1 + i < U.length),
    List.getElem?_eq_getElem (by omega : i + 1 < U.length)]
  simp [Nat.add_comm]

theorem kvInner_length (U : List K) : (kvInner U).length = U.length - 2 := by
  simp [kvInner]; omega

/-- the control points of the hodograph: `Q[m] = p (P[m+1] - P[m]) / (U[m+p+1] - U[m+1])` -/
theorem derivativeCurve_cpts (p : ℕ) (U : List K) (P : List (List K)) (hp1 : 1 ≤ p) :
    (derivativeCurve p U P).2.2
      = (List.range' 0 (P.length - 1)).map (fun m =>
          List.zipWith (fun e1 e2 => ((p : ℕ) : K) * (e1 - e2) / (fnOf U (m + p + 1) - fnOf U (m + 1)))
            (ptsGet P (m + 1)) (ptsGet P m)) := by
  have h0 : (derivativeCurve p U P).2.2
      = dcStep p (fnOf U) 0 1 0 ((List.range' 0 (P.length - 1 + 1)).map (fun i => ptsGet P (0 + i))) := by
    simp [derivativeCurve, curveDerivCpts, List.range'_succ, List.range_eq_range']
  rw [h0, dcStep_map p (fnOf U) 0 1 (fun i => ptsGet P (0 + i)) (P.length - 1) 0]
  apply List.map_congr_left
  intro m _
  have e1 : p - 1 + 1 = p := by omega
  simp only [Nat.zero_add, e1]

theorem derivativeCurve_cpts_length (p : ℕ) (U : List K) (P : List (List K)) (hp1 : 1 ≤ p) :
    (derivativeCurve p U P).2.2.length = P.length - 1 := by
  rw [derivativeCurve_cpts p U P hp1]; simp

theorem ptsGet_map_range' (f : ℕ → List K) (n m : ℕ) (hm : m < n) :
    ptsGet ((List.range' 0 n).map f) m = f m := by
  unfold ptsGet
  simp only [List.getD_eq_getElem?_getD, List.getElem?_map]
  rw [List.getElem?_range' (by omega)]
  simp

theorem derivativeCurve_get (p : ℕ) (U : List K) (P : List (List K)) (hp1 : 1 ≤ p) (m : ℕ) (hm : m + 1 < P.length) :
    ptsGet (derivativeCurve p U P).2.2 m
      = List.zipWith (fun e1 e2 => ((p : ℕ) : K) * (e1 - e2) / (fnOf U (m + p + 1) - fnOf U (m + 1)))
            (ptsGet P (m + 1)) (ptsGet P m) := by
  rw [derivativeCurve_cpts p U P hp1]
  exact ptsGet_map_range' _ (P.length - 1) m (by omega)

/-- row 1 of the A3.3/A3.4 model on the span `κ` -/
theorem curveDersAt_row_one (p : ℕ) (U : ℕ → K) (P : List (List K)) (κ : ℕ) (u : K) (d : ℕ)
    (hp1 : 1 ≤ p) (hp : p ≤ κ) (hκ : κ < P.length) (hP : NetOk d P) :
    (curveDersAt p U P κ u 1).getD 1 []
      = linComb d (basisFuns (p - 1) U κ u) ((List.range' 0 p).map (fun i =>
          List.zipWith (fun e1 e2 => ((p : ℕ) : K) * (e1 - e2) / (U (κ - p + i + p + 1) - U (κ - p + i + 1)))
            (ptsGet P (κ - p + (i + 1))) (ptsGet P (κ - p + i)))) := by
  have hmin : min p 1 = 1 := by omega
  have hPK : (curveDersAt p U P κ u 1).getD 1 []
      = linComb d (basisFuns (p - 1) U κ u)
          (dcStep p U (κ - p) 1 0 ((List.range (κ - (κ - p) + 1)).map (fun i => ptsGet P (κ - p + i)))) := by
    unfold curveDersAt
    simp only [hmin, List.getD_eq_getElem?_getD, List.getElem?_map]
    rw [List.getElem?_range (by omega)]
    simp only [Option.map_some, Option.getD_some, le_refl, if_true]
    rw [dimOf_eq hP (by omega)]
    simp [curveDerivCpts, List.range'_succ]
  rw [hPK]
  have hrange : κ - (κ - p) + 1 = (p - 1 + 1) + 1 := by omega
  rw [hrange, List.range_eq_range', dcStep_map p U (κ - p) 1 (fun i => ptsGet P (κ - p + i)) (p - 1 + 1) 0]
  have e1 : p - 1 + 1 = p := by omega
  simp only [e1]

/-- **the hodograph on the shifted span is row 1 of the derivative table**: evaluating the curve built by
    `derivative_curve` (degree `p - 1`, knot vector `U[1:-1]`, control points `PK[1]`) at `u` on the span
    `κ - 1` gives the vector `Curve.derivatives(u, 1)[1]` of the original curve on the span `κ` -/
theorem hodograph_point_eq (p : ℕ) (U : List K) (P : List (List K)) (κ : ℕ) (u : K) (d : ℕ)
    (hp1 : 1 ≤ p) (hp : p ≤ κ) (hκ : κ < P.length) (hU : U.length = P.length + p + 1) (hP : NetOk d P) :
    curvePointAt (derivativeCurve p U P).1 (fnOf (derivativeCurve p U P).2.1) (derivativeCurve p U P).2.2 (κ - 1) u
      = (curveDersAt p (fnOf U) P κ u 1).getD 1 [] := by
  rw [curveDersAt_row_one p (fnOf U) P κ u d hp1 hp hκ hP]
  have hdeg : (derivativeCurve p U P).1 = p - 1 := rfl
  have hkv : (derivativeCurve p U P).2.1 = kvInner U := rfl
  rw [hdeg, hkv]
  unfold curvePointAt
  -- the basis functions: shifted knots, shifted span
  have hN : basisFuns (p - 1) (fnOf (kvInner U)) (κ - 1) u = basisFuns (p - 1) (fnOf U) κ u := by
    rw [basisFuns_congr (fnOf (kvInner U)) (fun i => fnOf U (i + 1)) (κ - 1) u (p - 1) (by omega)
      (fun i h1 h2 => kvInner_get U i (by omega)),
      basisFuns_shift (fnOf U) 1 (κ - 1) u (p - 1) (by omega), show κ - 1 + 1 = κ by omega]
  rw [hN]
  -- the dimension
  have hQ0 := derivativeCurve_get p U P hp1 0 (by omega)
  have hdim : dimOf (derivativeCurve p U P).2.2 = d := by
    have hlen := derivativeCurve_cpts_length p U P hp1
    have : (ptsGet (derivativeCurve p U P).2.2 0).length = d := by
      rw [hQ0]
      simp only [List.length_zipWith]
      rw [ptsGet_length hP _ (by omega), ptsGet_length hP _ (by omega)]; simp
    unfold dimOf
    unfold ptsGet at this
    cases hq : (derivativeCurve p U P).2.2 with
    | nil => rw [hq] at hlen; simp at hlen; omega
    | cons a as => rw [hq] at this; simpa using this
  rw [hdim]
  congr 1
  rw [show p - 1 + 1 = p by omega, List.range_eq_range']
  apply List.map_congr_left
  intro i hi
  simp only [List.mem_range'_1] at hi
  rw [derivativeCurve_get p U P hp1 _ (by omega)]
  have e1 : κ - 1 - (p - 1) + i + 1 = κ - p + (i + 1) := by omega
  have e2 : κ - 1 - (p - 1) + i = κ - p + i := by omega
  have e3 : κ - 1 - (p - 1) + i + p + 1 = κ - p + i + p + 1 := by omega
  have e4 : κ - p + (i + 1) = κ - p + i + 1 := by omega
  rw [e3, e1, e2, e4]

/-- **the hodograph is the first derivative**: coordinate `j` of the hodograph curve evaluated at `u` on the
    shifted span is the derivative of the span polynomial of the original curve at `u` -/
theorem hodograph_true (p : ℕ) (U : List K) (P : List (List K)) (κ : ℕ) (u : K) (d j : ℕ)
    (hp1 : 1 ≤ p) (hp : p ≤ κ) (hκ : κ < P.length) (hU : U.length = P.length + p + 1) (hP : NetOk d P)
    (hm : Monotone (fnOf U)) (hspan : fnOf U κ < fnOf U (κ+1)) :
    (curvePointAt (derivativeCurve p U P).1 (fnOf (derivativeCurve p U P).2.1) (derivativeCurve p U P).2.2 (κ - 1) u).getD j 0
      = eval u (derivative (spanPoly p (fnOf U) P κ j)) := by
  rw [hodograph_point_eq p U P κ u d hp1 hp hκ hU hP]
  exact curveDersAt_one p (fnOf U) P κ u d j hp1 hp hκ hP hm hspan

/-! ### through the span search of the hodograph -/

/-- the linear span search on the shifted knot vector with one control point less runs in step with the
    search on the original one -/
theorem findSpanLinearAux_shift (U V : ℕ → K) (n : ℕ) (u : K) (hV : ∀ s, s + 1 < n → V s = U (s + 1)) :
    ∀ (fuel s : ℕ), findSpanLinearAux V (n - 1) u fuel s + 1 = findSpanLinearAux U n u fuel (s + 1) := by
  intro fuel
  induction fuel with
  | zero => intro s; rfl
  | succ fuel ih =>
    intro s
    simp only [findSpanLinearAux]
    by_cases hs : s + 1 < n
    · rw [hV s hs]
      by_cases hc : U (s + 1) ≤ u
      · rw [if_pos ⟨by omega, hc⟩, if_pos ⟨hs, hc⟩, ih]
      · rw [if_neg (fun h => hc h.2), if_neg (fun h => hc h.2)]
    · rw [if_neg (fun h => hs (by omega)), if_neg (fun h => hs h.1)]

/-- more fuel than needed changes nothing -/
theorem findSpanLinearAux_fuel (U : ℕ → K) (n : ℕ) (u : K) : ∀ (fuel s : ℕ), n - s ≤ fuel →
    findSpanLinearAux U n u (fuel + 1) s = findSpanLinearAux U n u fuel s := by
  intro fuel
  induction fuel with
  | zero =>
    intro s h
    simp only [findSpanLinearAux]
    rw [if_neg (fun hc => by omega)]
  | succ fuel ih =>
    intro s h
    conv_lhs => rw [findSpanLinearAux]
    conv_rhs => rw [findSpanLinearAux]
    by_cases hc : s < n ∧ U s ≤ u
    · rw [if_pos hc, if_pos hc, ih (s + 1) (by omega)]
    · rw [if_neg hc, if_neg hc]

/-- **the span the hodograph's own search finds is the span of the curve, minus one** -/
theorem hodograph_span (p : ℕ) (U : List K) (n : ℕ) (u : K) (hp1 : 1 ≤ p) (hpn : p + 1 ≤ n)
    (hU : U.length = n + p + 1) :
    findSpanLinear (p - 1) (fnOf (kvInner U)) (n - 1) u = findSpanLinear p (fnOf U) n u - 1 := by
  unfold findSpanLinear
  have h1 := findSpanLinearAux_shift (fnOf U) (fnOf (kvInner U)) n u
    (fun s hs => kvInner_get U s (by omega)) n p
  have h2 := findSpanLinearAux_fuel (fnOf U) n u n (p + 1) (by omega)
  rw [show n - 1 + 1 = n by omega, show p - 1 + 1 = p by omega, h2]
  omega

/-- **the hodograph curve, evaluated the way the library evaluates a curve (span search included), is the
    first derivative**: coordinate `j` of `curvePoint` of the data returned by `derivative_curve` is the
    derivative of the span polynomial of the span `κ` that the search finds for the original curve -/
theorem hodograph_curvePoint_true (p : ℕ) (U : List K) (P : List (List K)) (u : K) (d j : ℕ)
    (hp1 : 1 ≤ p) (hpn : p + 1 ≤ P.length) (hU : U.length = P.length + p + 1) (hP : NetOk d P)
    (hm : Monotone (fnOf U)) (hlo : fnOf U p ≤ u)
    (hspan : fnOf U (findSpanLinear p (fnOf U) P.length u) < fnOf U (findSpanLinear p (fnOf U) P.length u + 1)) :
    (curvePoint (derivativeCurve p U P).1 (fnOf (derivativeCurve p U P).2.1) (derivativeCurve p U P).2.2 u).getD j 0
      = eval u (derivative (spanPoly p (fnOf U) P (findSpanLinear p (fnOf U) P.length u) j)) := by
  obtain ⟨hk1, hk2, _, _⟩ := findSpanLinear_spec p (fnOf U) P.length u hpn hm hlo
  unfold curvePoint
  rw [derivativeCurve_cpts_length p U P hp1]
  have hdeg : (derivativeCurve p U P).1 = p - 1 := rfl
  have hkv : (derivativeCurve p U P).2.1 = kvInner U := rfl
  rw [hdeg, hkv, hodograph_span p U P.length u hp1 hpn hU]
  exact hodograph_true p U P _ u d j hp1 hk1 hk2 hU hP hm hspan

end Geomdl
