import NurbsVerif.Lemmas.VolLiftMap

/-! Knot insertion on volumes: the per-direction gather / scatter `mapVol dir` of
    `operations.insert_knot` preserves every volume point, in each of the three directions. -/
namespace Geomdl
open Blossom Finset
variable {K : Type} [Field K] [LinearOrder K] [IsStrictOrderedRing K]

/-- the net returned by `mapVol 0` with A5.1 on every u-directional iso-curve -/
theorem mapVol0_insert_spec (su sv sw d r pu : ℕ) (U : ℕ → K) (P : List (List K)) (ub : K) (s k : ℕ)
    (hP : NetOk d P) (hlen : P.length = su * sv * sw) (hsv : 0 < sv) (hsw : 0 < sw)
    (hpk : pu ≤ k) (hk : k < su) (hrs : r + s ≤ pu) :
    (mapVol 0 su sv sw P (fun c => knotInsertion pu U c ub r s k)).2 = su + r ∧
    (mapVol 0 su sv sw P (fun c => knotInsertion pu U c ub r s k)).1.length = (su + r) * sv * sw ∧
    NetOk d (mapVol 0 su sv sw P (fun c => knotInsertion pu U c ub r s k)).1 ∧
    ∀ y z, y < sv → z < sw →
      lineU (su + r) sv (mapVol 0 su sv sw P (fun c => knotInsertion pu U c ub r s k)).1 y z
        = knotInsertion pu U (lineU su sv P y z) ub r s k :=
  mapVol0_spec su sv sw d (su + r) P _ hsv hsw
    (fun y z _ _ => by rw [knotInsertion_length, lineU_length])
    (fun y z hy hz => knotInsertion_netOk pu U _ ub r s k d (lineU_netOk su sv sw d P hP hlen y z hy hz) hpk
      (by rw [lineU_length]; exact hk) hrs (by omega))

theorem mapVol1_insert_spec (su sv sw d r pv : ℕ) (U : ℕ → K) (P : List (List K)) (ub : K) (s k : ℕ)
    (hP : NetOk d P) (hlen : P.length = su * sv * sw) (hsu : 0 < su) (hsw : 0 < sw)
    (hpk : pv ≤ k) (hk : k < sv) (hrs : r + s ≤ pv) :
    (mapVol 1 su sv sw P (fun c => knotInsertion pv U c ub r s k)).2 = sv + r ∧
    (mapVol 1 su sv sw P (fun c => knotInsertion pv U c ub r s k)).1.length = su * (sv + r) * sw ∧
    NetOk d (mapVol 1 su sv sw P (fun c => knotInsertion pv U c ub r s k)).1 ∧
    ∀ x z, x < su → z < sw →
      lineV su (sv + r) (mapVol 1 su sv sw P (fun c => knotInsertion pv U c ub r s k)).1 x z
        = knotInsertion pv U (lineV su sv P x z) ub r s k :=
  mapVol1_spec su sv sw d (sv + r) P _ hsu hsw
    (fun x z _ _ => by rw [knotInsertion_length, lineV_length])
    (fun x z hx hz => knotInsertion_netOk pv U _ ub r s k d (lineV_netOk su sv sw d P hP hlen x z hx hz) hpk
      (by rw [lineV_length]; exact hk) hrs (by omega))

theorem mapVol2_insert_spec (su sv sw d r pw : ℕ) (U : ℕ → K) (P : List (List K)) (ub : K) (s k : ℕ)
    (hP : NetOk d P) (hlen : P.length = su * sv * sw) (hsu : 0 < su) (hsv : 0 < sv)
    (hpk : pw ≤ k) (hk : k < sw) (hrs : r + s ≤ pw) :
    (mapVol 2 su sv sw P (fun c => knotInsertion pw U c ub r s k)).2 = sw + r ∧
    (mapVol 2 su sv sw P (fun c => knotInsertion pw U c ub r s k)).1.length = su * sv * (sw + r) ∧
    NetOk d (mapVol 2 su sv sw P (fun c => knotInsertion pw U c ub r s k)).1 ∧
    ∀ x y, x < su → y < sv →
      lineW su sv (sw + r) (mapVol 2 su sv sw P (fun c => knotInsertion pw U c ub r s k)).1 x y
        = knotInsertion pw U (lineW su sv sw P x y) ub r s k :=
  mapVol2_spec su sv sw d (sw + r) P _ hsu hsv
    (fun x y _ _ => by rw [knotInsertion_length, lineW_length])
    (fun x y hx hy => knotInsertion_netOk pw U _ ub r s k d (lineW_netOk su sv sw d P hP hlen x y hx hy) hpk
      (by rw [lineW_length]; exact hk) hrs (by omega))

/-- **Knot insertion in the u direction never changes a volume point** (any degrees, sizes, prior
    multiplicity, count; spans of the evaluation parameters given) -/
theorem insertU_preserves_volume_point (pu pv pw : ℕ) (Uul : List K) (Uv Uw : ℕ → K) (su sv sw : ℕ) (P : List (List K))
    (ub u v w : K) (r s k kv kw κ κ' d j : ℕ) (hP : NetOk d P) (hlenP : P.length = su * sv * sw)
    (hm : Monotone (fnOf Uul)) (hlen : k + 1 < Uul.length)
    (hk1 : fnOf Uul k ≤ ub) (hk2 : ub < fnOf Uul (k+1))
    (hmult : ∀ x, k - s < x → x ≤ k → fnOf Uul x = ub)
    (hκ : fnOf Uul κ < fnOf Uul (κ+1))
    (hκ' : fnOf (knotInsertionKv Uul ub k r) κ' < fnOf (knotInsertionKv Uul ub k r) (κ'+1))
    (hr1 : 1 ≤ r) (hrs : r + s ≤ pu) (hpk : pu ≤ k) (hksu : k < su) (hpκ : pu ≤ κ) (hκsu : κ < su)
    (hpv : pv ≤ kv) (hkv : kv < sv) (hpw : pw ≤ kw) (hkw : kw < sw)
    (hcase : (κ' = κ ∧ κ ≤ k) ∨ (κ' = κ + r ∧ k ≤ κ)) :
    (volumePointAt pu pv pw (fnOf (knotInsertionKv Uul ub k r)) Uv Uw (su + r) sv
        (mapVol 0 su sv sw P (fun c => knotInsertion pu (fnOf Uul) c ub r s k)).1 κ' kv kw u v w).getD j 0
      = (volumePointAt pu pv pw (fnOf Uul) Uv Uw su sv P κ kv kw u v w).getD j 0 := by
  obtain ⟨_, hQlen, hQ, hQlines⟩ := mapVol0_insert_spec su sv sw d r pu (fnOf Uul) P ub s k hP hlenP (by omega) (by omega) hpk hksu hrs
  have hκ'lt : κ' < su + r := by rcases hcase with ⟨h, _⟩ | ⟨h, _⟩ <;> omega
  have hpκ' : pu ≤ κ' := by rcases hcase with ⟨h, _⟩ | ⟨h, _⟩ <;> omega
  apply volumePointAt_liftU pu pv pw (fnOf Uul) _ Uv Uw su (su + r) sv sw P _ κ κ' kv kw u v w d j
    hpκ hpv hpw hκsu hkv hkw hpκ' hκ'lt hlenP hP hQlen hQ
  intro b c hb hc
  rw [hQlines (kv - pv + b) (kw - pw + c) (by omega) (by omega)]
  have hl := lineU_netOk su sv sw d P hP hlenP (kv - pv + b) (kw - pw + c) (by omega) (by omega)
  exact knotInsertion_preserves_point pu Uul _ ub u r s k κ κ' d j hl hm hlen hk1 hk2 hmult
    hκ hκ' hr1 hrs hpk (by rw [lineU_length]; exact hksu) hpκ (by rw [lineU_length]; exact hκsu) hcase

/-- **Knot insertion in the v direction never changes a volume point** -/
theorem insertV_preserves_volume_point (pu pv pw : ℕ) (Uu : ℕ → K) (Uvl : List K) (Uw : ℕ → K) (su sv sw : ℕ) (P : List (List K))
    (ub u v w : K) (r s k ku kw κ κ' d j : ℕ) (hP : NetOk d P) (hlenP : P.length = su * sv * sw)
    (hm : Monotone (fnOf Uvl)) (hlen : k + 1 < Uvl.length)
    (hk1 : fnOf Uvl k ≤ ub) (hk2 : ub < fnOf Uvl (k+1))
    (hmult : ∀ x, k - s < x → x ≤ k → fnOf Uvl x = ub)
    (hκ : fnOf Uvl κ < fnOf Uvl (κ+1))
    (hκ' : fnOf (knotInsertionKv Uvl ub k r) κ' < fnOf (knotInsertionKv Uvl ub k r) (κ'+1))
    (hr1 : 1 ≤ r) (hrs : r + s ≤ pv) (hpk : pv ≤ k) (hksv : k < sv) (hpκ : pv ≤ κ) (hκsv : κ < sv)
    (hpu : pu ≤ ku) (hku : ku < su) (hpw : pw ≤ kw) (hkw : kw < sw)
    (hcase : (κ' = κ ∧ κ ≤ k) ∨ (κ' = κ + r ∧ k ≤ κ)) :
    (volumePointAt pu pv pw Uu (fnOf (knotInsertionKv Uvl ub k r)) Uw su (sv + r)
        (mapVol 1 su sv sw P (fun c => knotInsertion pv (fnOf Uvl) c ub r s k)).1 ku κ' kw u v w).getD j 0
      = (volumePointAt pu pv pw Uu (fnOf Uvl) Uw su sv P ku κ kw u v w).getD j 0 := by
  obtain ⟨_, hQlen, hQ, hQlines⟩ := mapVol1_insert_spec su sv sw d r pv (fnOf Uvl) P ub s k hP hlenP (by omega) (by omega) hpk hksv hrs
  have hκ'lt : κ' < sv + r := by rcases hcase with ⟨h, _⟩ | ⟨h, _⟩ <;> omega
  have hpκ' : pv ≤ κ' := by rcases hcase with ⟨h, _⟩ | ⟨h, _⟩ <;> omega
  apply volumePointAt_liftV pu pv pw Uu (fnOf Uvl) _ Uw su sv (sv + r) sw P _ ku κ κ' kw u v w d j
    hpu hpκ hpw hku hκsv hkw hpκ' hκ'lt hlenP hP hQlen hQ
  intro a c ha hc
  rw [hQlines (ku - pu + a) (kw - pw + c) (by omega) (by omega)]
  have hl := lineV_netOk su sv sw d P hP hlenP (ku - pu + a) (kw - pw + c) (by omega) (by omega)
  exact knotInsertion_preserves_point pv Uvl _ ub v r s k κ κ' d j hl hm hlen hk1 hk2 hmult
    hκ hκ' hr1 hrs hpk (by rw [lineV_length]; exact hksv) hpκ (by rw [lineV_length]; exact hκsv) hcase

/-- **Knot insertion in the w direction never changes a volume point** -/
theorem insertW_preserves_volume_point (pu pv pw : ℕ) (Uu Uv : ℕ → K) (Uwl : List K) (su sv sw : ℕ) (P : List (List K))
    (ub u v w : K) (r s k ku kv κ κ' d j : ℕ) (hP : NetOk d P) (hlenP : P.length = su * sv * sw)
    (hm : Monotone (fnOf Uwl)) (hlen : k + 1 < Uwl.length)
    (hk1 : fnOf Uwl k ≤ ub) (hk2 : ub < fnOf Uwl (k+1))
    (hmult : ∀ x, k - s < x → x ≤ k → fnOf Uwl x = ub)
    (hκ : fnOf Uwl κ < fnOf Uwl (κ+1))
    (hκ' : fnOf (knotInsertionKv Uwl ub k r) κ' < fnOf (knotInsertionKv Uwl ub k r) (κ'+1))
    (hr1 : 1 ≤ r) (hrs : r + s ≤ pw) (hpk : pw ≤ k) (hksw : k < sw) (hpκ : pw ≤ κ) (hκsw : κ < sw)
    (hpu : pu ≤ ku) (hku : ku < su) (hpv : pv ≤ kv) (hkv : kv < sv)
    (hcase : (κ' = κ ∧ κ ≤ k) ∨ (κ' = κ + r ∧ k ≤ κ)) :
    (volumePointAt pu pv pw Uu Uv (fnOf (knotInsertionKv Uwl ub k r)) su sv
        (mapVol 2 su sv sw P (fun c => knotInsertion pw (fnOf Uwl) c ub r s k)).1 ku kv κ' u v w).getD j 0
      = (volumePointAt pu pv pw Uu Uv (fnOf Uwl) su sv P ku kv κ u v w).getD j 0 := by
  obtain ⟨_, hQlen, hQ, hQlines⟩ := mapVol2_insert_spec su sv sw d r pw (fnOf Uwl) P ub s k hP hlenP (by omega) (by omega) hpk hksw hrs
  have hκ'lt : κ' < sw + r := by rcases hcase with ⟨h, _⟩ | ⟨h, _⟩ <;> omega
  have hpκ' : pw ≤ κ' := by rcases hcase with ⟨h, _⟩ | ⟨h, _⟩ <;> omega
  apply volumePointAt_liftW pu pv pw Uu Uv (fnOf Uwl) _ su sv sw (sw + r) P _ ku kv κ κ' u v w d j
    hpu hpv hpκ hku hkv hκsw hpκ' hκ'lt hlenP hP hQlen hQ
  intro a b ha hb
  rw [hQlines (ku - pu + a) (kv - pv + b) (by omega) (by omega)]
  have hl := lineW_netOk su sv sw d P hP hlenP (ku - pu + a) (kv - pv + b) (by omega) (by omega)
  exact knotInsertion_preserves_point pw Uwl _ ub w r s k κ κ' d j hl hm hlen hk1 hk2 hmult
    hκ hκ' hr1 hrs hpk (by rw [lineW_length]; exact hksw) hpκ (by rw [lineW_length]; exact hκsw) hcase

/-! ### whole points (all coordinates, the weight coordinate of homogeneous points included) -/

theorem list_eq_of_getD_all {a b : List K} (d : ℕ) (ha : a.length = d) (hb : b.length = d)
    (h : ∀ j, a.getD j 0 = b.getD j 0) : a = b := by
  apply List.ext_getElem (by rw [ha, hb])
  intro i h1 h2
  have := h i
  rw [List.getD_eq_getElem?_getD, List.getD_eq_getElem?_getD, List.getElem?_eq_getElem h1,
    List.getElem?_eq_getElem h2] at this
  simpa using this

theorem insertU_preserves_volume_point_eq (pu pv pw : ℕ) (Uul : List K) (Uv Uw : ℕ → K) (su sv sw : ℕ) (P : List (List K))
    (ub u v w : K) (r s k kv kw κ κ' d : ℕ) (hP : NetOk d P) (hlenP : P.length = su * sv * sw)
    (hm : Monotone (fnOf Uul)) (hlen : k + 1 < Uul.length)
    (hk1 : fnOf Uul k ≤ ub) (hk2 : ub < fnOf Uul (k+1))
    (hmult : ∀ x, k - s < x → x ≤ k → fnOf Uul x = ub)
    (hκ : fnOf Uul κ < fnOf Uul (κ+1))
    (hκ' : fnOf (knotInsertionKv Uul ub k r) κ' < fnOf (knotInsertionKv Uul ub k r) (κ'+1))
    (hr1 : 1 ≤ r) (hrs : r + s ≤ pu) (hpk : pu ≤ k) (hksu : k < su) (hpκ : pu ≤ κ) (hκsu : κ < su)
    (hpv : pv ≤ kv) (hkv : kv < sv) (hpw : pw ≤ kw) (hkw : kw < sw)
    (hcase : (κ' = κ ∧ κ ≤ k) ∨ (κ' = κ + r ∧ k ≤ κ)) :
    volumePointAt pu pv pw (fnOf (knotInsertionKv Uul ub k r)) Uv Uw (su + r) sv
        (mapVol 0 su sv sw P (fun c => knotInsertion pu (fnOf Uul) c ub r s k)).1 κ' kv kw u v w
      = volumePointAt pu pv pw (fnOf Uul) Uv Uw su sv P κ kv kw u v w := by
  obtain ⟨_, hQlen, hQ, _⟩ := mapVol0_insert_spec su sv sw d r pu (fnOf Uul) P ub s k hP hlenP (by omega) (by omega) hpk hksu hrs
  have hκ'lt : κ' < su + r := by rcases hcase with ⟨h, _⟩ | ⟨h, _⟩ <;> omega
  have hpκ' : pu ≤ κ' := by rcases hcase with ⟨h, _⟩ | ⟨h, _⟩ <;> omega
  exact list_eq_of_getD_all d
    (volumePointAt_length pu pv pw _ Uv Uw (su + r) sv sw _ κ' kv kw u v w d hpκ' hpv hpw hκ'lt hkv hkw hQlen hQ)
    (volumePointAt_length pu pv pw _ Uv Uw su sv sw P κ kv kw u v w d hpκ hpv hpw hκsu hkv hkw hlenP hP)
    (fun j => insertU_preserves_volume_point pu pv pw Uul Uv Uw su sv sw P ub u v w r s k kv kw κ κ' d j hP hlenP hm hlen
      hk1 hk2 hmult hκ hκ' hr1 hrs hpk hksu hpκ hκsu hpv hkv hpw hkw hcase)

theorem insertV_preserves_volume_point_eq (pu pv pw : ℕ) (Uu : ℕ → K) (Uvl : List K) (Uw : ℕ → K) (su sv sw : ℕ) (P : List (List K))
    (ub u v w : K) (r s k ku kw κ κ' d : ℕ) (hP : NetOk d P) (hlenP : P.length = su * sv * sw)
    (hm : Monotone (fnOf Uvl)) (hlen : k + 1 < Uvl.length)
    (hk1 : fnOf Uvl k ≤ ub) (hk2 : ub < fnOf Uvl (k+1))
    (hmult : ∀ x, k - s < x → x ≤ k → fnOf Uvl x = ub)
    (hκ : fnOf Uvl κ < fnOf Uvl (κ+1))
    (hκ' : fnOf (knotInsertionKv Uvl ub k r) κ' < fnOf (knotInsertionKv Uvl ub k r) (κ'+1))
    (hr1 : 1 ≤ r) (hrs : r + s ≤ pv) (hpk : pv ≤ k) (hksv : k < sv) (hpκ : pv ≤ κ) (hκsv : κ < sv)
    (hpu : pu ≤ ku) (hku : ku < su) (hpw : pw ≤ kw) (hkw : kw < sw)
    (hcase : (κ' = κ ∧ κ ≤ k) ∨ (κ' = κ + r ∧ k ≤ κ)) :
    volumePointAt pu pv pw Uu (fnOf (knotInsertionKv Uvl ub k r)) Uw su (sv + r)
        (mapVol 1 su sv sw P (fun c => knotInsertion pv (fnOf Uvl) c ub r s k)).1 ku κ' kw u v w
      = volumePointAt pu pv pw Uu (fnOf Uvl) Uw su sv P ku κ kw u v w := by
  obtain ⟨_, hQlen, hQ, _⟩ := mapVol1_insert_spec su sv sw d r pv (fnOf Uvl) P ub s k hP hlenP (by omega) (by omega) hpk hksv hrs
  have hκ'lt : κ' < sv + r := by rcases hcase with ⟨h, _⟩ | ⟨h, _⟩ <;> omega
  have hpκ' : pv ≤ κ' := by rcases hcase with ⟨h, _⟩ | ⟨h, _⟩ <;> omega
  exact list_eq_of_getD_all d
    (volumePointAt_length pu pv pw Uu _ Uw su (sv + r) sw _ ku κ' kw u v w d hpu hpκ' hpw hku hκ'lt hkw hQlen hQ)
    (volumePointAt_length pu pv pw Uu _ Uw su sv sw P ku κ kw u v w d hpu hpκ hpw hku hκsv hkw hlenP hP)
    (fun j => insertV_preserves_volume_point pu pv pw Uu Uvl Uw su sv sw P ub u v w r s k ku kw κ κ' d j hP hlenP hm hlen
      hk1 hk2 hmult hκ hκ' hr1 hrs hpk hksv hpκ hκsv hpu hku hpw hkw hcase)

theorem insertW_preserves_volume_point_eq (pu pv pw : ℕ) (Uu Uv : ℕ → K) (Uwl : List K) (su sv sw : ℕ) (P : List (List K))
    (ub u v w : K) (r s k ku kv κ κ' d : ℕ) (hP : NetOk d P) (hlenP : P.length = su * sv * sw)
    (hm : Monotone (fnOf Uwl)) (hlen : k + 1 < Uwl.length)
    (hk1 : fnOf Uwl k ≤ ub) (hk2 : ub < fnOf Uwl (k+1))
    (hmult : ∀ x, k - s < x → x ≤ k → fnOf Uwl x = ub)
    (hκ : fnOf Uwl κ < fnOf Uwl (κ+1))
    (hκ' : fnOf (knotInsertionKv Uwl ub k r) κ' < fnOf (knotInsertionKv Uwl ub k r) (κ'+1))
    (hr1 : 1 ≤ r) (hrs : r + s ≤ pw) (hpk : pw ≤ k) (hksw : k < sw) (hpκ : pw ≤ κ) (hκsw : κ < sw)
    (hpu : pu ≤ ku) (hku : ku < su) (hpv : pv ≤ kv) (hkv : kv < sv)
    (hcase : (κ' = κ ∧ κ ≤ k) ∨ (κ' = κ + r ∧ k ≤ κ)) :
    volumePointAt pu pv pw Uu Uv (fnOf (knotInsertionKv Uwl ub k r)) su sv
        (mapVol 2 su sv sw P (fun c => knotInsertion pw (fnOf Uwl) c ub r s k)).1 ku kv κ' u v w
      = volumePointAt pu pv pw Uu Uv (fnOf Uwl) su sv P ku kv κ u v w := by
  obtain ⟨_, hQlen, hQ, _⟩ := mapVol2_insert_spec su sv sw d r pw (fnOf Uwl) P ub s k hP hlenP (by omega) (by omega) hpk hksw hrs
  have hκ'lt : κ' < sw + r := by rcases hcase with ⟨h, _⟩ | ⟨h, _⟩ <;> omega
  have hpκ' : pw ≤ κ' := by rcases hcase with ⟨h, _⟩ | ⟨h, _⟩ <;> omega
  exact list_eq_of_getD_all d
    (volumePointAt_length pu pv pw Uu Uv _ su sv (sw + r) _ ku kv κ' u v w d hpu hpv hpκ' hku hkv hκ'lt hQlen hQ)
    (volumePointAt_length pu pv pw Uu Uv _ su sv sw P ku kv κ u v w d hpu hpv hpκ hku hkv hκsw hlenP hP)
    (fun j => insertW_preserves_volume_point pu pv pw Uu Uv Uwl su sv sw P ub u v w r s k ku kv κ κ' d j hP hlenP hm hlen
      hk1 hk2 hmult hκ hκ' hr1 hrs hpk hksw hpκ hκsw hpu hku hpv hkv hcase)

end Geomdl
