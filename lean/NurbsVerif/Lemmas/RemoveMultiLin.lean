import NurbsVerif.Lemmas.InsertModel
import NurbsVerif.Lemmas.RemoveInvVec
import NurbsVerif.Lemmas.VolLiftInsert

/-!
  C06 / C04, several directions in one call, part 1: knot insertion is a LINEAR map of the control polygon whose
  coefficients depend on the knots only (`CoordLin`: every coordinate of every new point is a fixed linear
  combination of the same coordinate of the old points), and two such maps applied along DIFFERENT index
  directions of a table of points commute (`lin_comm`, the kernel of all the gather / scatter commutations).
-/
namespace Geomdl
namespace Multi
open Blossom Finset
set_option linter.unusedSectionVars false
variable {K : Type} [Field K] [LinearOrder K] [IsStrictOrderedRing K]

/-! ### `Qcode` (A5.1 on one coordinate) is linear and local in the control function -/

theorem tempStep_getD (U : ℕ → K) (u : K) (k p s j : ℕ) (temp : List K) (i : ℕ) :
    (tempStep U u k p s j temp).getD i 0 =
      if i < p - j - s + 1 then
        Blossom.insAlpha U u k i (k - p + j) * temp.getD (i+1) 0 + (1 - Blossom.insAlpha U u k i (k - p + j)) * temp.getD i 0
      else temp.getD i 0 := by
  unfold tempStep
  by_cases h : i < p - j - s + 1
  · rw [if_pos h, List.getD_append _ _ _ _ (by simpa using h)]
    simp [List.getD_eq_getElem?_getD, List.getElem?_range h]
  · rw [if_neg h, List.getD_append_right _ _ _ _ (by simpa using h)]
    simp only [List.length_map, List.length_range, List.getD_eq_getElem?_getD, List.getElem?_drop]
    rw [show p - j - s + 1 + (i - (p - j - s + 1)) = i by omega]

theorem tempInit_getD (c : ℕ → K) (k p s i : ℕ) :
    (tempInit c k p s).getD i 0 = if i < p - s + 1 then c (k - p + i) else 0 := by
  unfold tempInit
  by_cases h : i < p - s + 1
  · simp [List.getD_eq_getElem?_getD, h]
  · rw [if_neg h, List.getD_eq_default _ _ (by simpa using h)]

theorem tempAt_lin (U : ℕ → K) (u a b : K) (c c' : ℕ → K) (k p s : ℕ) : ∀ lv i,
    (tempAt U u (fun x => a * c x + b * c' x) k p s lv).getD i 0
      = a * (tempAt U u c k p s lv).getD i 0 + b * (tempAt U u c' k p s lv).getD i 0 := by
  intro lv
  induction lv with
  | zero =>
    intro i
    simp only [tempAt, tempInit_getD]
    split <;> ring
  | succ lv ih =>
    intro i
    simp only [tempAt, tempStep_getD]
    split
    · rw [ih, ih]; ring
    · rw [ih]

theorem tempAt_congr (U : ℕ → K) (u : K) (c c' : ℕ → K) (k p s : ℕ) (hpk : p ≤ k) (h : ∀ x, x ≤ k → c x = c' x) :
    ∀ lv, tempAt U u c k p s lv = tempAt U u c' k p s lv := by
  intro lv
  induction lv with
  | zero =>
    simp only [tempAt, tempInit]
    apply List.map_congr_left
    intro i hi
    rw [List.mem_range] at hi
    exact h _ (by omega)
  | succ lv ih => simp only [tempAt, ih]

theorem Qcode_lin (U : ℕ → K) (u a b : K) (c c' : ℕ → K) (k p s r i : ℕ) :
    Qcode U u (fun x => a * c x + b * c' x) k p s r i = a * Qcode U u c k p s r i + b * Qcode U u c' k p s r i := by
  unfold Qcode
  split
  · rfl
  · split
    · exact tempAt_lin U u a b c c' k p s _ _
    · split
      · exact tempAt_lin U u a b c c' k p s _ _
      · split
        · exact tempAt_lin U u a b c c' k p s _ _
        · rfl

theorem Qcode_congr (U : ℕ → K) (u : K) (c c' : ℕ → K) (k p s r n i : ℕ) (hpk : p ≤ k) (hk : k < n)
    (hi : i < n + r) (h : ∀ x, x < n → c x = c' x) : Qcode U u c k p s r i = Qcode U u c' k p s r i := by
  have T := tempAt_congr U u c c' k p s hpk (fun x hx => h x (by omega))
  unfold Qcode
  split
  · exact h _ (by omega)
  · simp only [T]
    split
    · rfl
    · split
      · rfl
      · split
        · rfl
        · exact h _ (by omega)

/-- a functional that is linear and reads only the first `n` values is the sum of its values on the unit
    functions -/
theorem lin_repr (L : (ℕ → K) → K) (n : ℕ)
    (hlin : ∀ (a b : K) (c c' : ℕ → K), L (fun x => a * c x + b * c' x) = a * L c + b * L c')
    (hloc : ∀ c c' : ℕ → K, (∀ x, x < n → c x = c' x) → L c = L c') (c : ℕ → K) :
    L c = ∑ m ∈ range n, L (fun x => if x = m then 1 else 0) * c m := by
  have h0 : L (fun _ => 0) = 0 := by
    have := hlin 0 0 (fun _ => 0) (fun _ => 0)
    simpa using this
  have key : ∀ q, L (fun x => if x < q then c x else 0) = ∑ m ∈ range q, L (fun x => if x = m then 1 else 0) * c m := by
    intro q
    induction q with
    | zero => simpa using h0
    | succ q ih =>
      rw [sum_range_succ, ← ih]
      have := hlin 1 (c q) (fun x => if x < q then c x else 0) (fun x => if x = q then 1 else 0)
      rw [one_mul, mul_comm (c q)] at this
      rw [← this]
      congr 1
      funext x
      by_cases h1 : x < q
      · simp [h1, show x < q + 1 by omega, show x ≠ q by omega]
      · by_cases h2 : x = q
        · simp [h2]
        · simp [h1, h2, show ¬ x < q + 1 by omega]
  rw [← key n]
  apply hloc
  intro x hx
  simp [hx]

/-! ### coordinatewise linear maps of control polygons -/

/-- `f` maps polygons of `n` points of dimension `d` to polygons of `n'` points of dimension `d`, every coordinate of
    every new point being a fixed linear combination (matrix `A`, independent of the polygon and of the coordinate)
    of that coordinate of the old points -/
structure CoordLin (d n n' : ℕ) (f : List (List K) → List (List K)) : Prop where
  len : ∀ c : List (List K), c.length = n → NetOk d c → (f c).length = n'
  net : ∀ c : List (List K), c.length = n → NetOk d c → NetOk d (f c)
  lin : ∃ A : ℕ → ℕ → K, ∀ c : List (List K), c.length = n → NetOk d c → ∀ i, i < n' → ∀ l,
    (ptsGet (f c) i).getD l 0 = ∑ m ∈ range n, A i m * (ptsGet c m).getD l 0

/-- **A5.1 is coordinatewise linear** (`p ≤ k < n`, `r + s ≤ p`) -/
theorem knotInsertion_coordLin (p d n : ℕ) (U : ℕ → K) (u : K) (r s k : ℕ) (hpk : p ≤ k) (hk : k < n) (hrs : r + s ≤ p) :
    CoordLin d n (n + r) (fun c => knotInsertion p U c u r s k) := by
  refine ⟨?_, ?_, ?_⟩
  · intro c hc _
    rw [knotInsertion_length, hc]
  · intro c hc hnet
    exact knotInsertion_netOk p U c u r s k d hnet hpk (by rw [hc]; exact hk) hrs (by omega)
  · refine ⟨fun i m => Qcode U u (fun x => if x = m then 1 else 0) k p s r i, ?_⟩
    intro c hc hnet i hi l
    show (ptsGet (knotInsertion p U c u r s k) i).getD l 0 = _
    rw [knotInsertion_coord p U c u r s k d l hnet hpk (by rw [hc]; exact hk) hrs i (by rw [hc]; exact hi)]
    exact lin_repr (fun c => Qcode U u c k p s r i) n (fun a b c c' => Qcode_lin U u a b c c' k p s r i)
      (fun c c' h => Qcode_congr U u c c' k p s r n i hpk hk hi h) _

/-- **Two coordinatewise linear maps along different index directions of a table of points commute**: `X i j`
    (`i < n`, `j < m`) a table of points of dimension `d`; applying `f` to every column and then `g` to every row of
    the result gives, entry by entry, what applying `g` to every row and then `f` to every column gives. -/
theorem lin_comm (d n n' m m' : ℕ) (f g : List (List K) → List (List K)) (hf : CoordLin d n n' f) (hg : CoordLin d m m' g)
    (X : ℕ → ℕ → List K) (hX : ∀ i j, i < n → j < m → (X i j).length = d) (i' j' : ℕ) (hi' : i' < n') (hj' : j' < m') :
    ptsGet (g ((List.range m).map (fun j => ptsGet (f ((List.range n).map (fun i => X i j))) i'))) j'
      = ptsGet (f ((List.range n).map (fun i => ptsGet (g ((List.range m).map (fun j => X i j))) j'))) i' := by
  obtain ⟨A, hA⟩ := hf.lin
  obtain ⟨B, hB⟩ := hg.lin
  have hcol : ∀ j, j < m → ((List.range n).map (fun i => X i j)).length = n ∧ NetOk d ((List.range n).map (fun i => X i j)) := by
    intro j hj
    refine ⟨by simp, ?_⟩
    intro pt hpt
    simp only [List.mem_map, List.mem_range] at hpt
    obtain ⟨i, hi, rfl⟩ := hpt
    exact hX i j hi hj
  have hrow : ∀ i, i < n → ((List.range m).map (fun j => X i j)).length = m ∧ NetOk d ((List.range m).map (fun j => X i j)) := by
    intro i hi
    refine ⟨by simp, ?_⟩
    intro pt hpt
    simp only [List.mem_map, List.mem_range] at hpt
    obtain ⟨j, hj, rfl⟩ := hpt
    exact hX i j hi hj
  have hF : ((List.range m).map (fun j => ptsGet (f ((List.range n).map (fun i => X i j))) i')).length = m ∧
      NetOk d ((List.range m).map (fun j => ptsGet (f ((List.range n).map (fun i => X i j))) i')) := by
    refine ⟨by simp, ?_⟩
    intro pt hpt
    simp only [List.mem_map, List.mem_range] at hpt
    obtain ⟨j, hj, rfl⟩ := hpt
    exact ptsGet_length (hf.net _ (hcol j hj).1 (hcol j hj).2) _ (by rw [hf.len _ (hcol j hj).1 (hcol j hj).2]; exact hi')
  have hG : ((List.range n).map (fun i => ptsGet (g ((List.range m).map (fun j => X i j))) j')).length = n ∧
      NetOk d ((List.range n).map (fun i => ptsGet (g ((List.range m).map (fun j => X i j))) j')) := by
    refine ⟨by simp, ?_⟩
    intro pt hpt
    simp only [List.mem_map, List.mem_range] at hpt
    obtain ⟨i, hi, rfl⟩ := hpt
    exact ptsGet_length (hg.net _ (hrow i hi).1 (hrow i hi).2) _ (by rw [hg.len _ (hrow i hi).1 (hrow i hi).2]; exact hj')
  apply list_eq_of_getD_all d
  · exact ptsGet_length (hg.net _ hF.1 hF.2) _ (by rw [hg.len _ hF.1 hF.2]; exact hj')
  · exact ptsGet_length (hf.net _ hG.1 hG.2) _ (by rw [hf.len _ hG.1 hG.2]; exact hi')
  · intro l
    rw [hB _ hF.1 hF.2 j' hj' l, hA _ hG.1 hG.2 i' hi' l]
    have e1 : ∀ j ∈ range m, B j' j * (ptsGet ((List.range m).map (fun j => ptsGet (f ((List.range n).map (fun i => X i j))) i')) j).getD l 0
        = ∑ i ∈ range n, B j' j * (A i' i * (X i j).getD l 0) := by
      intro j hj
      rw [mem_range] at hj
      rw [RemInv.ptsGet_map_range _ _ _ hj, hA _ (hcol j hj).1 (hcol j hj).2 i' hi' l, mul_sum]
      apply sum_congr rfl
      intro i hi
      rw [mem_range] at hi
      rw [RemInv.ptsGet_map_range _ _ _ hi]
    have e2 : ∀ i ∈ range n, A i' i * (ptsGet ((List.range n).map (fun i => ptsGet (g ((List.range m).map (fun j => X i j))) j')) i).getD l 0
        = ∑ j ∈ range m, B j' j * (A i' i * (X i j).getD l 0) := by
      intro i hi
      rw [mem_range] at hi
      rw [RemInv.ptsGet_map_range _ _ _ hi, hB _ (hrow i hi).1 (hrow i hi).2 j' hj' l, mul_sum]
      apply sum_congr rfl
      intro j hj
      rw [mem_range] at hj
      rw [RemInv.ptsGet_map_range _ _ _ hj]
      ring
    rw [sum_congr rfl e1, sum_congr rfl e2, sum_comm]

end Multi
end Geomdl
