import Mathlib.Algebra.BigOperators.Intervals
import Mathlib.Algebra.BigOperators.Ring.Finset
import Mathlib.Algebra.Order.BigOperators.Ring.Finset
import Mathlib.Algebra.Order.Field.Basic
import Mathlib.Tactic.Ring
import Mathlib.Tactic.Linarith

/-! The algebraic core of linear least squares over any field: if `x` solves the normal equations
    `NᵀN x = Nᵀ r`, then `‖N y − r‖² = ‖N x − r‖² + ‖N (y − x)‖²` for every `y`; over an ordered field
    therefore `‖N x − r‖² ≤ ‖N y − r‖²`.  Matrices are entry functions `ℕ → ℕ → K` restricted to
    `m` rows and `n` columns. -/
namespace Lsq
open Finset

section field
variable {K : Type} [Field K]

/-- the normal equations `NᵀN x = Nᵀ r`, written out -/
def Normal (m n : ℕ) (N : ℕ → ℕ → K) (r x : ℕ → K) : Prop :=
  ∀ i, i < n → ∑ j ∈ range n, (∑ k ∈ range m, N k i * N k j) * x j = ∑ k ∈ range m, N k i * r k

/-- normal equations ⇔ the residual `N x − r` is orthogonal to every column of `N` -/
theorem normal_iff_orthogonal (m n : ℕ) (N : ℕ → ℕ → K) (r x : ℕ → K) :
    Normal m n N r x ↔ ∀ i, i < n → ∑ k ∈ range m, N k i * (∑ j ∈ range n, N k j * x j - r k) = 0 := by
  unfold Normal
  have key : ∀ i, ∑ k ∈ range m, N k i * (∑ j ∈ range n, N k j * x j - r k)
      = ∑ j ∈ range n, (∑ k ∈ range m, N k i * N k j) * x j - ∑ k ∈ range m, N k i * r k := by
    intro i
    have h1 : ∑ j ∈ range n, (∑ k ∈ range m, N k i * N k j) * x j
        = ∑ k ∈ range m, N k i * ∑ j ∈ range n, N k j * x j := by
      simp only [sum_mul, mul_sum]
      rw [sum_comm]
      apply sum_congr rfl; intro k _
      apply sum_congr rfl; intro j _
      ring
    rw [h1, ← sum_sub_distrib]
    apply sum_congr rfl; intro k _
    ring
  constructor
  · intro h i hi
    rw [key i, h i hi, sub_self]
  · intro h i hi
    have := h i hi
    rw [key i] at this
    exact sub_eq_zero.mp this

/-- the cross term vanishes -/
theorem cross_zero (m n : ℕ) (N : ℕ → ℕ → K) (r x z : ℕ → K) (h : Normal m n N r x) :
    ∑ k ∈ range m, (∑ j ∈ range n, N k j * x j - r k) * (∑ j ∈ range n, N k j * z j) = 0 := by
  have ho := (normal_iff_orthogonal m n N r x).mp h
  have : ∑ k ∈ range m, (∑ j ∈ range n, N k j * x j - r k) * (∑ j ∈ range n, N k j * z j)
      = ∑ j ∈ range n, z j * ∑ k ∈ range m, N k j * (∑ l ∈ range n, N k l * x l - r k) := by
    simp only [mul_sum]
    rw [sum_comm]
    apply sum_congr rfl; intro j _
    apply sum_congr rfl; intro k _
    ring
  rw [this]
  apply sum_eq_zero
  intro j hj
  rw [ho j (mem_range.mp hj), mul_zero]

/-- **Pythagoras for least squares**: `‖N y − r‖² = ‖N x − r‖² + ‖N (y − x)‖²` when `NᵀN x = Nᵀ r`. -/
theorem pythagoras (m n : ℕ) (N : ℕ → ℕ → K) (r x y : ℕ → K) (h : Normal m n N r x) :
    ∑ k ∈ range m, (∑ j ∈ range n, N k j * y j - r k) ^ 2
      = ∑ k ∈ range m, (∑ j ∈ range n, N k j * x j - r k) ^ 2
        + ∑ k ∈ range m, (∑ j ∈ range n, N k j * (y j - x j)) ^ 2 := by
  have hc := cross_zero m n N r x (fun j => y j - x j) h
  have hsplit : ∀ k, ∑ j ∈ range n, N k j * y j - r k
      = (∑ j ∈ range n, N k j * x j - r k) + ∑ j ∈ range n, N k j * (y j - x j) := by
    intro k
    have : ∑ j ∈ range n, N k j * (y j - x j) = ∑ j ∈ range n, N k j * y j - ∑ j ∈ range n, N k j * x j := by
      rw [← sum_sub_distrib]
      apply sum_congr rfl; intro j _; ring
    rw [this]; ring
  have hterm : ∀ k, (∑ j ∈ range n, N k j * y j - r k) ^ 2
      = (∑ j ∈ range n, N k j * x j - r k) ^ 2 + (∑ j ∈ range n, N k j * (y j - x j)) ^ 2
        + 2 * ((∑ j ∈ range n, N k j * x j - r k) * ∑ j ∈ range n, N k j * (y j - x j)) := by
    intro k
    rw [hsplit k]; ring
  simp only [hterm]
  rw [sum_add_distrib, sum_add_distrib, ← mul_sum, hc]
  ring

end field

section ordered
variable {K : Type} [Field K] [LinearOrder K] [IsStrictOrderedRing K]

/-- **a solution of the normal equations minimises the sum of squared residuals** -/
theorem minimises (m n : ℕ) (N : ℕ → ℕ → K) (r x y : ℕ → K) (h : Normal m n N r x) :
    ∑ k ∈ range m, (∑ j ∈ range n, N k j * x j - r k) ^ 2
      ≤ ∑ k ∈ range m, (∑ j ∈ range n, N k j * y j - r k) ^ 2 := by
  rw [pythagoras m n N r x y h]
  have : 0 ≤ ∑ k ∈ range m, (∑ j ∈ range n, N k j * (y j - x j)) ^ 2 :=
    sum_nonneg (fun k _ => sq_nonneg _)
  linarith

end ordered
end Lsq
