import NurbsVerif.Lemmas.RatTangentNorm

/-!
  C02 (statement audit 5, K2): `normalize=True` with ANY positive magnitude.  The `normalize=True` theorems of
  Props/C02.lean assume an exact root `m * m = |v|²`; over ℚ (the driver's field) this holds for Pythagorean vectors
  only, and the magnitude the ops `tancn` / `tansn` / `nrmsn` receive is the double `vector_magnitude` returned, for
  which it is false.  What holds for every `m > 0`: the call returns, `m · n = v` coordinatewise and
  `|n|² · m² = |v|²`; with the driver's bound `magOk` (`|m² − |v|²| · 2⁴⁹ ≤ |v|²`) this bounds `| |n|² − 1 |`.
-/
namespace Geomdl
variable {F : Type} [Field F] [LinearOrder F] [IsStrictOrderedRing F]

theorem normSq_map_div_aux (m : F) (hm : m ≠ 0) : ∀ (v : List F) (acc : F),
    (v.map (fun x => x / m)).foldl (fun a x => a + x * x) acc * (m * m)
      = v.foldl (fun a x => a + x * x) (acc * (m * m))
  | [], acc => by simp
  | x :: r, acc => by
    simp only [List.map_cons, List.foldl_cons]
    rw [normSq_map_div_aux m hm r]
    congr 1
    field_simp

theorem vectorNormalize_any_positive (v : List F) (m : F) (hm : 0 < m) :
    ∃ n, Lin.vectorNormalize v m = some n ∧ n.length = v.length ∧ (∀ j, m * n.getD j 0 = v.getD j 0) ∧
      Lin.normSq n * (m * m) = Lin.normSq v := by
  refine ⟨v.map (fun x => x / m), by simp [Lin.vectorNormalize, hm], by simp, ?_, ?_⟩
  · intro j
    by_cases hj : j < v.length
    · simp [List.getD_eq_getElem?_getD, hj]; field_simp
    · simp [List.getD_eq_getElem?_getD, hj]
  · have := normSq_map_div_aux m (ne_of_gt hm) v 0
    simpa [Lin.normSq] using this

theorem tangentCurveN_any_positive (ders : List (List F)) (m : F) (hm : 0 < m) :
    ∃ n, tangentCurveN ders m = some ((tangentCurve ders).1, n) ∧
      (∀ j, m * n.getD j 0 = (tangentCurve ders).2.getD j 0) ∧
      Lin.normSq n * (m * m) = Lin.normSq (tangentCurve ders).2 := by
  obtain ⟨n, h, _, h2, h3⟩ := vectorNormalize_any_positive (tangentCurve ders).2 m hm
  exact ⟨n, by simp [tangentCurveN, h], h2, h3⟩

/-- with the driver's sanity bound on the magnitude (`Drv.magOk`): `| |n|² − 1 | · m² · 2⁴⁹ ≤ |v|²` -/
theorem vectorNormalize_magOk_bound (v : List F) (m : F) (hm : 0 < m)
    (hb : |m * m - Lin.normSq v| * 2 ^ 49 ≤ Lin.normSq v) :
    ∃ n, Lin.vectorNormalize v m = some n ∧ |Lin.normSq n - 1| * (m * m) * 2 ^ 49 ≤ Lin.normSq v := by
  obtain ⟨n, h, _, _, h3⟩ := vectorNormalize_any_positive v m hm
  refine ⟨n, h, ?_⟩
  have hmm : 0 < m * m := mul_pos hm hm
  have e : |Lin.normSq n - 1| * (m * m) = |m * m - Lin.normSq v| := by
    rw [← abs_of_pos hmm, ← abs_mul, abs_of_pos hmm, sub_mul, one_mul, h3, abs_sub_comm]
  rw [e]; exact hb

end Geomdl
