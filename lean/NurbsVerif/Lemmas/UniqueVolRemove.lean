import NurbsVerif.Lemmas.UniqueVol
import NurbsVerif.Lemmas.UniqueTensorRemove
import NurbsVerif.Lemmas.RemoveInvVol

/-! # "Removable at all" for volumes

Net level (`mapVol`, the per-iso-curve model of `operations.remove_knot` on a volume): when every iso-curve of the
direction is a removable curve (`RemovableKnot`, witness = the corresponding iso-curve of a net `Q`), the gather /
A5.8 / scatter returns exactly `Q` and the reduced size (`volU/V/W_removable`), and for `t ≤ r` removals the net of
`r - t` insertions into `Q` (`volU/V/W_removable_t`).

Volume level (`VolRemovableU/V/W`): a knot that is removable from the VOLUME – some volume over the reduced knot
vector has the same points on the half-open domain – is removable from every iso-curve of that direction
(tensor-product linear independence, `volume_linesU/V/W_determined`). -/
namespace Geomdl
open Blossom
variable {K : Type} [Field K] [LinearOrder K] [IsStrictOrderedRing K]

/-! ### `mapVol`: equal results on the iso-curves give equal nets -/

theorem mapVol0_congr (su su' sv sw : ℕ) (P Q : List (List K)) (f g : List (List K) → List (List K))
    (hsv : 0 < sv) (hsw : 0 < sw)
    (hfg : ∀ y z, y < sv → z < sw → f (lineU su sv P y z) = g (lineU su' sv Q y z)) :
    mapVol 0 su sv sw P f = mapVol 0 su' sv sw Q g := by
  rw [RemInv.mapVol0_eq su sv sw P f hsv hsw, RemInv.mapVol0_eq su' sv sw Q g hsv hsw]
  have h0 : f (RemInv.lineU su sv P 0 0) = g (RemInv.lineU su' sv Q 0 0) := hfg 0 0 hsv hsw
  rw [h0]
  congr 1
  apply tab3_congr
  intro w hw u _ v hv
  have : f (RemInv.lineU su sv P v w) = g (RemInv.lineU su' sv Q v w) := hfg v w hv hw
  rw [this]

theorem mapVol1_congr (su sv sv' sw : ℕ) (P Q : List (List K)) (f g : List (List K) → List (List K))
    (hsu : 0 < su) (hsw : 0 < sw)
    (hfg : ∀ x z, x < su → z < sw → f (lineV su sv P x z) = g (lineV su sv' Q x z)) :
    mapVol 1 su sv sw P f = mapVol 1 su sv' sw Q g := by
  rw [RemInv.mapVol1_eq su sv sw P f hsu hsw, RemInv.mapVol1_eq su sv' sw Q g hsu hsw]
  have h0 : f (RemInv.lineV su sv P 0 0) = g (RemInv.lineV su sv' Q 0 0) := hfg 0 0 hsu hsw
  rw [h0]
  congr 1
  apply tab3_congr
  intro w hw u hu v _
  have : f (RemInv.lineV su sv P u w) = g (RemInv.lineV su sv' Q u w) := hfg u w hu hw
  rw [this]

theorem mapVol2_congr (su sv sw sw' : ℕ) (P Q : List (List K)) (f g : List (List K) → List (List K))
    (hsu : 0 < su) (hsv : 0 < sv)
    (hfg : ∀ x y, x < su → y < sv → f (lineW su sv sw P x y) = g (lineW su sv sw' Q x y)) :
    mapVol 2 su sv sw P f = mapVol 2 su sv sw' Q g := by
  rw [RemInv.mapVol2_eq 2 su sv sw (le_refl _) P f hsu hsv, RemInv.mapVol2_eq 2 su sv sw' (le_refl _) Q g hsu hsv]
  have h0 : f (RemInv.lineW su sv sw P 0 0) = g (RemInv.lineW su sv sw' Q 0 0) := hfg 0 0 hsu hsv
  rw [h0]
  congr 1
  apply tab3_congr
  intro w _ u hu v hv
  have : f (RemInv.lineW su sv sw P u v) = g (RemInv.lineW su sv sw' Q u v) := hfg u v hu hv
  rw [this]

/-! ### every iso-curve removable ⇒ the per-direction removal returns the witness net -/

section NetLevel
variable (p d : ℕ) (V : List K) (P Q : List (List K)) (ub : K) (r s k su sv sw : ℕ) (tol2 : K)

/-- **Volumes, u direction, removable at all** (`Q` of size `(su - r) × sv × sw`) -/
theorem volU_removable (hsv : 0 < sv) (hsw : 0 < sw) (hlenQ : Q.length = (su - r) * sv * sw)
    (h : ∀ y z, y < sv → z < sw → RemovableKnot p d V (lineU su sv P y z) (lineU (su - r) sv Q y z) ub r s k)
    (htol : 0 ≤ tol2) :
    mapVol 0 su sv sw P (fun c => knotRemoval p (fnOf V) c ub r (s + r) (k + r) tol2) = (Q, su - r) := by
  rw [mapVol0_congr su (su - r) sv sw P Q _ id hsv hsw
    (fun y z hy hz => removable_exact p d V _ _ ub r s k tol2 (h y z hy hz) htol)]
  exact RemInv.mapVol0_id (su - r) sv sw Q hlenQ hsv hsw id (fun _ _ _ _ => rfl)

/-- **… v direction** (`Q` of size `su × (sv - r) × sw`) -/
theorem volV_removable (hsu : 0 < su) (hsw : 0 < sw) (hlenQ : Q.length = su * (sv - r) * sw)
    (h : ∀ x z, x < su → z < sw → RemovableKnot p d V (lineV su sv P x z) (lineV su (sv - r) Q x z) ub r s k)
    (htol : 0 ≤ tol2) :
    mapVol 1 su sv sw P (fun c => knotRemoval p (fnOf V) c ub r (s + r) (k + r) tol2) = (Q, sv - r) := by
  rw [mapVol1_congr su sv (sv - r) sw P Q _ id hsu hsw
    (fun x z hx hz => removable_exact p d V _ _ ub r s k tol2 (h x z hx hz) htol)]
  exact RemInv.mapVol1_id su (sv - r) sw Q hlenQ hsu hsw id (fun _ _ _ _ => rfl)

/-- **… w direction** (`Q` of size `su × sv × (sw - r)`) -/
theorem volW_removable (hsu : 0 < su) (hsv : 0 < sv) (hlenQ : Q.length = su * sv * (sw - r))
    (h : ∀ x y, x < su → y < sv → RemovableKnot p d V (lineW su sv sw P x y) (lineW su sv (sw - r) Q x y) ub r s k)
    (htol : 0 ≤ tol2) :
    mapVol 2 su sv sw P (fun c => knotRemoval p (fnOf V) c ub r (s + r) (k + r) tol2) = (Q, sw - r) := by
  rw [mapVol2_congr su sv sw (sw - r) P Q _ id hsu hsv
    (fun x y hx hy => removable_exact p d V _ _ ub r s k tol2 (h x y hx hy) htol)]
  exact RemInv.mapVol2_id 2 su sv (sw - r) (le_refl _) Q hlenQ hsu hsv id (fun _ _ _ _ => rfl)

/-- **`t ≤ r` removals, u direction**: the net and size of `r - t` insertions into the witness -/
theorem volU_removable_t (t : ℕ) (hsv : 0 < sv) (hsw : 0 < sw)
    (h : ∀ y z, y < sv → z < sw → RemovableKnot p d V (lineU su sv P y z) (lineU (su - r) sv Q y z) ub r s k)
    (ht1 : 1 ≤ t) (htr : t ≤ r) (htol : 0 ≤ tol2) :
    mapVol 0 su sv sw P (fun c => knotRemoval p (fnOf V) c ub t (s + r) (k + r) tol2)
      = mapVol 0 (su - r) sv sw Q (fun c => knotInsertion p (fnOf (knotRemovalKv V (k + r) r)) c ub (r - t) s k) :=
  mapVol0_congr su (su - r) sv sw P Q _ _ hsv hsw
    (fun y z hy hz => removable_t p d V _ _ ub r t s k tol2 (h y z hy hz) ht1 htr htol)

theorem volV_removable_t (t : ℕ) (hsu : 0 < su) (hsw : 0 < sw)
    (h : ∀ x z, x < su → z < sw → RemovableKnot p d V (lineV su sv P x z) (lineV su (sv - r) Q x z) ub r s k)
    (ht1 : 1 ≤ t) (htr : t ≤ r) (htol : 0 ≤ tol2) :
    mapVol 1 su sv sw P (fun c => knotRemoval p (fnOf V) c ub t (s + r) (k + r) tol2)
      = mapVol 1 su (sv - r) sw Q (fun c => knotInsertion p (fnOf (knotRemovalKv V (k + r) r)) c ub (r - t) s k) :=
  mapVol1_congr su sv (sv - r) sw P Q _ _ hsu hsw
    (fun x z hx hz => removable_t p d V _ _ ub r t s k tol2 (h x z hx hz) ht1 htr htol)

theorem volW_removable_t (t : ℕ) (hsu : 0 < su) (hsv : 0 < sv)
    (h : ∀ x y, x < su → y < sv → RemovableKnot p d V (lineW su sv sw P x y) (lineW su sv (sw - r) Q x y) ub r s k)
    (ht1 : 1 ≤ t) (htr : t ≤ r) (htol : 0 ≤ tol2) :
    mapVol 2 su sv sw P (fun c => knotRemoval p (fnOf V) c ub t (s + r) (k + r) tol2)
      = mapVol 2 su sv (sw - r) Q (fun c => knotInsertion p (fnOf (knotRemovalKv V (k + r) r)) c ub (r - t) s k) :=
  mapVol2_congr su sv sw (sw - r) P Q _ _ hsu hsv
    (fun x y hx hy => removable_t p d V _ _ ub r t s k tol2 (h x y hx hy) ht1 htr htol)

end NetLevel

/-! ### removable from the volume ⇒ removable from every iso-curve -/

/-- the positions / counts of the knot `ub` in the knot vector `V` of `n` control points, degree `p`, and the
    reduced knot vector (the part of `RemovableKnot` that does not mention the nets) -/
structure KnotRun (p : ℕ) (V : List K) (n : ℕ) (ub : K) (r s k : ℕ) : Prop where
  kv : KvWF p V n
  active : AllActive p n (fnOf V)
  run : ∀ x, k - s < x → x ≤ k + r → fnOf V x = ub
  below : fnOf V (k - s) < ub
  above : ub < fnOf V (k + r + 1)
  r1 : 1 ≤ r
  rs : r + s ≤ p
  pk : p ≤ k
  kn : k + r < n
  redkv : KvWF p (knotRemovalKv V (k + r) r) (n - r)

/-- a curve over `V` and a curve over the reduced knot vector with the same points: `RemovableKnot` -/
theorem KnotRun.removable {p d : ℕ} {V : List K} {n : ℕ} {ub : K} {r s k : ℕ} (h : KnotRun p V n ub r s k)
    (c c' : List (List K)) (hc : c.length = n) (hc' : c'.length = n - r) (hnet : NetOk d c) (hnet' : NetOk d c')
    (same : ∀ u, fnOf V p ≤ u → u < fnOf V n → ∀ j,
      (curvePoint p (fnOf (knotRemovalKv V (k + r) r)) c' u).getD j 0 = (curvePoint p (fnOf V) c u).getD j 0) :
    RemovableKnot p d V c c' ub r s k :=
  ⟨h.kv.curve d c hc hnet, by rw [hc]; exact h.active, h.run, h.below, h.above, h.r1, h.rs, h.pk, by rw [hc]; exact h.kn,
    h.redkv.curve d c' hc' hnet', by rw [hc]; exact same⟩

/-- the u-direction knot `ub` is removable `r` times from the volume `(V, Uv, Uw, P)`, witnessed by the
    `(su - r) × sv × sw` net `Q` -/
structure VolRemovableU (pu pv pw d : ℕ) (V Uv Uw : List K) (P Q : List (List K)) (ub : K) (r s k su sv sw : ℕ) : Prop where
  knot : KnotRun pu V su ub r s k
  kvv : KvWF pv Uv sv
  kvw : KvWF pw Uw sw
  activeV : AllActive pv sv (fnOf Uv)
  activeW : AllActive pw sw (fnOf Uw)
  netlen : P.length = su * sv * sw
  net : NetOk d P
  rednetlen : Q.length = (su - r) * sv * sw
  rednet : NetOk d Q
  same : ∀ u v w, fnOf V pu ≤ u → u < fnOf V su → fnOf Uv pv ≤ v → v < fnOf Uv sv → fnOf Uw pw ≤ w → w < fnOf Uw sw → ∀ j,
    (volumePoint pu pv pw (fnOf (knotRemovalKv V (k + r) r)) (fnOf Uv) (fnOf Uw) (su - r) sv sw Q u v w).getD j 0
      = (volumePoint pu pv pw (fnOf V) (fnOf Uv) (fnOf Uw) su sv sw P u v w).getD j 0

structure VolRemovableV (pu pv pw d : ℕ) (Uu V Uw : List K) (P Q : List (List K)) (ub : K) (r s k su sv sw : ℕ) : Prop where
  knot : KnotRun pv V sv ub r s k
  kvu : KvWF pu Uu su
  kvw : KvWF pw Uw sw
  activeU : AllActive pu su (fnOf Uu)
  activeW : AllActive pw sw (fnOf Uw)
  netlen : P.length = su * sv * sw
  net : NetOk d P
  rednetlen : Q.length = su * (sv - r) * sw
  rednet : NetOk d Q
  same : ∀ u v w, fnOf Uu pu ≤ u → u < fnOf Uu su → fnOf V pv ≤ v → v < fnOf V sv → fnOf Uw pw ≤ w → w < fnOf Uw sw → ∀ j,
    (volumePoint pu pv pw (fnOf Uu) (fnOf (knotRemovalKv V (k + r) r)) (fnOf Uw) su (sv - r) sw Q u v w).getD j 0
      = (volumePoint pu pv pw (fnOf Uu) (fnOf V) (fnOf Uw) su sv sw P u v w).getD j 0

structure VolRemovableW (pu pv pw d : ℕ) (Uu Uv V : List K) (P Q : List (List K)) (ub : K) (r s k su sv sw : ℕ) : Prop where
  knot : KnotRun pw V sw ub r s k
  kvu : KvWF pu Uu su
  kvv : KvWF pv Uv sv
  activeU : AllActive pu su (fnOf Uu)
  activeV : AllActive pv sv (fnOf Uv)
  netlen : P.length = su * sv * sw
  net : NetOk d P
  rednetlen : Q.length = su * sv * (sw - r)
  rednet : NetOk d Q
  same : ∀ u v w, fnOf Uu pu ≤ u → u < fnOf Uu su → fnOf Uv pv ≤ v → v < fnOf Uv sv → fnOf V pw ≤ w → w < fnOf V sw → ∀ j,
    (volumePoint pu pv pw (fnOf Uu) (fnOf Uv) (fnOf (knotRemovalKv V (k + r) r)) su sv (sw - r) Q u v w).getD j 0
      = (volumePoint pu pv pw (fnOf Uu) (fnOf Uv) (fnOf V) su sv sw P u v w).getD j 0

theorem VolRemovableU.isocurves {pu pv pw d : ℕ} {V Uv Uw : List K} {P Q : List (List K)} {ub : K} {r s k su sv sw : ℕ}
    (h : VolRemovableU pu pv pw d V Uv Uw P Q ub r s k su sv sw) (y z : ℕ) (hy : y < sv) (hz : z < sw) :
    RemovableKnot pu d V (lineU su sv P y z) (lineU (su - r) sv Q y z) ub r s k := by
  apply h.knot.removable _ _ (lineU_length ..) (lineU_length ..) (lineU_netOk su sv sw d P h.net h.netlen y z hy hz)
    (lineU_netOk (su - r) sv sw d Q h.rednet h.rednetlen y z hy hz)
  intro u h1 h2 j
  exact volume_linesU_determined pu pv pw (fnOf (knotRemovalKv V (k + r) r)) (fnOf Uv) (fnOf Uw) (su - r) sv sw Q P d j
    pu (fnOf V) su u h.kvv.mono h.kvv.pn h.activeV h.kvw.mono h.kvw.pn h.activeW h.knot.redkv.pn h.knot.kv.pn
    h.rednetlen h.netlen h.rednet h.net (fun v w hv1 hv2 hw1 hw2 => h.same u v w h1 h2 hv1 hv2 hw1 hw2 j) y z hy hz

theorem VolRemovableV.isocurves {pu pv pw d : ℕ} {Uu V Uw : List K} {P Q : List (List K)} {ub : K} {r s k su sv sw : ℕ}
    (h : VolRemovableV pu pv pw d Uu V Uw P Q ub r s k su sv sw) (x z : ℕ) (hx : x < su) (hz : z < sw) :
    RemovableKnot pv d V (lineV su sv P x z) (lineV su (sv - r) Q x z) ub r s k := by
  apply h.knot.removable _ _ (lineV_length ..) (lineV_length ..) (lineV_netOk su sv sw d P h.net h.netlen x z hx hz)
    (lineV_netOk su (sv - r) sw d Q h.rednet h.rednetlen x z hx hz)
  intro v h1 h2 j
  exact volume_linesV_determined pu pv pw (fnOf Uu) (fnOf (knotRemovalKv V (k + r) r)) (fnOf Uw) su (sv - r) sw Q P d j
    pv (fnOf V) sv v h.kvu.mono h.kvu.pn h.activeU h.kvw.mono h.kvw.pn h.activeW h.knot.redkv.pn h.knot.kv.pn
    h.rednetlen h.netlen h.rednet h.net (fun u w hu1 hu2 hw1 hw2 => h.same u v w hu1 hu2 h1 h2 hw1 hw2 j) x z hx hz

theorem VolRemovableW.isocurves {pu pv pw d : ℕ} {Uu Uv V : List K} {P Q : List (List K)} {ub : K} {r s k su sv sw : ℕ}
    (h : VolRemovableW pu pv pw d Uu Uv V P Q ub r s k su sv sw) (x y : ℕ) (hx : x < su) (hy : y < sv) :
    RemovableKnot pw d V (lineW su sv sw P x y) (lineW su sv (sw - r) Q x y) ub r s k := by
  apply h.knot.removable _ _ (lineW_length ..) (lineW_length ..) (lineW_netOk su sv sw d P h.net h.netlen x y hx hy)
    (lineW_netOk su sv (sw - r) d Q h.rednet h.rednetlen x y hx hy)
  intro w h1 h2 j
  exact volume_linesW_determined pu pv pw (fnOf Uu) (fnOf Uv) (fnOf (knotRemovalKv V (k + r) r)) su sv (sw - r) Q P d j
    pw (fnOf V) sw w h.kvu.mono h.kvu.pn h.activeU h.kvv.mono h.kvv.pn h.activeV h.knot.redkv.pn h.knot.kv.pn
    h.rednetlen h.netlen h.rednet h.net (fun u v hu1 hu2 hv1 hv2 => h.same u v w hu1 hu2 hv1 hv2 h1 h2 j) x y hx hy

/-- **a knot that is removable from the volume is removed exactly**, u / v / w direction -/
theorem VolRemovableU.exact {pu pv pw d : ℕ} {V Uv Uw : List K} {P Q : List (List K)} {ub : K} {r s k su sv sw : ℕ}
    (h : VolRemovableU pu pv pw d V Uv Uw P Q ub r s k su sv sw) (tol2 : K) (htol : 0 ≤ tol2) :
    mapVol 0 su sv sw P (fun c => knotRemoval pu (fnOf V) c ub r (s + r) (k + r) tol2) = (Q, su - r) :=
  volU_removable pu d V P Q ub r s k su sv sw tol2 (by have := h.kvv.pn; omega) (by have := h.kvw.pn; omega) h.rednetlen
    (fun y z hy hz => h.isocurves y z hy hz) htol

theorem VolRemovableV.exact {pu pv pw d : ℕ} {Uu V Uw : List K} {P Q : List (List K)} {ub : K} {r s k su sv sw : ℕ}
    (h : VolRemovableV pu pv pw d Uu V Uw P Q ub r s k su sv sw) (tol2 : K) (htol : 0 ≤ tol2) :
    mapVol 1 su sv sw P (fun c => knotRemoval pv (fnOf V) c ub r (s + r) (k + r) tol2) = (Q, sv - r) :=
  volV_removable pv d V P Q ub r s k su sv sw tol2 (by have := h.kvu.pn; omega) (by have := h.kvw.pn; omega) h.rednetlen
    (fun x z hx hz => h.isocurves x z hx hz) htol

theorem VolRemovableW.exact {pu pv pw d : ℕ} {Uu Uv V : List K} {P Q : List (List K)} {ub : K} {r s k su sv sw : ℕ}
    (h : VolRemovableW pu pv pw d Uu Uv V P Q ub r s k su sv sw) (tol2 : K) (htol : 0 ≤ tol2) :
    mapVol 2 su sv sw P (fun c => knotRemoval pw (fnOf V) c ub r (s + r) (k + r) tol2) = (Q, sw - r) :=
  volW_removable pw d V P Q ub r s k su sv sw tol2 (by have := h.kvu.pn; omega) (by have := h.kvv.pn; omega) h.rednetlen
    (fun x y hx hy => h.isocurves x y hx hy) htol

end Geomdl
