import NurbsVerif.Lemmas.PredicatesCtrlpts
import NurbsVerif.Lemmas.BasisPositiveCdb
import NurbsVerif.Lemmas.AssembleSpan

/-!
  C20 / C18, `operations.find_ctrlpts`: the returned control points are EXACTLY the active ones.
  * half-open domain `[U p, U n)`: `N_{i,p}(u) ≠ 0` iff `i` is a returned index and (`i` is the first
    returned index or `U i < u`); strictly inside a span: iff `i` is a returned index;
  * closed domain `[U p, U n]` with the recursion of the span found (left-limit convention at `U n`);
  * right end `u = U n`: the last `p+1` indices are returned; for an end-clamped vector only the last
    function is non-zero there (`= 1`).
-/
namespace Geomdl
open Blossom
variable {K : Type} [Field K] [LinearOrder K] [IsStrictOrderedRing K]

theorem mem_findCtrlptsIdx_window (p : ℕ) (U : ℕ → K) (n : ℕ) (u : K) (hp : p ≤ findSpanLinear p U n u) (i : ℕ) :
    i ∈ findCtrlptsIdx p U n u ↔ findSpanLinear p U n u ≤ i + p ∧ i ≤ findSpanLinear p U n u := by
  rw [mem_findCtrlptsIdx]; omega

/-- half-open domain, every parameter (knots included): exact activity of every index -/
theorem cdb_ne_zero_iff_findCtrlpts (p : ℕ) (U : ℕ → K) (n : ℕ) (u : K) (hpn : p + 1 ≤ n)
    (hm : Monotone U) (hlo : U p ≤ u) (hhi : u < U n) (i : ℕ) :
    cdb U p i u ≠ 0 ↔
      i ∈ findCtrlptsIdx p U n u ∧ (i + p = findSpanLinear p U n u ∨ U i < u) := by
  obtain ⟨h1, h2, h3, _⟩ := findSpanLinear_halfopen hm hpn u hlo hhi
  rw [cdb_ne_zero_iff hm h1 h2 p h3 i, mem_findCtrlptsIdx_window p U n u h3 i]

/-- strictly inside a span: returned indices = indices of the non-vanishing basis functions -/
theorem findCtrlptsIdx_exact (p : ℕ) (U : ℕ → K) (n : ℕ) (u : K) (hpn : p + 1 ≤ n)
    (hm : Monotone U) (hlo : U p ≤ u) (hhi : u < U n) (hin : U (findSpanLinear p U n u) < u) (i : ℕ) :
    i ∈ findCtrlptsIdx p U n u ↔ cdb U p i u ≠ 0 := by
  obtain ⟨_, h2, h3, _⟩ := findSpanLinear_halfopen hm hpn u hlo hhi
  rw [cdb_ne_zero_iff_inside hm hin h2 p h3 i, mem_findCtrlptsIdx_window p U n u h3 i]

/-- a parameter that is not a knot lies strictly inside the span found -/
theorem findSpanLinear_inside_of_not_knot (p : ℕ) (U : ℕ → K) (n : ℕ) (u : K) (hpn : p + 1 ≤ n)
    (hm : Monotone U) (hlo : U p ≤ u) (hk : ∀ i, i < n → U i ≠ u) : U (findSpanLinear p U n u) < u := by
  obtain ⟨_, h2, h3, _⟩ := findSpanLinear_spec p U n u hpn hm hlo
  exact lt_of_le_of_ne h3 (hk _ h2)

/-! ### list form: the returned index list is the filtered index range -/

theorem range'_eq_filter_range (s m n : ℕ) (h : s + m ≤ n) :
    List.range' s m = (List.range n).filter (fun i => decide (s ≤ i ∧ i < s + m)) := by
  have e : List.range n = List.range' 0 s ++ (List.range' s m ++ List.range' (s + m) (n - (s + m))) := by
    have a1 := List.range'_append_1 (s := 0) (m := s) (n := m + (n - (s + m)))
    rw [Nat.zero_add] at a1
    rw [List.range_eq_range', List.range'_append_1, a1]
    congr 1
    omega
  rw [e, List.filter_append, List.filter_append]
  have f1 : (List.range' 0 s).filter (fun i => decide (s ≤ i ∧ i < s + m)) = [] := by
    rw [List.filter_eq_nil_iff]
    intro a ha
    rw [List.mem_range'_1] at ha
    simp only [decide_eq_true_eq]; omega
  have f2 : (List.range' s m).filter (fun i => decide (s ≤ i ∧ i < s + m)) = List.range' s m := by
    rw [List.filter_eq_self]
    intro a ha
    rw [List.mem_range'_1] at ha
    simp only [decide_eq_true_eq]; omega
  have f3 : (List.range' (s + m) (n - (s + m))).filter (fun i => decide (s ≤ i ∧ i < s + m)) = [] := by
    rw [List.filter_eq_nil_iff]
    intro a ha
    rw [List.mem_range'_1] at ha
    simp only [decide_eq_true_eq]; omega
  rw [f1, f2, f3, List.nil_append, List.append_nil]

/-- strictly inside a span the returned index list is `[i < n | N_{i,p}(u) ≠ 0]`, in increasing order -/
theorem findCtrlptsIdx_eq_filter (p : ℕ) (U : ℕ → K) (n : ℕ) (u : K) (hpn : p + 1 ≤ n)
    (hm : Monotone U) (hlo : U p ≤ u) (hhi : u < U n) (hin : U (findSpanLinear p U n u) < u) :
    findCtrlptsIdx p U n u = (List.range n).filter (fun i => decide (cdb U p i u ≠ 0)) := by
  obtain ⟨_, h2, h3, h4⟩ := findSpanLinear_halfopen hm hpn u hlo hhi
  rw [findCtrlptsIdx_eq, range'_eq_filter_range _ _ n (by omega)]
  apply List.filter_congr
  intro i _
  rw [decide_eq_decide, ← findCtrlptsIdx_exact p U n u hpn hm hlo hhi hin i, mem_findCtrlptsIdx]

theorem findCtrlptsCurve_eq_filter {α : Type} (d : α) (p : ℕ) (U : ℕ → K) (P : List α) (u : K)
    (hpn : p + 1 ≤ P.length) (hm : Monotone U) (hlo : U p ≤ u) (hhi : u < U P.length)
    (hin : U (findSpanLinear p U P.length u) < u) :
    findCtrlptsCurve d p U P u
      = ((List.range P.length).filter (fun i => decide (cdb U p i u ≠ 0))).map (fun i => P.getD i d) := by
  unfold findCtrlptsCurve
  rw [findCtrlptsIdx_eq_filter p U P.length u hpn hm hlo hhi hin]

theorem findCtrlptsSurface_eq_filter {α : Type} (d : α) (pu pv : ℕ) (Uu Uv : ℕ → K) (su sv : ℕ)
    (P2 : List (List α)) (u v : K)
    (hu : pu + 1 ≤ su) (hv : pv + 1 ≤ sv) (hmu : Monotone Uu) (hmv : Monotone Uv)
    (hlu : Uu pu ≤ u) (hhu : u < Uu su) (hlv : Uv pv ≤ v) (hhv : v < Uv sv)
    (hiu : Uu (findSpanLinear pu Uu su u) < u) (hiv : Uv (findSpanLinear pv Uv sv v) < v) :
    findCtrlptsSurface d pu pv Uu Uv su sv P2 u v
      = ((List.range su).filter (fun i => decide (cdb Uu pu i u ≠ 0))).map (fun k =>
          ((List.range sv).filter (fun j => decide (cdb Uv pv j v ≠ 0))).map (fun l => (P2.getD k []).getD l d)) := by
  unfold findCtrlptsSurface
  rw [findCtrlptsIdx_eq_filter pu Uu su u hu hmu hlu hhu hiu, findCtrlptsIdx_eq_filter pv Uv sv v hv hmv hlv hhv hiv]

/-! ### closed domain: recursion of the span found -/

/-- closed domain `[U p, U n]`: exact activity of every index w.r.t. the basis functions the
    evaluation uses (recursion of the span found; at `u = U n` the left limit) -/
theorem cdbSpan_ne_zero_iff_findCtrlpts {p : ℕ} {U : ℕ → K} {n : ℕ} (h : KnotsOk p U n) (u : K)
    (hlo : U p ≤ u) (hhi : u ≤ U n) (i : ℕ) :
    cdbSpan U (findSpanLinear p U n u) p i u ≠ 0 ↔
      i ∈ findCtrlptsIdx p U n u ∧ (i + p = findSpanLinear p U n u ∨ U i < u)
        ∧ (i = findSpanLinear p U n u ∨ u < U (i + p + 1)) := by
  obtain ⟨hs, h3, _⟩ := findSpanLinear_dom h u hlo hhi
  rw [cdbSpan_ne_zero_iff hs p h3 i, mem_findCtrlptsIdx_window p U n u h3 i]

/-! ### the right end `u = U n` of the domain -/

/-- at `u = U n` the last `p+1` indices `n-1-p, …, n-1` are returned -/
theorem findCtrlptsIdx_right_end (p : ℕ) (U : ℕ → K) (n : ℕ) (hm : Monotone U) (hpn : p + 1 ≤ n) :
    findCtrlptsIdx p U n (U n) = List.range' (n - 1 - p) (p + 1) := by
  rw [findCtrlptsIdx_eq, findSpanLinear_right_end hm hpn]

/-- at `u = U n`, last span non-empty: `N_{i,p}` (left limit) is non-zero iff `i` is returned and
    (`i = n-1` or `U n < U (i+p+1)`) -/
theorem cdbSpan_right_end_ne_zero_iff {p : ℕ} {U : ℕ → K} {n : ℕ} (h : KnotsOk p U n) (i : ℕ) :
    cdbSpan U (n - 1) p i (U n) ≠ 0 ↔
      i ∈ findCtrlptsIdx p U n (U n) ∧ (i = n - 1 ∨ U n < U (i + p + 1)) := by
  have hk := findSpanLinear_right_end h.mono h.pn
  have := cdbSpan_ne_zero_iff_findCtrlpts h (U n) (h.mono (by have := h.pn; omega)) (le_refl _) i
  rw [hk] at this
  rw [this]
  constructor
  · rintro ⟨a, _, c⟩; exact ⟨a, c⟩
  · rintro ⟨a, c⟩
    refine ⟨a, Or.inr ?_, c⟩
    rw [findCtrlptsIdx_right_end p U n h.mono h.pn, List.mem_range'_1] at a
    have hpn := h.pn
    have h1 : U i ≤ U (n - 1) := h.mono (by omega)
    exact lt_of_le_of_lt h1 h.last

/-- **end-clamped knot vector** (`U n = U (n+1) = … = U (n+p-1)`, last span non-empty): at the right
    end of the domain the basis functions used by the evaluation are `N_{n-1,p} = 1` and `0` otherwise –
    only the last returned control point is active. -/
theorem cdbSpan_right_end_clamped {p : ℕ} {U : ℕ → K} {n : ℕ} (h : KnotsOk p U n)
    (hU : ∀ r, r + 1 ≤ p → U (n + r) = U n) (i : ℕ) :
    cdbSpan U (findSpanLinear p U n (U n)) p i (U n) = if i = n - 1 then 1 else 0 := by
  rw [findSpanLinear_right_end h.mono h.pn]
  have hpn := h.pn
  have hlast := h.last
  obtain ⟨k, rfl⟩ : ∃ k, n = k + 1 := ⟨n - 1, by omega⟩
  rw [Nat.add_sub_cancel] at hlast ⊢
  apply cdbSpan_clamped_end h.mono hlast p (by omega)
  intro r hr1 hr2
  have := hU (r - (k + 1)) (by omega)
  rwa [show k + 1 + (r - (k + 1)) = r by omega] at this

end Geomdl
