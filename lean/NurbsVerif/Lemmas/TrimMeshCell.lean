import NurbsVerif.Lemmas.TrimMesh

/-!
# Trimmed tessellation, one cell (C15): the result of `Geomdl.trimCell`

(i) all four corners inside ⇒ nothing is returned; (ii) no corner inside and both candidate centres kept ⇒ the two
triangles of the untrimmed tessellation; (iii) what every returned vertex / triangle looks like.
-/
set_option linter.unusedSectionVars false
namespace Geomdl.Trim
open Geomdl
variable {K : Type} [Field K] [LinearOrder K] [IsStrictOrderedRing K]

/-- the flags of corner number `k` (0-based position among `v1 … v4`) after the corner loop -/
def cornerFlags (tt : TrimTol K) (trims : List (Trim K)) (k : ℕ) (v : TVertex K) : TrimFlags :=
  classifyCorner tt.tols trims k v.uv v.fl

/-- corner `k` as the rest of the routine sees it -/
def cornerAfter (tt : TrimTol K) (trims : List (Trim K)) (k : ℕ) (v : TVertex K) : TVertex K :=
  { v with fl := cornerFlags tt trims k v }

@[simp] theorem cornerAfter_id (tt : TrimTol K) (trims : List (Trim K)) (k : ℕ) (v : TVertex K) :
    (cornerAfter tt trims k v).id = v.id := rfl
@[simp] theorem cornerAfter_uv (tt : TrimTol K) (trims : List (Trim K)) (k : ℕ) (v : TVertex K) :
    (cornerAfter tt trims k v).uv = v.uv := rfl
@[simp] theorem cornerAfter_fl (tt : TrimTol K) (trims : List (Trim K)) (k : ℕ) (v : TVertex K) :
    (cornerAfter tt trims k v).fl = cornerFlags tt trims k v := rfl

theorem classifyCorners_four (tt : TrimTol K) (trims : List (Trim K)) (v1 v2 v3 v4 : TVertex K) :
    classifyCorners tt.tols trims [v1, v2, v3, v4]
      = [cornerAfter tt trims 0 v1, cornerAfter tt trims 1 v2, cornerAfter tt trims 2 v3, cornerAfter tt trims 3 v4] := rfl

/-- "all four corners are marked inside" (line 302) -/
def allInside (tt : TrimTol K) (trims : List (Trim K)) (v1 v2 v3 v4 : TVertex K) : Bool :=
  (cornerFlags tt trims 0 v1).inside && (cornerFlags tt trims 1 v2).inside && (cornerFlags tt trims 2 v3).inside
    && (cornerFlags tt trims 3 v4).inside

/-- `tris_vertices` of a cell that is not skipped -/
def cellPoly (tt : TrimTol K) (sq : K → K) (trims : List (Trim K)) (v1 v2 v3 v4 : TVertex K) (vidx : ℕ) : PolyAcc K :=
  polyVertices tt (cellIntersections tt sq v1.uv v2.uv v3.uv v4.uv trims) vidx
    (cornerAfter tt trims 0 v1) (cornerAfter tt trims 1 v2) (cornerAfter tt trims 2 v3) (cornerAfter tt trims 3 v4)

/-- the triangle filter of lines 388-408 on a numbered candidate -/
def keepTri (trims : List (Trim K)) (t : ℕ × ((ℕ × (K × K)) × (ℕ × (K × K)) × (ℕ × (K × K)))) : Bool :=
  !(classifyTri trims (triCenterUV t.2.1.2 t.2.2.1.2 t.2.2.2.2)).inside

theorem trimCell_eq (tt : TrimTol K) (sq : K → K) (trims : List (Trim K)) (v1 v2 v3 v4 : TVertex K) (vidx tidx : ℕ) :
    trimCell tt sq trims v1 v2 v3 v4 vidx tidx =
      if allInside tt trims v1 v2 v3 v4 = true then
        { flags := [cornerFlags tt trims 0 v1, cornerFlags tt trims 1 v2, cornerFlags tt trims 2 v3, cornerFlags tt trims 3 v4],
          verts := [], tris := [] }
      else
        { flags := [cornerFlags tt trims 0 v1, cornerFlags tt trims 1 v2, cornerFlags tt trims 2 v3, cornerFlags tt trims 3 v4],
          verts := (cellPoly tt sq trims v1 v2 v3 v4 vidx).verts,
          tris := ((cellCandidates tidx (cellPoly tt sq trims v1 v2 v3 v4 vidx).verts).filter (keepTri trims)).map
            fun t => (t.1, [t.2.1.1, t.2.2.1.1, t.2.2.2.1]) } := rfl

theorem trimCell_flags (tt : TrimTol K) (sq : K → K) (trims : List (Trim K)) (v1 v2 v3 v4 : TVertex K) (vidx tidx : ℕ) :
    (trimCell tt sq trims v1 v2 v3 v4 vidx tidx).flags
      = [cornerFlags tt trims 0 v1, cornerFlags tt trims 1 v2, cornerFlags tt trims 2 v3, cornerFlags tt trims 3 v4] := by
  rw [trimCell_eq]
  by_cases h : allInside tt trims v1 v2 v3 v4 = true
  · rw [if_pos h]
  · rw [if_neg h]

theorem trimCell_of_allInside (tt : TrimTol K) (sq : K → K) (trims : List (Trim K)) (v1 v2 v3 v4 : TVertex K)
    (vidx tidx : ℕ) (h : allInside tt trims v1 v2 v3 v4 = true) :
    (trimCell tt sq trims v1 v2 v3 v4 vidx tidx).verts = [] ∧ (trimCell tt sq trims v1 v2 v3 v4 vidx tidx).tris = [] := by
  rw [trimCell_eq, if_pos h]
  exact ⟨rfl, rfl⟩

theorem trimCell_of_not_allInside (tt : TrimTol K) (sq : K → K) (trims : List (Trim K)) (v1 v2 v3 v4 : TVertex K)
    (vidx tidx : ℕ) (h : allInside tt trims v1 v2 v3 v4 = false) :
    (trimCell tt sq trims v1 v2 v3 v4 vidx tidx).verts = (cellPoly tt sq trims v1 v2 v3 v4 vidx).verts ∧
    (trimCell tt sq trims v1 v2 v3 v4 vidx tidx).tris
      = ((cellCandidates tidx (cellPoly tt sq trims v1 v2 v3 v4 vidx).verts).filter (keepTri trims)).map
          fun t => (t.1, [t.2.1.1, t.2.2.1.1, t.2.2.2.1]) := by
  rw [trimCell_eq, if_neg (by rw [h]; simp)]
  exact ⟨rfl, rfl⟩

/-! ### (ii) a cell away from the trims -/

theorem polyStep_outside (tt : TrimTol K) (isx : List (ℕ × K × (K × K))) (vidx : ℕ) (acc : PolyAcc K) (idx : ℕ)
    (cur nxt : TVertex K) (h1 : cur.fl.inside = false) (h2 : nxt.fl.inside = false) :
    polyStep tt isx vidx acc idx cur nxt = { acc with verts := acc.verts ++ [(cur.id, cur.uv)] } := by
  simp [polyStep, h1, h2]

theorem polyVertices_outside (tt : TrimTol K) (isx : List (ℕ × K × (K × K))) (vidx : ℕ) (w1 w2 w3 w4 : TVertex K)
    (h1 : w1.fl.inside = false) (h2 : w2.fl.inside = false) (h3 : w3.fl.inside = false) (h4 : w4.fl.inside = false) :
    polyVertices tt isx vidx w1 w2 w3 w4
      = { nvi := 0, verts := [(w1.id, w1.uv), (w2.id, w2.uv), (w3.id, w3.uv), (w4.id, w4.uv)] } := by
  unfold polyVertices
  simp only [polyStep_outside tt isx vidx _ _ _ _ h1 h2, polyStep_outside tt isx vidx _ _ _ _ h2 h3,
    polyStep_outside tt isx vidx _ _ _ _ h3 h4, polyStep_outside tt isx vidx _ _ _ _ h4 h1]
  rfl

theorem cellCandidates_four (tidx : ℕ) (p1 p2 p3 p4 : ℕ × (K × K)) :
    cellCandidates tidx [p1, p2, p3, p4] = [(tidx, (p1, p2, p3)), (tidx + 1, (p1, p3, p4))] := rfl

/-- (ii): no corner ends up inside and both candidate triangle centres are kept: the call returns the four corners
    and the two triangles `(v1,v2,v3)`, `(v1,v3,v4)` with ids `tidx`, `tidx+1` -/
theorem trimCell_outside (tt : TrimTol K) (sq : K → K) (trims : List (Trim K)) (v1 v2 v3 v4 : TVertex K) (vidx tidx : ℕ)
    (h1 : (cornerFlags tt trims 0 v1).inside = false) (h2 : (cornerFlags tt trims 1 v2).inside = false)
    (h3 : (cornerFlags tt trims 2 v3).inside = false) (h4 : (cornerFlags tt trims 3 v4).inside = false)
    (hc1 : (classifyTri trims (triCenterUV v1.uv v2.uv v3.uv)).inside = false)
    (hc2 : (classifyTri trims (triCenterUV v1.uv v3.uv v4.uv)).inside = false) :
    (trimCell tt sq trims v1 v2 v3 v4 vidx tidx).verts = [(v1.id, v1.uv), (v2.id, v2.uv), (v3.id, v3.uv), (v4.id, v4.uv)] ∧
    (trimCell tt sq trims v1 v2 v3 v4 vidx tidx).tris
      = [(tidx, [v1.id, v2.id, v3.id]), (tidx + 1, [v1.id, v3.id, v4.id])] := by
  have hall : allInside tt trims v1 v2 v3 v4 = false := by simp [allInside, h1]
  obtain ⟨e1, e2⟩ := trimCell_of_not_allInside tt sq trims v1 v2 v3 v4 vidx tidx hall
  have hp : cellPoly tt sq trims v1 v2 v3 v4 vidx
      = { nvi := 0, verts := [(v1.id, v1.uv), (v2.id, v2.uv), (v3.id, v3.uv), (v4.id, v4.uv)] } :=
    polyVertices_outside tt _ vidx _ _ _ _ h1 h2 h3 h4
  rw [e1, e2, hp]
  refine ⟨rfl, ?_⟩
  rw [cellCandidates_four]
  simp [keepTri, hc1, hc2]

/-! ### (iii) the returned vertices -/

theorem mem_cellEdges (c1 c2 c3 c4 : K × K) (e : ℕ × (K × K) × (K × K)) (h : e ∈ cellEdges c1 c2 c3 c4) :
    e = (0, c1, c2) ∨ e = (1, c2, c3) ∨ e = (2, c3, c4) ∨ e = (3, c4, c1) := by
  simpa [cellEdges] using h

/-- an entry of the list `intersections`: edge number `k` from `a` to `b`, a parameter in `(0.0 - tol, 1.0 + tol)`
    and the point of the edge at that parameter -/
def IsHit (tt : TrimTol K) (c1 c2 c3 c4 : K × K) (is : ℕ × K × (K × K)) : Prop :=
  ∃ a b, (is.1, a, b) ∈ cellEdges c1 c2 c3 c4 ∧ 0 - tt.tol < is.2.1 ∧ is.2.1 < tt.hi ∧ is.2.2 = rayEval2 a b is.2.1

theorem edgeHit_some (tt : TrimTol K) (sq : K → K) (e : ℕ × (K × K) × (K × K)) (s : (K × K) × (K × K))
    (is : ℕ × K × (K × K)) (h : edgeHit tt sq e s = some is) :
    is.1 = e.1 ∧ 0 - tt.tol < is.2.1 ∧ is.2.1 < tt.hi ∧ is.2.2 = rayEval2 e.2.1 e.2.2 is.2.1 ∧
      (rayIntersect2 sq tt.rtol e.2.1 e.2.2 s.1 s.2).2.2 = stINTERSECT ∧
      is.2.1 = (rayIntersect2 sq tt.rtol e.2.1 e.2.2 s.1 s.2).1 := by
  unfold edgeHit at h
  simp only at h
  split at h
  · rename_i hc
    cases h
    exact ⟨rfl, hc.2.1.1, hc.2.1.2, rfl, hc.1, rfl⟩
  · cases h

theorem mem_cellIntersections (tt : TrimTol K) (sq : K → K) (c1 c2 c3 c4 : K × K) (trims : List (Trim K))
    (is : ℕ × K × (K × K)) (h : is ∈ cellIntersections tt sq c1 c2 c3 c4 trims) :
    IsHit tt c1 c2 c3 c4 is ∧
      ∃ tr ∈ trims, ∃ s ∈ polySegments tr.pts, ∃ e ∈ cellEdges c1 c2 c3 c4, edgeHit tt sq e s = some is := by
  unfold cellIntersections at h
  simp only [List.mem_flatMap, List.mem_filterMap] at h
  obtain ⟨tr, htr, s, hs, e, he, hh⟩ := h
  obtain ⟨g1, g2, g3, g4, _, _⟩ := edgeHit_some tt sq e s is hh
  refine ⟨⟨e.2.1, e.2.2, ?_, g2, g3, g4⟩, tr, htr, s, hs, e, he, hh⟩
  rw [g1]; exact he

/-- an entry of `tris_vertices`: a corner that is not inside (with its own id and parameters), or a NEW vertex
    `vidx + k`, `k < n`, whose parameters are the snapped point of one of the recorded intersections -/
inductive PolyEntry (tt : TrimTol K) (isx : List (ℕ × K × (K × K))) (vidx : ℕ) (ws : List (TVertex K)) (n : ℕ) :
    ℕ × (K × K) → Prop
  | corner (w : TVertex K) : w ∈ ws → w.fl.inside = false → PolyEntry tt isx vidx ws n (w.id, w.uv)
  | new (k : ℕ) (is : ℕ × K × (K × K)) : k < n → is ∈ isx → PolyEntry tt isx vidx ws n (vidx + k, snapUV tt.tol is.2.2)

theorem PolyEntry.mono {tt : TrimTol K} {isx : List (ℕ × K × (K × K))} {vidx : ℕ} {ws : List (TVertex K)} {n m : ℕ}
    {e : ℕ × (K × K)} (h : PolyEntry tt isx vidx ws n e) (hnm : n ≤ m) : PolyEntry tt isx vidx ws m e := by
  cases h with
  | corner w hw hi => exact PolyEntry.corner w hw hi
  | new k is hk his => exact PolyEntry.new k is (lt_of_lt_of_le hk hnm) his

theorem polyStep_inv (tt : TrimTol K) (isx : List (ℕ × K × (K × K))) (hisx : ∀ is ∈ isx, is.2.1 < tt.hi) (vidx : ℕ)
    (ws : List (TVertex K)) (acc : PolyAcc K) (idx : ℕ) (cur nxt : TVertex K) (hcur : cur ∈ ws)
    (h : ∀ e ∈ acc.verts, PolyEntry tt isx vidx ws acc.nvi e) :
    acc.nvi ≤ (polyStep tt isx vidx acc idx cur nxt).nvi ∧
    (polyStep tt isx vidx acc idx cur nxt).nvi ≤ acc.nvi + 1 ∧
    (polyStep tt isx vidx acc idx cur nxt).verts.length ≤ acc.verts.length + 2 ∧
    ∀ e ∈ (polyStep tt isx vidx acc idx cur nxt).verts,
      PolyEntry tt isx vidx ws (polyStep tt isx vidx acc idx cur nxt).nvi e := by
  unfold polyStep
  by_cases hb : (cur.fl.inside && nxt.fl.inside) = true
  · rw [if_pos hb]
    exact ⟨le_refl _, by omega, by omega, h⟩
  · rw [if_neg hb]
    -- the accumulator after the optional append of the current corner
    have hacc1 : ∀ (a1 : PolyAcc K), a1 = (if (!cur.fl.inside) = true then
          ({ acc with verts := acc.verts ++ [(cur.id, cur.uv)] } : PolyAcc K) else acc) →
        a1.nvi = acc.nvi ∧ a1.verts.length ≤ acc.verts.length + 1 ∧
          ∀ e ∈ a1.verts, PolyEntry tt isx vidx ws acc.nvi e := by
      intro a1 ha1
      by_cases hc : (!cur.fl.inside) = true
      · rw [if_pos hc] at ha1
        subst ha1
        refine ⟨rfl, by simp, ?_⟩
        intro e he
        rcases List.mem_append.mp he with he | he
        · exact h e he
        · simp only [List.mem_singleton] at he
          subst he
          exact PolyEntry.corner cur hcur (by simpa using hc)
      · rw [if_neg hc] at ha1
        subst ha1
        exact ⟨rfl, by omega, h⟩
    simp only []
    generalize hg : (if (!cur.fl.inside) = true then
      ({ acc with verts := acc.verts ++ [(cur.id, cur.uv)] } : PolyAcc K) else acc) = a1
    obtain ⟨n1, l1, m1⟩ := hacc1 a1 hg.symm
    by_cases hx : ((!cur.fl.inside && nxt.fl.inside) || (cur.fl.inside && !nxt.fl.inside)) = true
    · rw [if_pos hx]
      by_cases he : (isx.filter fun is => is.1 == idx).isEmpty = true
      · rw [if_pos he]
        exact ⟨by omega, by omega, by omega, fun e hm => n1 ▸ m1 e hm⟩
      · rw [if_neg he]
        have hne : (isx.filter fun is => is.1 == idx) ≠ [] := by
          intro hn; apply he; rw [hn]; rfl
        obtain ⟨is, hism, hsel⟩ := selMin_mem tt.hi _ hne
          (fun is hm => hisx is ((List.mem_filter.mp hm).1))
        refine ⟨by simp only []; omega, by simp only []; omega, by simp only [List.length_append, List.length_singleton]; omega, ?_⟩
        intro e hm
        simp only [] at hm ⊢
        rcases List.mem_append.mp hm with hm | hm
        · exact (m1 e hm).mono (by omega)
        · simp only [List.mem_singleton] at hm
          subst hm
          rw [hsel]
          exact PolyEntry.new a1.nvi is (by omega) (List.mem_filter.mp hism).1
    · rw [if_neg hx]
      exact ⟨by omega, by omega, by omega, fun e hm => n1 ▸ m1 e hm⟩

/-- the polygon of a cell: at most four new vertices, at most eight entries, every entry a corner that is not inside or
    a new vertex `vidx + k`, `k < nvi`, at a snapped intersection point -/
theorem polyVertices_inv (tt : TrimTol K) (isx : List (ℕ × K × (K × K))) (hisx : ∀ is ∈ isx, is.2.1 < tt.hi) (vidx : ℕ)
    (w1 w2 w3 w4 : TVertex K) :
    (polyVertices tt isx vidx w1 w2 w3 w4).nvi ≤ 4 ∧ (polyVertices tt isx vidx w1 w2 w3 w4).verts.length ≤ 8 ∧
    ∀ e ∈ (polyVertices tt isx vidx w1 w2 w3 w4).verts,
      PolyEntry tt isx vidx [w1, w2, w3, w4] (polyVertices tt isx vidx w1 w2 w3 w4).nvi e := by
  unfold polyVertices
  simp only []
  have s1 := polyStep_inv tt isx hisx vidx [w1, w2, w3, w4] { nvi := 0, verts := [] } 0 w1 w2 (by simp) (by simp)
  obtain ⟨a1, b1, c1, d1⟩ := s1
  have s2 := polyStep_inv tt isx hisx vidx [w1, w2, w3, w4] _ 1 w2 w3 (by simp) d1
  obtain ⟨a2, b2, c2, d2⟩ := s2
  have s3 := polyStep_inv tt isx hisx vidx [w1, w2, w3, w4] _ 2 w3 w4 (by simp) d2
  obtain ⟨a3, b3, c3, d3⟩ := s3
  have s4 := polyStep_inv tt isx hisx vidx [w1, w2, w3, w4] _ 3 w4 w1 (by simp) d3
  obtain ⟨a4, b4, c4, d4⟩ := s4
  simp only [List.length_nil] at b1 c1
  exact ⟨by omega, by omega, d4⟩

theorem cellIntersections_lt (tt : TrimTol K) (sq : K → K) (c1 c2 c3 c4 : K × K) (trims : List (Trim K)) :
    ∀ is ∈ cellIntersections tt sq c1 c2 c3 c4 trims, is.2.1 < tt.hi := by
  intro is h
  obtain ⟨⟨_, _, _, _, h3, _⟩, _⟩ := mem_cellIntersections tt sq c1 c2 c3 c4 trims is h
  exact h3

/-- the corners as the polygon loop sees them -/
def cellCorners (tt : TrimTol K) (trims : List (Trim K)) (v1 v2 v3 v4 : TVertex K) : List (TVertex K) :=
  [cornerAfter tt trims 0 v1, cornerAfter tt trims 1 v2, cornerAfter tt trims 2 v3, cornerAfter tt trims 3 v4]

/-- (iii), vertices: every vertex the call returns is a corner that is not inside (own id, own parameters) or a new
    vertex with id `vidx + k`, `k < nvi ≤ 4`, lying (before snapping) on one of the four cell edges at a parameter
    in `(0.0 - tol, 1.0 + tol)`; at most eight vertices -/
theorem trimCell_vertices (tt : TrimTol K) (sq : K → K) (trims : List (Trim K)) (v1 v2 v3 v4 : TVertex K) (vidx tidx : ℕ) :
    (cellPoly tt sq trims v1 v2 v3 v4 vidx).nvi ≤ 4 ∧
    (trimCell tt sq trims v1 v2 v3 v4 vidx tidx).verts.length ≤ 8 ∧
    ∀ e ∈ (trimCell tt sq trims v1 v2 v3 v4 vidx tidx).verts,
      (∃ w ∈ cellCorners tt trims v1 v2 v3 v4, w.fl.inside = false ∧ e = (w.id, w.uv)) ∨
      (∃ k, k < (cellPoly tt sq trims v1 v2 v3 v4 vidx).nvi ∧ e.1 = vidx + k ∧
        ∃ is, IsHit tt v1.uv v2.uv v3.uv v4.uv is ∧ e.2 = snapUV tt.tol is.2.2) := by
  have hinv := polyVertices_inv tt (cellIntersections tt sq v1.uv v2.uv v3.uv v4.uv trims)
    (cellIntersections_lt tt sq _ _ _ _ trims) vidx
    (cornerAfter tt trims 0 v1) (cornerAfter tt trims 1 v2) (cornerAfter tt trims 2 v3) (cornerAfter tt trims 3 v4)
  obtain ⟨h1, h2, h3⟩ := hinv
  refine ⟨h1, ?_, ?_⟩
  · by_cases h : allInside tt trims v1 v2 v3 v4 = true
    · rw [(trimCell_of_allInside tt sq trims v1 v2 v3 v4 vidx tidx h).1]; simp
    · rw [(trimCell_of_not_allInside tt sq trims v1 v2 v3 v4 vidx tidx (by simpa using h)).1]; exact h2
  · intro e he
    by_cases h : allInside tt trims v1 v2 v3 v4 = true
    · rw [(trimCell_of_allInside tt sq trims v1 v2 v3 v4 vidx tidx h).1] at he; cases he
    · rw [(trimCell_of_not_allInside tt sq trims v1 v2 v3 v4 vidx tidx (by simpa using h)).1] at he
      cases h3 e he with
      | corner w hw hi => exact Or.inl ⟨w, hw, hi, rfl⟩
      | new k is hk his =>
        exact Or.inr ⟨k, hk, rfl, is, (mem_cellIntersections tt sq _ _ _ _ trims is his).1, rfl⟩

/-- a triangle that survives the filter has its centre outside every NON-reversed trim -/
theorem classifyTri_not_inside (trims : List (Trim K)) (ctr : K × K) (h : (classifyTri trims ctr).inside = false) :
    ∀ tr ∈ trims, tr.reversed = false → wnPoly ctr tr.pts = false := by
  intro tr htr hr
  by_contra hc
  have hh : wnPoly ctr tr.pts = true := by simpa using hc
  have := (flagFold_hit (fun tr => wnPoly ctr tr.pts) trims {} ⟨tr, htr, hr, hh⟩).2
  rw [← classifyTri_eq, h] at this
  cases this

/-- (iii), triangles: every returned triangle is a fan triangle `(p, q, r)` of the returned vertices (`p` the first
    one), carries the ids of these vertices, has an id in `tidx … tidx + len - 3`, passed the centre test, and so
    its centre is outside every non-reversed trim -/
theorem trimCell_triangles (tt : TrimTol K) (sq : K → K) (trims : List (Trim K)) (v1 v2 v3 v4 : TVertex K)
    (vidx tidx : ℕ) (tid : ℕ) (t : List ℕ) (h : (tid, t) ∈ (trimCell tt sq trims v1 v2 v3 v4 vidx tidx).tris) :
    ∃ p q r, p ∈ (trimCell tt sq trims v1 v2 v3 v4 vidx tidx).verts ∧ q ∈ (trimCell tt sq trims v1 v2 v3 v4 vidx tidx).verts ∧
      r ∈ (trimCell tt sq trims v1 v2 v3 v4 vidx tidx).verts ∧
      (trimCell tt sq trims v1 v2 v3 v4 vidx tidx).verts.head? = some p ∧ t = [p.1, q.1, r.1] ∧
      tidx ≤ tid ∧ tid + 2 < tidx + (trimCell tt sq trims v1 v2 v3 v4 vidx tidx).verts.length ∧
      (classifyTri trims (triCenterUV p.2 q.2 r.2)).inside = false ∧
      ∀ tr ∈ trims, tr.reversed = false → wnPoly (triCenterUV p.2 q.2 r.2) tr.pts = false := by
  by_cases hall : allInside tt trims v1 v2 v3 v4 = true
  · rw [(trimCell_of_allInside tt sq trims v1 v2 v3 v4 vidx tidx hall).2] at h; cases h
  · obtain ⟨e1, e2⟩ := trimCell_of_not_allInside tt sq trims v1 v2 v3 v4 vidx tidx (by simpa using hall)
    rw [e2] at h
    rw [e1]
    obtain ⟨c, hc, hce⟩ := List.mem_map.mp h
    obtain ⟨hcm, hck⟩ := List.mem_filter.mp hc
    obtain ⟨n1, n2, n3⟩ := mem_numberFrom tidx _ c hcm
    obtain ⟨f1, f2, f3, f4⟩ := mem_fanTriangles _ c.2 n3
    rw [fanTriangles_length] at n2
    have hk : (classifyTri trims (triCenterUV c.2.1.2 c.2.2.1.2 c.2.2.2.2)).inside = false := by
      simpa [keepTri] using hck
    have e : tid = c.1 ∧ t = [c.2.1.1, c.2.2.1.1, c.2.2.2.1] := by
      have := hce; simp only [Prod.mk.injEq] at this; exact ⟨this.1.symm, this.2.symm⟩
    refine ⟨c.2.1, c.2.2.1, c.2.2.2, f1, f2, f3, f4, e.2, by omega, ?_, hk, classifyTri_not_inside trims _ hk⟩
    have : 1 ≤ (cellPoly tt sq trims v1 v2 v3 v4 vidx).verts.length := List.length_pos_of_mem f1
    omega

/-- (iii), triangles, fan form: a returned triangle with id `tid` is `(verts[0], verts[k+1], verts[k+2])` for
    `k = tid - tidx` – the apex and two CONSECUTIVE entries of the returned vertex list -/
theorem trimCell_triangles_fan (tt : TrimTol K) (sq : K → K) (trims : List (Trim K)) (v1 v2 v3 v4 : TVertex K)
    (vidx tidx : ℕ) (tid : ℕ) (t : List ℕ) (h : (tid, t) ∈ (trimCell tt sq trims v1 v2 v3 v4 vidx tidx).tris) :
    ∃ k p q r, tid = tidx + k ∧
      (trimCell tt sq trims v1 v2 v3 v4 vidx tidx).verts[0]? = some p ∧
      (trimCell tt sq trims v1 v2 v3 v4 vidx tidx).verts[k + 1]? = some q ∧
      (trimCell tt sq trims v1 v2 v3 v4 vidx tidx).verts[k + 2]? = some r ∧ t = [p.1, q.1, r.1] := by
  by_cases hall : allInside tt trims v1 v2 v3 v4 = true
  · rw [(trimCell_of_allInside tt sq trims v1 v2 v3 v4 vidx tidx hall).2] at h; cases h
  · obtain ⟨e1, e2⟩ := trimCell_of_not_allInside tt sq trims v1 v2 v3 v4 vidx tidx (by simpa using hall)
    rw [e2] at h
    rw [e1]
    obtain ⟨c, hc, hce⟩ := List.mem_map.mp h
    obtain ⟨hcm, _⟩ := List.mem_filter.mp hc
    obtain ⟨k, n1, n2, n3, n4⟩ := mem_numberFrom_fanTriangles tidx _ c hcm
    have e : tid = c.1 ∧ t = [c.2.1.1, c.2.2.1.1, c.2.2.2.1] := by
      have := hce; simp only [Prod.mk.injEq] at this; exact ⟨this.1.symm, this.2.symm⟩
    exact ⟨k, c.2.1, c.2.2.1, c.2.2.2, e.1.trans n1, n2, n3, n4, e.2⟩

/-- counts: at most `len(tris_vertices) - 2` triangles -/
theorem trimCell_tris_length (tt : TrimTol K) (sq : K → K) (trims : List (Trim K)) (v1 v2 v3 v4 : TVertex K)
    (vidx tidx : ℕ) :
    (trimCell tt sq trims v1 v2 v3 v4 vidx tidx).tris.length
      ≤ (trimCell tt sq trims v1 v2 v3 v4 vidx tidx).verts.length - 2 := by
  by_cases hall : allInside tt trims v1 v2 v3 v4 = true
  · rw [(trimCell_of_allInside tt sq trims v1 v2 v3 v4 vidx tidx hall).2]; simp
  · obtain ⟨e1, e2⟩ := trimCell_of_not_allInside tt sq trims v1 v2 v3 v4 vidx tidx (by simpa using hall)
    rw [e1, e2, List.length_map]
    refine le_trans (List.length_filter_le _ _) ?_
    rw [cellCandidates, numberFrom_length, fanTriangles_length]

end Geomdl.Trim
